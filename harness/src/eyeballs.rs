//! Stream `eb` (C10, C11): the real `EyeballSet` (through the verif hook re-export) on scripted
//! attempts under tokio's paused clock.
//!
//! line: `eb set <delay|-> <timeout|-> <conc|-> (<lat|-> <o|e>)*`
//! obs : `<ok|err|timeout|noprogress|hang> <idx> <t> (<idx> <t_first_poll>)*`
//! line: `eb tcpdelay <heTimeoutMs|-> <n>`   obs: `<delay_ns|-> <timeout_ns|->`  (TcpConnecting glue)
use crate::rng::Rng;
use hyperdriver::verif_hooks::{EyeballSet, HappyEyeballsError};
use std::future::Future;
use std::pin::Pin;
use std::sync::{Arc, Mutex};
use std::time::Duration;
use tokio::time::Instant;

fn opt(r: &mut Rng, none_w: u64, vals: &[u64]) -> String {
    if r.below(10) < none_w { "-".into() } else { r.pick(vals).to_string() }
}

pub fn gen(r: &mut Rng, i: u64) -> String {
    if i % 40 == 39 {
        let t = if r.chance(1, 8) { "-".to_string() } else { r.range(1, 999).to_string() };
        return format!("tcpdelay {t} {}", r.below(6));
    }
    let n = match r.below(12) { 0 => 0, 1 => 1, 2..=5 => 2, 6..=8 => 3, 9..=10 => 4, _ => 5 };
    let delay = opt(r, 2, &[0, 1, 3, 7, 10, 20, 50]);
    let timeout = opt(r, 3, &[0, 5, 15, 30, 60, 100, 200]);
    let conc = if r.chance(1, 4) { "-".to_string() } else { r.below(n + 2).to_string() };
    // latencies: mostly distinct offsets so that two attempts are rarely due at the same instant;
    // every 5th case draws from a coarse grid to provoke ties with ticks and deadlines.
    let coarse = r.chance(1, 5);
    let mut s = format!("set {delay} {timeout} {conc}");
    for k in 0..n {
        let lat = match r.below(10) {
            0 => "-".to_string(),
            1 => "0".to_string(),
            _ => {
                if coarse { (r.pick(&[5u64, 10, 15, 20, 30, 50, 100])).to_string() }
                else { (r.range(0, 12) * 11 + k * 2 + 1).to_string() }
            }
        };
        let out = if r.chance(11, 20) { "e" } else { "o" };
        s.push_str(&format!(" {lat} {out}"));
    }
    s
}

/// thorough: the full grid for n <= 3 over a small latency set
pub fn exhaustive() -> Vec<String> {
    let lats = ["-", "0", "4", "10", "25"];
    let outs = ["o", "e"];
    let delays = ["-", "0", "10"];
    let timeouts = ["-", "0", "20", "40"];
    let mut out = Vec::new();
    for n in 0..=3usize {
        let concs: Vec<String> = std::iter::once("-".to_string()).chain((0..=n).map(|c| c.to_string())).collect();
        let per = lats.len() * outs.len();
        let total = per.pow(n as u32);
        for d in delays {
            for t in timeouts {
                for c in &concs {
                    for code in 0..total {
                        let mut s = format!("eb set {d} {t} {c}");
                        let mut x = code;
                        for _ in 0..n {
                            let a = x % per;
                            x /= per;
                            s.push_str(&format!(" {} {}", lats[a / 2], outs[a % 2]));
                        }
                        out.push(s);
                    }
                }
            }
        }
    }
    out
}

type Att = Pin<Box<dyn Future<Output = Result<usize, usize>> + Send>>;

async fn run_set(delay: Option<u64>, timeout: Option<u64>, conc: Option<usize>, atts: Vec<(Option<u64>, bool)>) -> String {
    let t0 = Instant::now();
    let log: Arc<Mutex<Vec<(usize, u128)>>> = Default::default();
    let mut set: EyeballSet<Att, usize, usize> =
        EyeballSet::new(delay.map(Duration::from_millis), timeout.map(Duration::from_millis), conc);
    for (i, (lat, ok)) in atts.into_iter().enumerate() {
        let log = log.clone();
        set.push(Box::pin(async move {
            log.lock().unwrap().push((i, t0.elapsed().as_millis()));
            match lat {
                None => {
                    std::future::pending::<()>().await;
                    unreachable!()
                }
                Some(l) => {
                    if l > 0 {
                        tokio::time::sleep(Duration::from_millis(l)).await;
                    }
                    if ok { Ok(i) } else { Err(i) }
                }
            }
        }) as Att);
    }
    let res = tokio::time::timeout(Duration::from_millis(10_000_000), set.finish()).await;
    let t = t0.elapsed().as_millis();
    let head = match res {
        Err(_) => "hang 0 0".to_string(),
        Ok(Ok(i)) => format!("ok {i} {t}"),
        Ok(Err(HappyEyeballsError::Error(i))) => format!("err {i} {t}"),
        Ok(Err(HappyEyeballsError::Timeout(_))) => format!("timeout 0 {t}"),
        Ok(Err(HappyEyeballsError::NoProgress)) => format!("noprogress 0 {t}"),
        #[allow(unreachable_patterns)]
        Ok(Err(_)) => format!("other 0 {t}"),
    };
    drop(set);
    let starts: Vec<String> = log.lock().unwrap().iter().map(|(i, t)| format!("{i} {t}")).collect();
    format!("{head} {}", starts.join(" ")).trim_end().to_string()
}

// ---- capture of the `happy eyeballs` trace event of TcpConnecting::connect
struct Capture(Arc<Mutex<Option<(String, String)>>>);
struct Visit { delay: Option<String>, timeout: Option<String>, msg: Option<String> }
impl tracing::field::Visit for Visit {
    fn record_debug(&mut self, f: &tracing::field::Field, v: &dyn std::fmt::Debug) {
        match f.name() {
            "delay" => self.delay = Some(format!("{v:?}")),
            "timeout" => self.timeout = Some(format!("{v:?}")),
            "message" => self.msg = Some(format!("{v:?}")),
            _ => {}
        }
    }
}
impl tracing::Subscriber for Capture {
    fn enabled(&self, _: &tracing::Metadata<'_>) -> bool { true }
    fn new_span(&self, _: &tracing::span::Attributes<'_>) -> tracing::span::Id { tracing::span::Id::from_u64(1) }
    fn record(&self, _: &tracing::span::Id, _: &tracing::span::Record<'_>) {}
    fn record_follows_from(&self, _: &tracing::span::Id, _: &tracing::span::Id) {}
    fn event(&self, e: &tracing::Event<'_>) {
        let mut v = Visit { delay: None, timeout: None, msg: None };
        e.record(&mut v);
        if v.msg.as_deref() == Some("happy eyeballs") {
            *self.0.lock().unwrap() = Some((v.delay.unwrap_or_default(), v.timeout.unwrap_or_default()));
        }
    }
    fn enter(&self, _: &tracing::span::Id) {}
    fn exit(&self, _: &tracing::span::Id) {}
}

fn dur_ns(s: &str) -> String {
    // Debug of Option<Duration>: `None` | `Some(333.333333ms)` etc.
    if s == "None" || s.is_empty() { return "-".into(); }
    let inner = s.trim_start_matches("Some(").trim_end_matches(')');
    let (num, unit) = if let Some(x) = inner.strip_suffix("ns") { (x, 1.0) }
        else if let Some(x) = inner.strip_suffix("µs") { (x, 1e3) }
        else if let Some(x) = inner.strip_suffix("ms") { (x, 1e6) }
        else if let Some(x) = inner.strip_suffix('s') { (x, 1e9) }
        else { (inner, 1.0) };
    // exact decimal arithmetic: split at '.'
    let (ip, fp) = num.split_once('.').unwrap_or((num, ""));
    let scale = unit as u128;
    let mut ns = ip.parse::<u128>().unwrap_or(0) * scale;
    let mut frac_scale = scale;
    for ch in fp.chars() {
        frac_scale /= 10;
        ns += (ch.to_digit(10).unwrap_or(0) as u128) * frac_scale;
    }
    ns.to_string()
}

fn run_tcpdelay(t: Option<u64>, n: usize) -> String {
    use hyperdriver::client::conn::transport::tcp::{TcpTransport, TcpTransportConfig};
    let cap = Arc::new(Mutex::new(None));
    let sub = Capture(cap.clone());
    let mut cfg = TcpTransportConfig::default();
    cfg.happy_eyeballs_timeout = t.map(Duration::from_millis);
    cfg.connect_timeout = Some(Duration::from_millis(200));
    let tr: TcpTransport = TcpTransport::builder().with_config(cfg).with_gai_resolver().build();
    let addrs: Vec<std::net::SocketAddr> = (0..n).map(|_| "127.0.0.1:1".parse().unwrap()).collect();
    let rt = tokio::runtime::Builder::new_current_thread().enable_all().build().unwrap();
    tracing::subscriber::with_default(sub, || {
        let _ = rt.block_on(tr.connect_to_addrs(addrs));
    });
    let got = cap.lock().unwrap().clone();
    match got {
        Some((d, t)) => format!("{} {}", dur_ns(&d), dur_ns(&t)),
        None => "no-event".into(),
    }
}

pub fn run(toks: &[&str]) -> String {
    let o = |s: &str| s.parse::<u64>().ok();
    match toks.first().copied() {
        Some("set") if toks.len() >= 4 => {
            let atts: Vec<(Option<u64>, bool)> = toks[4..].chunks(2).filter(|c| c.len() == 2).map(|c| (o(c[0]), c[1] == "o")).collect();
            let rt = tokio::runtime::Builder::new_current_thread().enable_time().start_paused(true).build().unwrap();
            rt.block_on(run_set(o(toks[1]), o(toks[2]), o(toks[3]).map(|x| x as usize), atts))
        }
        Some("tcpdelay") if toks.len() >= 3 => run_tcpdelay(o(toks[1]), o(toks[2]).unwrap_or(0) as usize),
        _ => "bad-input".into(),
    }
}
