//! Stream `autocmp` (C08, last clause): "a request is answered identically to the same request sent to a single-protocol
//! server". The same client byte script - cut into the given chunks, a scheduler yield between them - is played against
//! hyperdriver's auto-detecting protocol (`AutoBuilder`) and against the single-protocol one it must behave like (hyper's
//! HTTP/1 builder, or its HTTP/2 builder when the script begins with the preface), each through `server::Protocol::
//! serve_connection_with_upgrades` with the same handler, over an in-memory pipe whose server end optionally holds every
//! write back until it is flushed (as a TLS stream or a `BufWriter` does). What comes back is compared after removing what
//! legitimately differs (the Date header; HTTP/2 header blocks are reduced to their first byte).
//!
//! line: `autocmp <io 0 plain | 1 write-buffering | 2 initialising reader | 3 both> <upgrade 0|1> <client bytes hex> ; <chunk size>*`   (the chunk list is cycled)
//! obs : `ref=<h1|h2> same=<0|1> auto=<digest> single=<digest>`
use crate::rng::Rng;
use crate::sniff::{hex, unhex};
use hyperdriver::server::Protocol;
use hyperdriver::Body;
use std::convert::Infallible;
use std::future::Future;
use std::pin::Pin;
use std::task::{Context, Poll};
use std::time::Duration;
use tokio::io::{AsyncRead, AsyncReadExt, AsyncWrite, AsyncWriteExt, DuplexStream, ReadBuf};

const PREFACE: &[u8] = b"PRI * HTTP/2.0\r\n\r\nSM\r\n\r\n";

pub fn gen(r: &mut Rng, _i: u64) -> String {
    let h1: &[&str] = &[
        "GET / HTTP/1.1\r\nHost: example.org\r\n\r\n",
        "GET /a/b?x=1 HTTP/1.1\r\nHost: example.org\r\nAccept: */*\r\n\r\n",
        "POST /p HTTP/1.1\r\nHost: example.org\r\nContent-Length: 11\r\n\r\nhello world",
        "POST /c HTTP/1.1\r\nHost: example.org\r\nTransfer-Encoding: chunked\r\n\r\n5\r\nhello\r\n0\r\n\r\n",
        "HEAD /h HTTP/1.1\r\nHost: example.org\r\n\r\n",
        "GET /one HTTP/1.1\r\nHost: example.org\r\n\r\nGET /two HTTP/1.1\r\nHost: example.org\r\n\r\n",
        "GET /old HTTP/1.0\r\n\r\n",
        "GET /close HTTP/1.1\r\nHost: example.org\r\nConnection: close\r\n\r\n",
        "PRI /not-the-preface HTTP/1.1\r\nHost: example.org\r\n\r\n",
        "PRI * HTTP/1.1\r\nHost: example.org\r\n\r\n",
        "PUT /x HTTP/1.1\r\nHost: example.org\r\nContent-Length: 0\r\n\r\n",
        "OPTIONS * HTTP/1.1\r\nHost: example.org\r\n\r\n",
        "garbage that is no request\r\n\r\n",
        "pri * http/2.0\r\n\r\nsm\r\n\r\n",
        "PRI * HTTP/2.0\r\n\r\nsm\r\n\r\n\x00\x00\x00\x04\x00\x00\x00\x00\x00",
    ];
    // 0 plain, 1 holds writes back until flushed, 2 initialises its read buffer before reading, 3 both
    let bufw = r.below(4);
    let (upgrade, bytes): (u8, Vec<u8>) = match r.below(8) {
        0 | 1 => (1, b"GET /up HTTP/1.1\r\nHost: example.org\r\nConnection: upgrade\r\nUpgrade: hdverif\r\n\r\n".to_vec()),
        2 | 3 => {
            // preface, SETTINGS, HEADERS (GET http://example.org/ , END_STREAM | END_HEADERS)
            let mut b = PREFACE.to_vec();
            b.extend_from_slice(&[0, 0, 0, 4, 0, 0, 0, 0, 0]);
            let mut block = vec![0x82u8, 0x86, 0x84, 0x41, 0x0b];
            block.extend_from_slice(b"example.org");
            b.extend_from_slice(&[0, 0, block.len() as u8, 1, 5, 0, 0, 0, 1]);
            b.extend_from_slice(&block);
            (0, b)
        }
        _ => (0, r.pick(h1).as_bytes().to_vec()),
    };
    let chunks: Vec<String> = match r.below(5) {
        0 => vec![bytes.len().to_string()],
        1 => vec!["1".into()],
        2 => vec![r.range(2, 9).to_string()],
        _ => (0..r.range(2, 6)).map(|_| r.pick(&[1u64, 2, 3, 5, 8, 13, 23, 24, 25, 40]).to_string()).collect(),
    };
    format!("{bufw} {upgrade} {} ; {}", hex(&bytes), chunks.join(" "))
}

/// the server's end of the pipe; with `hold` every write stays in a buffer until `poll_flush`
struct ServerIo { io: DuplexStream, hold: bool, init: bool, buf: Vec<u8> }
impl AsyncRead for ServerIo {
    fn poll_read(mut self: Pin<&mut Self>, cx: &mut Context<'_>, buf: &mut ReadBuf<'_>) -> Poll<std::io::Result<()>> {
        // `init`: a reader that zero-initialises the whole unfilled part of the buffer before it reads into it (a legal tokio
        // pattern: initialised > filled afterwards)
        if self.init { buf.initialize_unfilled(); }
        Pin::new(&mut self.io).poll_read(cx, buf)
    }
}
impl ServerIo {
    fn drain(&mut self, cx: &mut Context<'_>) -> Poll<std::io::Result<()>> {
        while !self.buf.is_empty() {
            let me = &mut *self;
            match Pin::new(&mut me.io).poll_write(cx, &me.buf) {
                Poll::Ready(Ok(0)) => return Poll::Ready(Err(std::io::ErrorKind::WriteZero.into())),
                Poll::Ready(Ok(n)) => { me.buf.drain(..n); }
                Poll::Ready(Err(e)) => return Poll::Ready(Err(e)),
                Poll::Pending => return Poll::Pending,
            }
        }
        Poll::Ready(Ok(()))
    }
}
impl AsyncWrite for ServerIo {
    fn poll_write(mut self: Pin<&mut Self>, cx: &mut Context<'_>, data: &[u8]) -> Poll<std::io::Result<usize>> {
        if self.hold { self.buf.extend_from_slice(data); Poll::Ready(Ok(data.len())) } else { Pin::new(&mut self.io).poll_write(cx, data) }
    }
    fn poll_flush(mut self: Pin<&mut Self>, cx: &mut Context<'_>) -> Poll<std::io::Result<()>> {
        if self.drain(cx).is_pending() { return Poll::Pending; }
        Pin::new(&mut self.io).poll_flush(cx)
    }
    fn poll_shutdown(mut self: Pin<&mut Self>, cx: &mut Context<'_>) -> Poll<std::io::Result<()>> {
        match self.drain(cx) { Poll::Pending => return Poll::Pending, Poll::Ready(Err(e)) => return Poll::Ready(Err(e)), Poll::Ready(Ok(())) => {} }
        Pin::new(&mut self.io).poll_shutdown(cx)
    }
}

async fn handler(mut req: http::Request<Body>) -> Result<http::Response<Body>, Infallible> {
    use http_body_util::BodyExt;
    if req.headers().contains_key(http::header::UPGRADE) {
        let on = hyper::upgrade::on(&mut req);
        tokio::spawn(async move {
            let Ok(up) = on.await else { return };
            let mut io = hyperdriver::bridge::io::TokioIo::new(up);
            let mut got = [0u8; 5];
            if io.read_exact(&mut got).await.is_ok() && &got == b"hello" { let _ = io.write_all(b"world").await; let _ = io.flush().await; }
            let _ = io.shutdown().await;
        });
        return Ok(http::Response::builder().status(101).header(http::header::CONNECTION, "upgrade").header(http::header::UPGRADE, "hdverif").body(Body::empty()).unwrap());
    }
    let (parts, body) = req.into_parts();
    let n = body.collect().await.map(|b| b.to_bytes().len()).unwrap_or(9999);
    Ok(http::Response::builder().header("x-seen", format!("{} {} {n}", parts.method, parts.uri.path())).body(Body::from(format!("hello world {}", parts.uri.path()))).unwrap())
}

type HFut = Pin<Box<dyn Future<Output = Result<http::Response<Body>, Infallible>> + Send + 'static>>;
#[derive(Clone)]
struct HSvc;
impl tower::Service<http::Request<Body>> for HSvc {
    type Response = http::Response<Body>;
    type Error = Infallible;
    type Future = HFut;
    fn poll_ready(&mut self, _: &mut Context<'_>) -> Poll<Result<(), Infallible>> { Poll::Ready(Ok(())) }
    fn call(&mut self, req: http::Request<Body>) -> HFut { Box::pin(handler(req)) }
}

async fn exchange<P>(protocol: P, hold: bool, init: bool, upgrade: bool, bytes: &[u8], chunks: &[usize]) -> Vec<u8>
where
    P: Protocol<HSvc, ServerIo, Body>,
    P::Connection: Future + Send + 'static,
    <P::Connection as Future>::Output: Send,
{
    let (mut client, server) = tokio::io::duplex(64 * 1024);
    let svc = HSvc;
    let conn = protocol.serve_connection_with_upgrades(ServerIo { io: server, hold, init, buf: vec![] }, svc);
    let task = tokio::spawn(async move { let _ = conn.await; });
    let (mut off, mut k) = (0usize, 0usize);
    while off < bytes.len() {
        let n = chunks[k % chunks.len()].max(1).min(bytes.len() - off);
        if client.write_all(&bytes[off..off + n]).await.is_err() { break; }
        off += n; k += 1;
        tokio::task::yield_now().await;
    }
    // everything the server says until it has been silent for 200 (virtual) ms; after a 101 the client says hello
    let mut seen = Vec::new();
    let mut buf = [0u8; 4096];
    let mut said_hello = false;
    loop {
        match tokio::time::timeout(Duration::from_millis(200), client.read(&mut buf)).await {
            Ok(Ok(0)) => { seen.extend_from_slice(b"<EOF>"); break; }
            Ok(Ok(n)) => seen.extend_from_slice(&buf[..n]),
            Ok(Err(_)) => { seen.extend_from_slice(b"<ERR>"); break; }
            Err(_) => {
                if upgrade && !said_hello && seen.starts_with(b"HTTP/1.1 101") { said_hello = true; let _ = client.write_all(b"hello").await; continue; }
                break;
            }
        }
    }
    task.abort();
    seen
}

/// what may differ between two servers answering the same request is taken out
fn normalise(h2: bool, raw: &[u8]) -> String {
    if !h2 {
        let text = String::from_utf8_lossy(raw);
        return text.split("\r\n").filter(|l| !l.to_ascii_lowercase().starts_with("date:")).collect::<Vec<_>>().join("|");
    }
    // frames: type.flags.stream, DATA payload in full, of a HEADERS block only its first byte (`:status`)
    let mut out = vec![];
    let mut i = 0;
    while i + 9 <= raw.len() {
        let len = ((raw[i] as usize) << 16) | ((raw[i + 1] as usize) << 8) | raw[i + 2] as usize;
        let (ty, fl, sid) = (raw[i + 3], raw[i + 4], u32::from_be_bytes([raw[i + 5] & 0x7f, raw[i + 6], raw[i + 7], raw[i + 8]]));
        let end = (i + 9 + len).min(raw.len());
        let payload = &raw[i + 9..end];
        out.push(match ty { 0 => format!("D{fl}.{sid}.{}", hex(payload)), 1 => format!("H{fl}.{sid}.{}", payload.first().map(|b| format!("{b:02x}")).unwrap_or_default()), t => format!("T{t}.{fl}.{sid}.{len}") });
        i = end;
    }
    if i < raw.len() { out.push(format!("+{}", String::from_utf8_lossy(&raw[i..]))); }
    out.join("|")
}

fn digest(s: &str) -> String {
    let mut h: u64 = 0xcbf29ce484222325;
    for b in s.bytes() { h ^= b as u64; h = h.wrapping_mul(0x100000001b3); }
    format!("{}:{h:016x}", s.len())
}

pub fn run(toks: &[&str]) -> String {
    if toks.len() < 5 || toks[3] != ";" { return "bad-line".into(); }
    let (hold, init, upgrade) = (toks[0] == "1" || toks[0] == "3", toks[0] == "2" || toks[0] == "3", toks[1] == "1");
    let bytes = unhex(toks[2]);
    let chunks: Vec<usize> = toks[4..].iter().filter_map(|t| t.parse().ok()).collect();
    if bytes.is_empty() || chunks.is_empty() { return "bad-line".into(); }
    let h2 = bytes.starts_with(PREFACE);
    let rt = tokio::runtime::Builder::new_current_thread().enable_all().start_paused(true).build().unwrap();
    rt.block_on(async move {
        let auto = exchange(hyperdriver::server::AutoBuilder::default(), hold, init, upgrade, &bytes, &chunks).await;
        let single = if h2 { exchange(hyper::server::conn::http2::Builder::new(hyperdriver::bridge::rt::TokioExecutor::new()), hold, init, upgrade, &bytes, &chunks).await }
                     else { exchange(hyper::server::conn::http1::Builder::new(), hold, init, upgrade, &bytes, &chunks).await };
        let (a, s) = (normalise(h2, &auto), normalise(h2, &single));
        if std::env::var("HDV_DEBUG").is_ok() { eprintln!("auto  : {a}\nsingle: {s}"); }
        format!("ref={} same={} auto={} single={}", if h2 { "h2" } else { "h1" }, (a == s) as u8, digest(&a), digest(&s))
    })
}
