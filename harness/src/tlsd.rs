//! Stream `tlsd` (C12): `TlsTransport::<TcpTransport>::default()` - the transport a default-constructed pooled service uses -
//! in a process in which nobody has installed a rustls crypto provider (this stream never does; every other TLS stream of the
//! harness installs one first, as every test in the repository does). An https / wss request must still begin with a TLS
//! handshake on the wire, whatever the process-wide state.
//!
//! line: `tlsd <scheme>`
//! obs : `cfg=<transport has a TLS configuration 0|1> wire=<tls|ascii|none>`
use crate::rng::Rng;
use hyperdriver::client::conn::transport::tcp::TcpTransport;
use hyperdriver::client::conn::transport::TlsTransport;
use hyperdriver::client::conn::Transport;
use std::time::Duration;
use tokio::io::{AsyncReadExt, AsyncWriteExt};

pub fn gen(r: &mut Rng, _i: u64) -> String { r.pick(&["https", "wss", "http", "ws", "https", "HTTPS"]).to_string() }

pub fn run(toks: &[&str]) -> String {
    if toks.len() != 1 { return "bad-line".into(); }
    let scheme = toks[0].to_string();
    let rt = tokio::runtime::Builder::new_current_thread().enable_all().build().unwrap();
    rt.block_on(async move {
        let l = tokio::net::TcpListener::bind("127.0.0.1:0").await.unwrap();
        let port = l.local_addr().unwrap().port();
        let peer = tokio::spawn(async move {
            let Ok(Ok((mut s, _))) = tokio::time::timeout(Duration::from_secs(3), l.accept()).await else { return vec![] };
            let mut buf = vec![0u8; 64];
            match tokio::time::timeout(Duration::from_secs(2), s.read(&mut buf)).await { Ok(Ok(n)) => buf[..n].to_vec(), _ => vec![] }
        });
        let mut transport: TlsTransport<TcpTransport> = Default::default();
        let cfg = transport.tls_config().is_some() as u8;
        let Ok(req) = http::Request::get(format!("{scheme}://127.0.0.1:{port}/secret")).body(()) else { return "bad-line".to_string() };
        let parts = req.into_parts().0;
        if let Ok(Ok(mut stream)) = tokio::time::timeout(Duration::from_secs(3), async { std::future::poll_fn(|cx| transport.poll_ready(cx)).await.ok(); transport.connect(parts).await }).await {
            // a connection in the clear carries what is written to it
            let _ = stream.write_all(b"GET /secret HTTP/1.1\r\n\r\n").await;
            let _ = stream.flush().await;
        }
        let seen = peer.await.unwrap_or_default();
        let wire = if seen.is_empty() { "none" } else if seen[0] == 0x16 { "tls" } else { "ascii" };
        format!("cfg={cfg} wire={wire}")
    })
}
