//! Stream `wire` (C13): the client's request-rewriting layers in builder order
//! (SetHostHeader -> Http2Checks -> Http1Checks -> RequestExecutor) around
//!   * a real hyperdriver `HttpConnection` over an in-memory duplex whose raw peer records the
//!     request head as it appears on the wire (HTTP/1 connections), or
//!   * a stub `Connection` reporting HTTP/2 that records the request handed to `send_request`
//!     (hyper's own h2 client would strip connection headers again and mask hyperdriver's behaviour);
//! and the protocol choice of `HttpConnectionBuilder` (request version x ALPN) observed through
//! `Connection::version()` and the first bytes on the wire.
//!
//! line: `wire req <conn 11|2> <method> <scheme|-> <host|-> <port|-> <path|-> <query|-> <ver> <hdr=val>*`
//! obs : `sent <method> <11|2> <scheme|-> <host|-> <port|-> <path|-> <query|-> <hdr=val>*|-` | `err-invalid-method` | `err-protocol` | `panic`
//! line: `wire proto <ver> <alpn 0|1>`      obs: `11` | `2` | `panic`
use crate::rng::Rng;
use hyperdriver::client::conn::protocol::auto::HttpConnectionBuilder;
use hyperdriver::client::conn::protocol::HttpProtocol;
use hyperdriver::client::conn::{Connection, Protocol};
use hyperdriver::info::{ConnectionInfo, HasConnectionInfo, HasTlsConnectionInfo, TlsConnectionInfo};
use hyperdriver::service::{ExecuteRequest, Http1ChecksLayer, Http2ChecksLayer, RequestExecutor, SetHostHeaderLayer};
use hyperdriver::stream::duplex::{DuplexAddr, DuplexStream};
use hyperdriver::Body;
use std::pin::Pin;
use std::sync::{Arc, Mutex};
use std::task::{Context, Poll};
use tokio::io::{AsyncRead, AsyncReadExt, AsyncWrite, AsyncWriteExt, ReadBuf};
use tower::ServiceExt;

const HOSTS: &[&str] = &["example.com", "a.b.example.org", "localhost", "127.0.0.1", "10.1.2.3", "[::1]", "[2001:db8::7]", "x"];
const SCHEMES: &[&str] = &["http", "https", "ws", "wss", "http", "https", "foo"];
const METHODS: &[&str] = &["GET", "POST", "PUT", "DELETE", "HEAD", "OPTIONS", "PATCH", "CONNECT", "PURGE", "GET", "GET"];
const PATHS: &[&str] = &["-", "/", "/a", "/a/b/c", "/index.html", "/a%20b", "/~user/x;y=1", "//double", "/trailing/"];
const QUERIES: &[&str] = &["-", "-", "q=1", "a=b&c=d", "x", "redirect=http://other.example/p?z"];
const HEADERS: &[&str] = &[
    "accept=*/*", "connection=keep-alive", "proxy-connection=keep-alive", "keep-alive=timeout=5", "transfer-encoding=chunked",
    "upgrade=websocket", "te=trailers", "x-custom=1", "x-custom=2", "user-agent=hdverif", "host=other.example", "host=example.com:8080",
    "content-type=text/plain", "cookie=a=b",
];

pub fn gen(r: &mut Rng, i: u64) -> String {
    if i % 25 == 24 {
        return format!("proto {} {}", r.pick(&["09", "10", "11", "2", "3", "11", "2", "11"]), r.chance(1, 2) as u8);
    }
    let conn = if r.chance(3, 5) { "11" } else { "2" };
    let method = *r.pick(METHODS);
    let (scheme, host) = if r.chance(1, 25) { ("-", if r.chance(1, 2) { "-" } else { *r.pick(HOSTS) }) } else { (*r.pick(SCHEMES), *r.pick(HOSTS)) };
    let port = if host == "-" { "-".to_string() } else {
        match r.below(8) { 0..=2 => "-".to_string(), 3 => "80".into(), 4 => "443".into(), 5 => "8080".into(), 6 => "8443".into(), _ => r.range(1, 65535).to_string() }
    };
    let (path, query) = if scheme == "-" && host != "-" { ("-", "-") } else { (*r.pick(PATHS), *r.pick(QUERIES)) };
    let (path, query) = if scheme == "-" && host == "-" && path == "-" { ("/rel", query) } else { (path, query) };
    let ver = *r.pick(&["09", "10", "11", "11", "11", "2", "2", "3"]);
    let mut hs: Vec<&str> = vec![];
    for _ in 0..r.below(5) {
        let h = *r.pick(HEADERS);
        // hyper's h1 encoder interprets transfer-encoding / connection itself: keep them off the real-wire h1 cases
        if conn == "11" && (h.starts_with("transfer-encoding") || h.starts_with("connection") || h.starts_with("upgrade") || h.starts_with("te=")) {
            continue;
        }
        hs.push(h);
    }
    format!("req {conn} {method} {scheme} {host} {port} {path} {query} {ver} {}", hs.join(" ")).trim_end().to_string()
}

// ------------------------------------------------------------------------------------------
/// Stub HTTP/2 connection recording what reaches `send_request`.
struct StubH2(Arc<Mutex<Option<String>>>);

fn show_req<B>(req: &http::Request<B>) -> String {
    let u = req.uri();
    let mut hs: Vec<(String, String)> = req.headers().iter().map(|(n, v)| (n.as_str().to_string(), v.to_str().unwrap_or("?").to_string())).collect();
    hs.sort_by(|a, b| a.0.cmp(&b.0)); // stable: values of one name keep their order
    let hs: Vec<String> = hs.into_iter().map(|(n, v)| format!("{n}={v}")).collect();
    format!(
        "sent {} {} {} {} {} {} {} {}",
        req.method(),
        if req.version() == http::Version::HTTP_2 { "2" } else { "11" },
        u.scheme_str().unwrap_or("-"),
        u.host().unwrap_or("-"),
        u.port_u16().map(|p| p.to_string()).unwrap_or("-".into()),
        if u.path().is_empty() { "-" } else { u.path() },
        u.query().unwrap_or("-"),
        if hs.is_empty() { "-".to_string() } else { hs.join(" ") }
    )
}

impl Connection<Body> for StubH2 {
    type ResBody = Body;
    type Error = std::io::Error;
    type Future = std::future::Ready<Result<http::Response<Body>, std::io::Error>>;
    fn send_request(&mut self, request: http::Request<Body>) -> Self::Future {
        *self.0.lock().unwrap() = Some(show_req(&request));
        std::future::ready(Ok(http::Response::new(Body::empty())))
    }
    fn poll_ready(&mut self, _: &mut Context<'_>) -> Poll<Result<(), Self::Error>> {
        Poll::Ready(Ok(()))
    }
    fn version(&self) -> http::Version {
        http::Version::HTTP_2
    }
}

fn build_request(toks: &[&str]) -> Option<http::Request<Body>> {
    let (method, scheme, host, port, path, query, ver) = (toks[0], toks[1], toks[2], toks[3], toks[4], toks[5], toks[6]);
    let mut uri = String::new();
    if scheme != "-" { uri.push_str(scheme); uri.push_str("://"); }
    if host != "-" { uri.push_str(host); if port != "-" { uri.push(':'); uri.push_str(port); } }
    if path != "-" { uri.push_str(path); }
    if query != "-" { uri.push('?'); uri.push_str(query); }
    let version = match ver { "09" => http::Version::HTTP_09, "10" => http::Version::HTTP_10, "11" => http::Version::HTTP_11, "2" => http::Version::HTTP_2, _ => http::Version::HTTP_3 };
    let mut b = http::Request::builder().method(method).uri(uri).version(version);
    for h in &toks[7..] {
        let (n, v) = h.split_once('=')?;
        b = b.header(n, v);
    }
    b.body(Body::empty()).ok()
}

/// Parse the head of an HTTP/1 request as read off the wire.
fn show_wire_h1(head: &str) -> String {
    let mut lines = head.split("\r\n");
    let rl = lines.next().unwrap_or("");
    let mut p = rl.split(' ');
    let (m, target, v) = (p.next().unwrap_or("?"), p.next().unwrap_or("?"), p.next().unwrap_or("?"));
    let u: Option<http::Uri> = target.parse().ok();
    let mut hs: Vec<(String, String)> = lines.filter(|l| !l.is_empty()).filter_map(|l| l.split_once(": ").map(|(n, v)| (n.to_ascii_lowercase(), v.to_string()))).collect();
    hs.sort_by(|a, b| a.0.cmp(&b.0));
    let hs: Vec<String> = hs.into_iter().map(|(n, v)| format!("{n}={v}")).collect();
    let (sc, h, po, pa, q) = match &u {
        Some(u) => (u.scheme_str().unwrap_or("-").to_string(), u.host().unwrap_or("-").to_string(), u.port_u16().map(|p| p.to_string()).unwrap_or("-".into()),
                    if u.path().is_empty() { "-".to_string() } else { u.path().to_string() }, u.query().unwrap_or("-").to_string()),
        None => ("?".into(), "?".into(), "?".into(), target.to_string(), "?".into()),
    };
    format!("sent {m} {} {sc} {h} {po} {pa} {q} {}", if v == "HTTP/1.1" { "11" } else if v == "HTTP/2.0" { "2" } else { v }, if hs.is_empty() { "-".to_string() } else { hs.join(" ") })
}

async fn run_req(toks: &[&str]) -> String {
    let Some(req) = build_request(&toks[1..]) else { return "bad-request".into() };
    if toks[0] == "2" {
        let slot = Arc::new(Mutex::new(None));
        let svc = tower::ServiceBuilder::new()
            .layer(SetHostHeaderLayer::new())
            .layer(Http2ChecksLayer::new())
            .layer(Http1ChecksLayer::new())
            .service(RequestExecutor::<StubH2, Body>::new());
        match svc.oneshot(ExecuteRequest::new(StubH2(slot.clone()), req)).await {
            Ok(_) => slot.lock().unwrap().clone().unwrap_or("ok-without-send".into()),
            Err(hyperdriver::client::Error::InvalidMethod(_)) => "err-invalid-method".into(),
            Err(e) => format!("err-other-{}", format!("{e}").replace(' ', "_")),
        }
    } else {
        let (a, mut b) = DuplexStream::new(64 * 1024);
        let peer = tokio::spawn(async move {
            let mut buf = Vec::new();
            let mut tmp = [0u8; 4096];
            loop {
                match b.read(&mut tmp).await {
                    Ok(0) | Err(_) => break,
                    Ok(n) => {
                        buf.extend_from_slice(&tmp[..n]);
                        if buf.windows(4).any(|w| w == b"\r\n\r\n") { break; }
                    }
                }
            }
            let _ = b.write_all(b"HTTP/1.1 200 OK\r\ncontent-length: 0\r\n\r\n").await;
            let _ = b.flush().await;
            String::from_utf8_lossy(&buf).into_owned()
        });
        let mut builder = hyper::client::conn::http1::Builder::new();
        let conn = match Protocol::<DuplexStream, Body>::connect(&mut builder, a, HttpProtocol::Http1).await {
            Ok(c) => c,
            Err(e) => return format!("handshake-failed-{e}").replace(' ', "_"),
        };
        let svc = tower::ServiceBuilder::new()
            .layer(SetHostHeaderLayer::new())
            .layer(Http2ChecksLayer::new())
            .layer(Http1ChecksLayer::new())
            .service(RequestExecutor::new());
        let res = svc.oneshot(ExecuteRequest::new(conn, req)).await;
        match res {
            Ok(_) => {}
            Err(hyperdriver::client::Error::InvalidMethod(_)) => { peer.abort(); return "err-invalid-method".into(); }
            Err(hyperdriver::client::Error::Protocol(_)) => { peer.abort(); return "err-protocol".into(); }
            Err(_) => {}
        }
        match tokio::time::timeout(std::time::Duration::from_secs(5), peer).await {
            Ok(Ok(head)) if !head.is_empty() => show_wire_h1(head.split("\r\n\r\n").next().unwrap_or("")),
            _ => "nothing-on-wire".into(),
        }
    }
}

// ------------------------------------------------------------------------------------------
#[pin_project::pin_project]
struct FakeTls {
    #[pin]
    inner: DuplexStream,
    tls: Option<TlsConnectionInfo>,
}
impl HasConnectionInfo for FakeTls {
    type Addr = DuplexAddr;
    fn info(&self) -> ConnectionInfo<DuplexAddr> { self.inner.info() }
}
impl HasTlsConnectionInfo for FakeTls {
    fn tls_info(&self) -> Option<&TlsConnectionInfo> { self.tls.as_ref() }
}
impl AsyncRead for FakeTls {
    fn poll_read(self: Pin<&mut Self>, cx: &mut Context<'_>, buf: &mut ReadBuf<'_>) -> Poll<std::io::Result<()>> { self.project().inner.poll_read(cx, buf) }
}
impl AsyncWrite for FakeTls {
    fn poll_write(self: Pin<&mut Self>, cx: &mut Context<'_>, buf: &[u8]) -> Poll<std::io::Result<usize>> { self.project().inner.poll_write(cx, buf) }
    fn poll_flush(self: Pin<&mut Self>, cx: &mut Context<'_>) -> Poll<std::io::Result<()>> { self.project().inner.poll_flush(cx) }
    fn poll_shutdown(self: Pin<&mut Self>, cx: &mut Context<'_>) -> Poll<std::io::Result<()>> { self.project().inner.poll_shutdown(cx) }
}

async fn run_proto(ver: &str, alpn: bool) -> String {
    let version = match ver { "09" => http::Version::HTTP_09, "10" => http::Version::HTTP_10, "11" => http::Version::HTTP_11, "2" => http::Version::HTTP_2, _ => http::Version::HTTP_3 };
    let proto: HttpProtocol = match std::panic::catch_unwind(|| HttpProtocol::from(version)) { Ok(p) => p, Err(_) => return "panic".into() };
    let (a, mut b) = DuplexStream::new(64 * 1024);
    let io = FakeTls { inner: a, tls: Some(TlsConnectionInfo { server_name: None, validated_server_name: false,
        alpn: Some(hyperdriver::info::Protocol::http(if alpn { http::Version::HTTP_2 } else { http::Version::HTTP_11 })) }) };
    let mut builder: HttpConnectionBuilder<Body> = HttpConnectionBuilder::default();
    let conn = match Protocol::<FakeTls, Body>::connect(&mut builder, io, proto).await { Ok(c) => c, Err(_) => return "handshake-failed".into() };
    // cross-check the reported version with the first bytes the peer sees (h2 writes its preface at once)
    let mut first = [0u8; 3];
    let saw_preface = matches!(tokio::time::timeout(std::time::Duration::from_millis(50), b.read_exact(&mut first)).await, Ok(Ok(_))) && &first == b"PRI";
    let v = conn.version();
    match (v, saw_preface) {
        (http::Version::HTTP_2, true) => "2".into(),
        (http::Version::HTTP_11, false) => "11".into(),
        _ => format!("inconsistent-{v:?}-{saw_preface}"),
    }
}

pub fn run(toks: &[&str]) -> String {
    let owned: Vec<String> = toks.iter().map(|s| s.to_string()).collect();
    let res = std::panic::catch_unwind(move || {
        let toks: Vec<&str> = owned.iter().map(|s| s.as_str()).collect();
        let rt = tokio::runtime::Builder::new_current_thread().enable_all().build().unwrap();
        rt.block_on(async {
            match toks.first().copied() {
                Some("req") if toks.len() >= 9 => run_req(&toks[1..]).await,
                Some("proto") if toks.len() == 3 => run_proto(toks[1], toks[2] == "1").await,
                _ => "bad-input".into(),
            }
        })
    });
    res.unwrap_or_else(|_| "panic".into())
}
