//! Stream `e2e` (C01): N concurrent requests through the real `Client` service (pool on or off,
//! HTTP/1.1 and HTTP/2, several origins = pool keys) over in-memory duplex connections of a chosen
//! buffer size to the real hyperdriver `Server` (auto HTTP/1 + HTTP/2), virtual time.
//! Every request carries a unique id in path, header and body pattern; the handler checks that they
//! agree and answers with a status, headers and a streamed body derived from the id; the client
//! checks that what it gets back belongs to its own request and is complete.
//!
//! line: `e2e <buf | tcp> <pool 0|1> <tls 0|1|2|3> [<shutdown signal at ms>] ; <req> ; <req> …`
//!   `tcp` instead of a buffer size: the servers listen on real TCP sockets (127.0.0.1, ephemeral ports) and the client connects
//!   through hyperdriver's own `TcpTransport` (getaddrinfo resolver, happy-eyeballs connect) behind a wrapper that maps the
//!   scenario's origins to those ports; real time, every time in the scenario divided by ten
//!   with a signal time every server runs `with_graceful_shutdown`; observations then also carry the virtual ms at which each
//!   request's handler was entered and `srv=<serving futures that completed Ok>/<servers>` (C07)   (tls 2 / 3: the server's ALPN offers only http/1.1 / only h2)
//!   (method `W` = protocol upgrade: GET with `Upgrade`, 101, then `bodylen` bytes to the server and `resplen` bytes back on the upgraded stream)
//!   req: `<id> <ver 10|11|2> <origin 0-7: scheme/host/port/user-information variants, see `origin`> <method G|P|U|D|H|W, `h` appended: the caller sets its own Host header>
//!         <pathlen | root: the path is `/` | nopath: the URI has no path> <querylen> <bodylen> <bodychunk> <bodyexact 0|1>
//!         <handler delay ms> <resplen> <respchunk> <respexact 0|1> <start ms> <cancel after ms|->`
//! obs : per request `<id>=<ok|cancelled|timeout|err:CLASS|mismatch:FIELDS>/<handler calls>/<ok|aborted|bad:FIELDS|->`
use crate::rng::Rng;
use bytes::Bytes;
use http_body_util::BodyExt;
use hyperdriver::server::conn::Acceptor;
use hyperdriver::stream::duplex;
use hyperdriver::{Body, Client, Server};
use std::collections::HashMap;
use std::pin::Pin;
use std::sync::{Arc, Mutex};
use std::task::{Context, Poll};
use std::time::Duration;
use tower::ServiceExt;

type BoxError = Box<dyn std::error::Error + Send + Sync + 'static>;

pub fn pat(id: u64, salt: u64, len: usize) -> Vec<u8> {
    (0..len).map(|i| { let i = i as u64; ((id.wrapping_mul(131) ^ salt.wrapping_mul(977)).wrapping_add(i.wrapping_mul(7)).wrapping_add(i / 251) % 251) as u8 }).collect()
}
fn text(id: u64, salt: u64, len: usize) -> String {
    pat(id, salt, len).into_iter().map(|b| (b'a' + b % 26) as char).collect()
}

/// request / response body delivered in chunks; with `exact` the length is announced up front
/// (content-length), otherwise it is not (chunked on HTTP/1)
#[derive(Default)]
pub struct ChunkBody { data: Bytes, pos: usize, chunk: usize, exact: bool, gap: Option<Pin<Box<tokio::time::Sleep>>>, gap_ms: u64,
                       /// when set, the body is hyperdriver's own `Body` (full / empty) and every `http_body::Body` method is its answer
                       own: Option<Body> }
impl ChunkBody {
    fn new(data: Vec<u8>, chunk: usize, exact: bool, gap_ms: u64) -> Self { ChunkBody { data: data.into(), pos: 0, chunk: chunk.max(1), exact, gap: None, gap_ms, own: None } }
    /// the same bytes as hyperdriver's `Body`, built the ways a caller builds one
    fn own(data: Vec<u8>, how: u64) -> Self {
        let b = if data.is_empty() && how % 2 == 0 { Body::empty() } else {
            match how % 4 { 0 => Body::from(data), 1 => Body::full(data), 2 => Body::from(Bytes::from(data)), _ => Body::from(http_body_util::Full::new(Bytes::from(data))) }
        };
        ChunkBody { own: Some(b), ..Default::default() }
    }
}
impl http_body::Body for ChunkBody {
    type Data = Bytes;
    type Error = BoxError;
    fn poll_frame(mut self: Pin<&mut Self>, cx: &mut Context<'_>) -> Poll<Option<Result<http_body::Frame<Bytes>, BoxError>>> {
        if let Some(b) = self.own.as_mut() { return Pin::new(b).poll_frame(cx).map(|o| o.map(|r| r.map_err(Into::into))); }
        if self.pos >= self.data.len() { return Poll::Ready(None); }
        if let Some(g) = self.gap.as_mut() {
            if g.as_mut().poll(cx).is_pending() { return Poll::Pending; }
            self.gap = None;
        }
        let end = (self.pos + self.chunk).min(self.data.len());
        let out = self.data.slice(self.pos..end);
        self.pos = end;
        if self.gap_ms > 0 && self.pos < self.data.len() { self.gap = Some(Box::pin(tokio::time::sleep(Duration::from_millis(self.gap_ms)))); }
        Poll::Ready(Some(Ok(http_body::Frame::data(out))))
    }
    fn is_end_stream(&self) -> bool { if let Some(b) = &self.own { return b.is_end_stream(); } self.pos >= self.data.len() }
    fn size_hint(&self) -> http_body::SizeHint {
        if let Some(b) = &self.own { return b.size_hint(); }
        if self.exact { http_body::SizeHint::with_exact((self.data.len() - self.pos) as u64) } else { http_body::SizeHint::default() }
    }
}
use std::future::Future;

/// times of a scenario are divided by this in real-time (TCP) mode
static SCALE: std::sync::atomic::AtomicU64 = std::sync::atomic::AtomicU64::new(1);
fn ms(t: u64) -> Duration { let k = SCALE.load(std::sync::atomic::Ordering::Relaxed); if k == 1 { Duration::from_millis(t) } else { Duration::from_micros(t * 1000 / k) } }
fn real_time() -> bool { SCALE.load(std::sync::atomic::Ordering::Relaxed) != 1 }

/// transport for the TCP mode: rewrites the scenario's authority to the loopback address and port of the server it names,
/// then hands over to hyperdriver's `TcpTransport`
#[derive(Clone)]
struct PortMap { inner: hyperdriver::client::conn::transport::tcp::TcpTransport, ports: Vec<u16> }
impl tower::Service<http::request::Parts> for PortMap {
    type Response = hyperdriver::stream::tcp::TcpStream;
    type Error = hyperdriver::client::conn::transport::tcp::TcpConnectionError;
    type Future = <hyperdriver::client::conn::transport::tcp::TcpTransport as tower::Service<http::request::Parts>>::Future;
    fn poll_ready(&mut self, cx: &mut Context<'_>) -> Poll<Result<(), Self::Error>> { tower::Service::poll_ready(&mut self.inner, cx) }
    fn call(&mut self, mut req: http::request::Parts) -> Self::Future {
        if let Some(k) = server_of(&req.uri) {
            let host = if k % 2 == 0 { "127.0.0.1" } else { "localhost" };
            let mut p = req.uri.clone().into_parts();
            p.authority = Some(format!("{host}:{}", self.ports[k]).parse().unwrap());
            req.uri = http::Uri::from_parts(p).unwrap();
        }
        tower::Service::call(&mut self.inner, req)
    }
}

#[derive(Clone, Debug)]
struct R { id: u64, h2: bool, h10: bool, origin: u64, method: &'static str, own_host: bool, shape: u8, plen: usize, qlen: usize, blen: usize, bchunk: usize, bexact: bool,
           delay: u64, rlen: usize, rchunk: usize, rexact: bool, start: u64, cancel: Option<u64> }

fn parse_req(t: &[&str]) -> Option<R> {
    if t.len() != 15 { return None; }
    let n = |i: usize| t[i].parse::<u64>().ok();
    let (own_host, m) = match t[3].strip_suffix('h') { Some(m) => (true, m), None => (false, t[3]) };
    let (shape, plen) = match t[4] { "root" => (1u8, 0), "nopath" => (2u8, 0), _ => (0u8, n(4)? as usize) };
    Some(R { id: n(0)?, h2: t[1] == "2", h10: t[1] == "10", origin: n(2)?, own_host, shape, plen, method: match m { "G" => "GET", "P" => "POST", "U" => "PUT", "D" => "DELETE", "H" => "HEAD", "W" => "UPGRADE", _ => return None },
        qlen: n(5)? as usize, blen: n(6)? as usize, bchunk: n(7)? as usize, bexact: t[8] == "1", delay: n(9)?, rlen: n(10)? as usize,
        rchunk: n(11)? as usize, rexact: t[12] == "1", start: n(13)?, cancel: if t[14] == "-" { None } else { Some(n(14)?) } })
}

/// origin index -> (scheme, authority as written, server it must reach, Host header it must produce)
/// Servers are distinct per (host, effective port): a connection of one origin used for another is seen.
fn origin(k: u64, tls: bool) -> (&'static str, &'static str, usize, &'static str) {
    let (plain, secure) = if tls { ("https", "wss") } else { ("http", "ws") };
    let (dflt, other) = if tls { (":443", ":80") } else { (":80", ":443") };
    match k % 8 {
        // user information in the authority: part of the URI, not of the host the request names
        6 => (plain, "alice@o0.example.com:8080", 1, "o0.example.com:8080"),
        7 => (plain, "alice:secret@o1.example.com", 2, "o1.example.com"),
        0 => (plain, "o0.example.com", 0, "o0.example.com"),
        1 => (plain, "o0.example.com:8080", 1, "o0.example.com:8080"),
        2 => (plain, "o1.example.com", 2, "o1.example.com"),
        3 => (plain, if other == ":443" { "o0.example.com:443" } else { "o0.example.com:80" }, 3, if other == ":443" { "o0.example.com:443" } else { "o0.example.com:80" }),
        4 => (secure, "o0.example.com", 0, "o0.example.com"),
        _ => (plain, if dflt == ":80" { "o0.example.com:80" } else { "o0.example.com:443" }, 0, "o0.example.com"),
    }
}
const NSERVERS: usize = 4;

fn server_of(uri: &http::Uri) -> Option<usize> {
    let secure = matches!(uri.scheme_str(), Some(s) if s.eq_ignore_ascii_case("https") || s.eq_ignore_ascii_case("wss"));
    let port = uri.port_u16().unwrap_or(if secure { 443 } else { 80 });
    match (uri.host()?, port) {
        ("o0.example.com", 80) if !secure => Some(0),
        ("o0.example.com", 443) if secure => Some(0),
        ("o0.example.com", 8080) => Some(1),
        ("o1.example.com", _) => Some(2),
        ("o0.example.com", _) => Some(3),
        _ => None,
    }
}

/// transport: routes by scheme, host and port to one of the servers
#[derive(Clone)]
struct Route { servers: Vec<duplex::DuplexClient>, buf: usize }
impl tower::Service<http::request::Parts> for Route {
    type Response = duplex::DuplexStream;
    type Error = std::io::Error;
    type Future = Pin<Box<dyn Future<Output = Result<duplex::DuplexStream, std::io::Error>> + Send + 'static>>;
    fn poll_ready(&mut self, _: &mut Context<'_>) -> Poll<Result<(), Self::Error>> { Poll::Ready(Ok(())) }
    fn call(&mut self, req: http::request::Parts) -> Self::Future {
        let target = server_of(&req.uri).map(|k| self.servers[k].clone());
        let buf = self.buf;
        Box::pin(async move {
            match target { Some(c) => c.connect(buf).await, None => Err(std::io::Error::new(std::io::ErrorKind::NotFound, "no such origin")) }
        })
    }
}

fn status_of(id: u64) -> u16 { [200u16, 201, 202, 203, 404, 418, 500][(id % 7) as usize] }

#[derive(Default)]
struct SrvLog { calls: HashMap<u64, (usize, String)>, started: HashMap<u64, u64>, t0: Option<tokio::time::Instant> }

async fn handler(log: Arc<Mutex<SrvLog>>, me: usize, req: http::Request<Body>) -> Result<http::Response<ChunkBody>, BoxError> {
    let mut req = req;
    {
        // handler entry: the server has started to handle this request (head received)
        let idh: Option<u64> = req.headers().get("x-id").and_then(|v| v.to_str().ok()).and_then(|v| v.parse().ok());
        let mut l = log.lock().unwrap();
        let now = l.t0.map(|t0| t0.elapsed().as_millis() as u64).unwrap_or(0);
        if let Some(idh) = idh { l.started.entry(idh).or_insert(now); }
    }
    let on_upgrade = if req.headers().contains_key(http::header::UPGRADE) { Some(hyper::upgrade::on(&mut req)) } else { None };
    let (parts, body) = req.into_parts();
    let h = |n: &str| parts.headers.get(n).and_then(|v| v.to_str().ok()).unwrap_or("").to_string();
    let hn = |n: &str| h(n).parse::<u64>().unwrap_or(u64::MAX);
    let path = parts.uri.path().to_string();
    let mut seg = path.trim_start_matches('/').split('/');
    let _r = seg.next();
    let id_in_path: u64 = seg.next().and_then(|s| s.parse().ok()).unwrap_or(u64::MAX);
    let filler = seg.next().unwrap_or("").to_string();
    // requests for the root path (or with no path at all) carry their id in the header and in the query only
    let rootish = h("x-ps") != "n";
    let id = if rootish { hn("x-id") } else { id_in_path };
    let (body, aborted) = match body.collect().await { Ok(c) => (c.to_bytes(), false), Err(_) => (Bytes::new(), true) };
    let mut bad = vec![];
    if hn("x-id") != id { bad.push("id"); }
    if h("x-m") != parts.method.as_str() { bad.push("method"); }
    if rootish { if path != "/" { bad.push("path"); } } else if filler != text(id, 3, hn("x-pl") as usize % 100000) { bad.push("path"); }
    let q = parts.uri.query().unwrap_or("");
    let ql = hn("x-ql") as usize % 100000;
    if (ql == 0 && !q.is_empty()) || (ql > 0 && q != format!("q={}", text(id, 4, ql))) { bad.push("query"); }
    // a body that ends in an error (the caller went away) is not an altered body
    let want_body = if on_upgrade.is_some() { vec![] } else { pat(id, 1, hn("x-bl") as usize % 10_000_000) };
    if !aborted && body[..] != want_body[..] { bad.push("body"); }
    let host = h("host");
    // (on HTTP/2 the authority is the URI's as the caller wrote it, user information included - hyper passes it on; the Host
    // header hyperdriver builds for HTTP/1 names host and port only: the comparison is on host and port)
    let authority = parts.uri.authority().map(|a| a.as_str().rsplit('@').next().unwrap_or("").to_string()).unwrap_or_default();
    let seen_origin = if !host.is_empty() { host.clone() } else { authority };
    // an explicit default port may or may not survive (Host header vs :authority): equivalent
    let dflt = h("x-dp");
    let seen_origin = seen_origin.strip_suffix(dflt.as_str()).unwrap_or(&seen_origin).to_string();
    // a Host header the caller set itself reaches the server on an HTTP/1 connection; on an HTTP/2 connection Host is removed
    // and the authority is the URI's
    let want_host = if parts.version != http::Version::HTTP_2 && !h("x-hc").is_empty() { h("x-hc") } else { h("x-h") };
    if seen_origin != want_host { bad.push("host"); }
    if hn("x-s") != me as u64 { bad.push("server"); }
    // the version the handler sees is the connection's, which the pool may choose (a pooled HTTP/2
    // connection serves HTTP/1.1 requests of its origin too): not compared
    if h("x-custom") != format!("v{}", id) { bad.push("header"); }
    {
        let mut l = log.lock().unwrap();
        let now = l.t0.map(|t0| t0.elapsed().as_millis() as u64).unwrap_or(0);
        l.started.entry(id).or_insert(now);
        let e = l.calls.entry(id).or_insert((0, String::new()));
        e.0 += 1;
        e.1 = if !bad.is_empty() { format!("bad:{}", bad.join(",")) } else if aborted { "aborted".into() } else { "ok".into() };
    }
    let delay = hn("x-d") % 100000;
    if delay > 0 { tokio::time::sleep(ms(delay)).await; }
    if let Some(on) = on_upgrade {
        // switch protocols: afterwards the client sends `x-ul` pattern bytes and gets `x-rl` pattern bytes back
        let (ul, rl, log2) = (hn("x-ul") as usize % 10_000_000, hn("x-rl") as usize % 10_000_000, log.clone());
        let half_close = h("x-half-close") == "1";
        tokio::spawn(async move {
            use tokio::io::{AsyncReadExt, AsyncWriteExt};
            let Ok(up) = on.await else { return };
            let mut io = hyperdriver::bridge::io::TokioIo::new(up);
            // a stream that ends early (the caller went away) is not altered data
            let flag = if half_close {
                // the client closes its half when it has said everything; the answer comes after that
                let mut got = vec![];
                match io.read_to_end(&mut got).await { Ok(_) => if got == pat(id, 5, ul) { None } else if got.len() < ul { Some("aborted") } else { Some("bad:upgraded-bytes") }, Err(_) => Some("aborted") }
            } else {
                let mut got = vec![0u8; ul];
                match io.read_exact(&mut got).await { Ok(_) => if got == pat(id, 5, ul) { None } else { Some("bad:upgraded-bytes") }, Err(_) => Some("aborted") }
            };
            if let Some(f) = flag { if let Some(e) = log2.lock().unwrap().calls.get_mut(&id) { if e.1 == "ok" { e.1 = f.into(); } } }
            let _ = io.write_all(&pat(id, 6, rl)).await;
            let _ = io.flush().await;
            let _ = io.shutdown().await;
        });
        return Ok(http::Response::builder().status(101).header(http::header::CONNECTION, "upgrade").header(http::header::UPGRADE, "hdverif")
            .header("x-id", id.to_string()).header("x-server", me.to_string()).body(ChunkBody::default())?);
    }
    let rlen = if parts.method == http::Method::HEAD { 0 } else { hn("x-rl") as usize % 10_000_000 };
    let resp = http::Response::builder()
        .status(status_of(id))
        .header("x-id", id.to_string())
        .header("x-origin", seen_origin)
        .header("x-server", me.to_string())
        .header("x-body-digest", format!("{:x}", fnv(&body)))
        .header("x-resp-custom", format!("r{}", id))
        .body(if h("x-re") == "1" && id % 4 == 2 { ChunkBody::own(pat(id, 2, rlen), id / 4) } else { ChunkBody::new(pat(id, 2, rlen), hn("x-rc") as usize % 10_000_000, h("x-re") == "1", 0) })?;
    Ok(resp)
}

fn fnv(b: &[u8]) -> u64 { b.iter().fold(0xcbf29ce484222325u64, |h, x| (h ^ *x as u64).wrapping_mul(0x100000001b3)) }

fn build(r: &R, tls: bool) -> http::Request<ChunkBody> {
    let (scheme, authority, srv, host) = origin(r.origin, tls);
    let mut uri = match r.shape { 0 => format!("{scheme}://{authority}/r/{}/{}", r.id, text(r.id, 3, r.plen)), 1 => format!("{scheme}://{authority}/"), _ => format!("{scheme}://{authority}") };
    if r.qlen > 0 { uri.push_str(&format!("?q={}", text(r.id, 4, r.qlen))); }
    let upgrade = r.method == "UPGRADE";
    let mut b = http::Request::builder()
        .method(if upgrade { "GET" } else { r.method })
        .uri(uri)
        .version(if r.h2 { http::Version::HTTP_2 } else if r.h10 { http::Version::HTTP_10 } else { http::Version::HTTP_11 });
    if upgrade { b = b.header(http::header::CONNECTION, "upgrade").header(http::header::UPGRADE, "hdverif"); }
    if r.own_host { b = b.header(http::header::HOST, format!("vhost{}.test", r.id)).header("x-hc", format!("vhost{}.test", r.id)); }
    b
        .header("x-ps", match r.shape { 0 => "n", 1 => "r", _ => "e" })
        .header("x-id", r.id.to_string()).header("x-m", if upgrade { "GET" } else { r.method }).header("x-pl", r.plen.to_string()).header("x-ql", r.qlen.to_string())
        .header("x-bl", r.blen.to_string()).header("x-o", r.origin.to_string()).header("x-h", host).header("x-dp", if tls { ":443" } else { ":80" }).header("x-s", srv.to_string()).header("x-v", if r.h2 { "2" } else { "11" })
        .header("x-d", r.delay.to_string()).header("x-rl", r.rlen.to_string()).header("x-rc", r.rchunk.to_string())
        .header("x-re", if r.rexact { "1" } else { "0" }).header("x-custom", format!("v{}", r.id))
        .header("x-ul", r.blen.to_string()).header("x-half-close", if upgrade && r.id % 2 == 1 { "1" } else { "0" })
        .body(if upgrade { ChunkBody::default() } else if r.bexact && r.id % 4 == 1 { ChunkBody::own(pat(r.id, 1, r.blen), r.id / 4) }
              else { ChunkBody::new(pat(r.id, 1, r.blen), r.bchunk, r.bexact, if r.id % 3 == 0 && !real_time() { 1 } else { 0 }) })
        .unwrap()
}

fn classify(e: &hyperdriver::client::Error) -> String {
    use hyperdriver::client::Error as E;
    match e {
        E::Connection(_) => "connection", E::Transport(_) => "transport", E::Protocol(_) => "protocol", E::Service(_) => "service", E::User(_) => "user",
        E::InvalidMethod(_) => "method", E::UnsupportedProtocol => "unsupported", E::RequestTimeout => "timeout", _ => "unknown",
    }.to_string()
}

async fn one(svc: hyperdriver::service::SharedService<http::Request<ChunkBody>, http::Response<Body>, hyperdriver::client::Error>, r: R, tls: bool) -> String {
    tokio::time::sleep(ms(r.start)).await;
    let work = async {
        let mut resp = match svc.oneshot(build(&r, tls)).await { Ok(x) => x, Err(e) => return format!("err:{}", classify(&e)) };
        if r.method == "UPGRADE" {
            use tokio::io::{AsyncReadExt, AsyncWriteExt};
            let (_, _, srv, _) = origin(r.origin, tls);
            let hv = |n: &str| resp.headers().get(n).and_then(|v| v.to_str().ok()).unwrap_or("").to_string();
            let mut bad = vec![];
            if resp.status().as_u16() != 101 { bad.push("status"); }
            if hv("x-id") != r.id.to_string() { bad.push("id"); }
            if hv("x-server") != srv.to_string() { bad.push("server"); }
            if !bad.is_empty() { return format!("mismatch:{}", bad.join(",")); }
            let up = match hyper::upgrade::on(&mut resp).await { Ok(u) => u, Err(_) => return "err:upgrade".to_string() };
            let mut io = hyperdriver::bridge::io::TokioIo::new(up);
            if io.write_all(&pat(r.id, 5, r.blen)).await.is_err() || io.flush().await.is_err() { return "err:upgraded-write".to_string(); }
            let mut got = vec![0u8; r.rlen];
            if r.id % 2 == 1 {
                // half-close: nothing more to say, but still listening - the server answers once it has seen the end
                if io.shutdown().await.is_err() { return "err:upgraded-shutdown".to_string(); }
                got.clear();
                if io.read_to_end(&mut got).await.is_err() { return "mismatch:upgraded-truncated".to_string(); }
                if got.len() < r.rlen { return "mismatch:upgraded-truncated".to_string(); }
            } else if io.read_exact(&mut got).await.is_err() { return "mismatch:upgraded-truncated".to_string(); }
            if got != pat(r.id, 6, r.rlen) { return "mismatch:upgraded-bytes".to_string(); }
            let _ = io.shutdown().await;
            return "ok".to_string();
        }
        let (parts, body) = resp.into_parts();
        let body = match body.collect().await { Ok(c) => c.to_bytes(), Err(_) => return "err:body".to_string() };
        let h = |n: &str| parts.headers.get(n).and_then(|v| v.to_str().ok()).unwrap_or("").to_string();
        let mut bad = vec![];
        if parts.status.as_u16() != status_of(r.id) { bad.push("status"); }
        if h("x-id") != r.id.to_string() { bad.push("id"); }
        let (_, _, srv, host) = origin(r.origin, tls);
        if h("x-origin") != host && !(r.own_host && h("x-origin") == format!("vhost{}.test", r.id)) { bad.push("origin"); }
        if h("x-server") != srv.to_string() { bad.push("server"); }
        if h("x-resp-custom") != format!("r{}", r.id) { bad.push("header"); }
        if h("x-body-digest") != format!("{:x}", fnv(&pat(r.id, 1, r.blen))) { bad.push("reqdigest"); }
        let want = if r.method == "HEAD" { vec![] } else { pat(r.id, 2, r.rlen) };
        if body[..] != want[..] { bad.push(if body.len() < want.len() { "body-truncated" } else { "body" }); }
        if bad.is_empty() { "ok".to_string() } else { format!("mismatch:{}", bad.join(",")) }
    };
    match r.cancel {
        Some(c) => tokio::select! { biased; o = work => o, _ = tokio::time::sleep(ms(c)) => "cancelled".to_string() },
        None => match tokio::time::timeout(Duration::from_secs(600), work).await { Ok(o) => o, Err(_) => "timeout".to_string() },
    }
}

async fn run_case(buf: usize, pool: bool, tls: bool, alpn_srv: &str, sig: Option<u64>, reqs: Vec<R>) -> String {
    crate::tls::install();
    let log: Arc<Mutex<SrvLog>> = Default::default();
    log.lock().unwrap().t0 = Some(tokio::time::Instant::now());
    let (sig_tx, sig_rx) = tokio::sync::watch::channel(false);
    let mut clients = vec![];
    let mut servers = vec![];
    let mut held = vec![];
    let mut ports = vec![];
    for me in 0..NSERVERS {
        let acceptor = if real_time() {
            let l = tokio::net::TcpListener::bind((std::net::Ipv4Addr::LOCALHOST, 0)).await.unwrap();
            ports.push(l.local_addr().unwrap().port());
            Acceptor::from(l)
        } else {
            let (client, incoming) = duplex::pair();
            clients.push(client);
            Acceptor::from(incoming)
        };
        let acceptor = if tls { acceptor.with_tls(Arc::new(crate::tls::server_config("good", alpn_srv))) } else { acceptor };
        let log2 = log.clone();
        let make = hyperdriver::service::make_service_fn(move |_io: &hyperdriver::server::conn::Stream| {
            let log = log2.clone();
            async move { Ok::<_, BoxError>(tower::service_fn(move |req| handler(log.clone(), me, req))) }
        });
        if std::env::var("HDV_PLAIN_HYPER").is_ok() && sig.is_some() && !tls {
            // attribution probe (not used by any check): the same scenario against plain hyper HTTP/1 connections driven
            // the way GracefulConnectionDriver drives them (poll the connection, then the signal, call graceful_shutdown once)
            use futures_util::StreamExt;
            let mut rx0 = sig_rx.clone();
            let log3 = log.clone();
            let mut acceptor = Box::pin(acceptor);
            held.push(tokio::spawn(async move {
                loop {
                    let stream = tokio::select! { s = acceptor.next() => match s { Some(Ok(s)) => s, _ => return }, _ = rx0.wait_for(|v| *v) => return };
                    let log = log3.clone();
                    let mut rx = rx0.clone();
                    tokio::spawn(async move {
                        let svc = hyper::service::service_fn(move |req: http::Request<hyper::body::Incoming>| handler(log.clone(), me, req.map(Body::from)));
                        let conn = hyper::server::conn::http1::Builder::new().serve_connection(hyperdriver::bridge::io::TokioIo::new(stream), svc).with_upgrades();
                        let mut conn = std::pin::pin!(conn);
                        let mut told = false;
                        std::future::poll_fn(|cx| {
                            loop {
                                if let Poll::Ready(_) = conn.as_mut().poll(cx) { return Poll::Ready(()); }
                                if told { return Poll::Pending; }
                                let mut f = std::pin::pin!(rx.wait_for(|v| *v));
                                match f.as_mut().poll(cx) { Poll::Ready(_) => { told = true; conn.as_mut().graceful_shutdown(); } Poll::Pending => return Poll::Pending }
                            }
                        }).await;
                    });
                }
            }));
            servers.push(tokio::spawn(async { Ok(()) }));
            continue;
        }
        let srv = Server::builder().with_acceptor(acceptor).with_make_service(make).with_auto_http().with_tokio();
        if sig.is_some() {
            let mut rx = sig_rx.clone();
            // the completed future is kept alive until the end of the scenario: nothing may depend on it being dropped
            let (res_tx, res_rx) = tokio::sync::oneshot::channel();
            let fut = srv.with_graceful_shutdown(async move { let _ = rx.wait_for(|v| *v).await; });
            held.push(tokio::spawn(async move {
                let mut fut: Pin<Box<dyn Future<Output = Result<(), hyperdriver::server::ServerError>> + Send>> = Box::pin(fut);
                let r = (&mut fut).await;
                let _ = res_tx.send(r.is_ok());
                std::future::pending::<()>().await;
            }));
            servers.push(tokio::spawn(async move { match res_rx.await { Ok(true) => Ok(()), _ => Err(hyperdriver::server::ServerError::Io(std::io::Error::other("serving future failed"))) } }));
        } else {
            servers.push(tokio::spawn(std::future::IntoFuture::into_future(srv)));
        }
    }
    if let Some(t) = sig {
        tokio::spawn(async move { tokio::time::sleep(Duration::from_millis(t)).await; let _ = sig_tx.send(true); std::future::pending::<()>().await; });
    }
    macro_rules! client { ($transport:expr) => {{
        let b = Client::builder().with_transport($transport).with_protocol(hyperdriver::client::conn::protocol::auto::HttpConnectionBuilder::<ChunkBody>::default()).without_redirects();
        let b = if pool { b.with_default_pool() } else { b.without_pool() };
        let b = if tls { b.with_tls(crate::tls::client_config("both")) } else { b.without_tls() };
        b.with_body::<ChunkBody, Body>().build_service()
    }}; }
    let svc = if real_time() {
        client!(PortMap { inner: hyperdriver::client::conn::transport::tcp::TcpTransport::default(), ports })
    } else {
        client!(Route { servers: clients, buf })
    };
    let handles: Vec<_> = reqs.iter().cloned().map(|r| (r.id, tokio::spawn(one(svc.clone(), r, tls)))).collect();
    let mut outs = vec![];
    for (id, h) in handles {
        let o = match h.await { Ok(o) => o, Err(_) => "panic".to_string() };
        outs.push((id, o));
    }
    // let handlers of cancelled requests finish before the log is read
    tokio::time::sleep(if real_time() { Duration::from_millis(60) } else { Duration::from_secs(200) }).await;
    drop(svc);
    // with a shutdown signal every serving future must have completed successfully by now
    let mut srv_ok = 0;
    for sv in servers {
        if sig.is_some() && sv.is_finished() { if let Ok(Ok(())) = sv.await { srv_ok += 1; } } else { sv.abort(); }
    }
    for h in held { h.abort(); }
    let l = log.lock().unwrap();
    let mut out = outs.iter().map(|(id, o)| {
        let (n, f) = l.calls.get(id).cloned().unwrap_or((0, "-".into()));
        if sig.is_some() {
            format!("{id}={o}/{n}/{f}/{}", l.started.get(id).map(|t| t.to_string()).unwrap_or("-".into()))
        } else { format!("{id}={o}/{n}/{f}") }
    }).collect::<Vec<_>>().join(" ");
    if sig.is_some() { out.push_str(&format!(" srv={srv_ok}/{NSERVERS}")); }
    out
}

pub fn run(toks: &[&str]) -> String {
    let mut parts: Vec<Vec<&str>> = vec![vec![]];
    for t in toks { if *t == ";" { parts.push(vec![]); } else { parts.last_mut().unwrap().push(*t); } }
    if parts[0].len() != 3 && parts[0].len() != 4 { return "bad-input".into(); }
    let sig: Option<u64> = parts[0].get(3).and_then(|t| t.parse().ok());
    let buf: usize = parts[0][0].parse().unwrap_or(1024);
    let reqs: Vec<R> = parts[1..].iter().filter_map(|p| parse_req(p)).collect();
    if reqs.len() != parts.len() - 1 { return "bad-input".into(); }
    let tcp = parts[0][0] == "tcp";
    SCALE.store(if tcp { 10 } else { 1 }, std::sync::atomic::Ordering::Relaxed);
    let rt = tokio::runtime::Builder::new_current_thread().enable_all().start_paused(!tcp).build().unwrap();
    // tls: 0 = none, 1 = TLS with ALPN h2+http/1.1 on the server, 2 = server offers http/1.1 only, 3 = server offers h2 only
    let tls = parts[0][2];
    let r = rt.block_on(run_case(buf, parts[0][1] == "1", tls != "0", match tls { "2" => "h11", "3" => "h2", _ => "both" }, sig, reqs));
    drop(rt);
    SCALE.store(1, std::sync::atomic::Ordering::Relaxed);
    r
}

/// scenarios with a graceful-shutdown signal in the middle of the traffic (C07)
pub fn gen_signal(r: &mut Rng, i: u64) -> String {
    let base = gen(r, i);
    let (head, rest) = base.split_once(" ; ").unwrap();
    // (the signal time is virtual: no real-socket scenarios here)
    let head = head.replace("tcp", "1024");
    // requests start at 0-40 ms (+500 per round), handlers take up to 100 ms, bodies stream with 1 ms gaps
    let sig = *r.pick(&[0u64, 1, 3, 8, 15, 25, 40, 60, 110, 505, 520, 560]);
    // cancellations are C01's business: here every request runs to its end
    // … and protocol upgrades are left out: an upgrade whose 101 is being written at the very instant of graceful_shutdown leaves
    // the upgraded stream stalled – with plain hyper server connections too (`HDV_PLAIN_HYPER=1` runs the scenario against those)
    let reqs: Vec<String> = rest.split(" ; ").map(|q| { let mut t: Vec<&str> = q.split(' ').collect(); let n = t.len(); t[n - 1] = "-"; if t[3] == "W" { t[3] = "G"; t[8] = "1"; } t.join(" ") }).collect();
    format!("{head} {sig} ; {}", reqs.join(" ; "))
}

pub fn gen(r: &mut Rng, _i: u64) -> String {
    let buf = *r.pick(&[8u64, 16, 24, 64, 256, 1024, 4096, 65536]);
    let pool = r.chance(4, 5) as u8;
    let tls = if r.chance(1, 4) { r.range(1, 3) } else { 0 };
    // HTTP/2 over TLS over a pipe of fewer than 16 bytes spins in the client's h2 connection task (hyper's H2ClientFuture ->
    // h2 FramedWrite::flush -> tokio-rustls poll_flush); HTTP/1 over TLS and HTTP/2 in the clear are fine at 8 bytes. Not
    // attributed to hyperdriver, not generated (DESIGN.md, C01)
    let buf = if tls != 0 && buf < 64 { 64 } else { buf };
    let n = r.range(2, 10);
    // a scenario uses a few of the six origins, often ones that differ only in port or scheme
    let pool_of: Vec<u64> = match r.below(6) { 0 => vec![0], 1 => vec![0, 3, 5], 2 => vec![0, 4, 1], 3 => vec![0, 6, 1], 4 => vec![0, 6, 7, 2], _ => vec![0, 1, 2, 3, 4, 5] };
    // rounds: later rounds find the connections of earlier ones in the pool
    let rounds = r.range(1, 3);
    let small = |r: &mut Rng| match r.below(6) { 0 => 0, 1 => r.range(1, 16), 2 | 3 => r.range(17, 900), 4 => r.range(901, 9000), _ => r.range(9001, 70000) };
    let upg_origin = *r.pick(&pool_of);
    let upgrades = tls != 1 && tls != 3 && r.chance(1, 3);
    let mut reqs = vec![];
    for k in 0..n {
        let id = 1000 + k * 7 + r.below(7);
        let org = *r.pick(&pool_of);
        // (an HTTP/1.0 request is sent as HTTP/1.1 on an HTTP/1 connection, like any other below HTTP/2)
        let ver = if r.chance(1, 2) { if r.chance(1, 6) { "10" } else { "11" } } else { "2" };
        let method = *r.pick(&["G", "P", "U", "D", "P", "G", "H", "W"]);
        // protocol upgrades are an HTTP/1.1 mechanism (on an HTTP/2 connection the Upgrade header is, correctly, dropped): they are
        // generated for one origin of the scenario, whose requests are then all HTTP/1.1, and not where TLS may negotiate h2
        let method = if method == "W" && !upgrades { "G" } else { method };
        let own_host = if method != "W" && r.chance(1, 6) { "h" } else { "" };
        let (shape, force_query) = match r.below(10) { 0 => ("root", r.chance(3, 4)), 1 => ("nopath", true), _ => ("", false) };
        let org = if method == "W" { upg_origin } else { org };
        let ver = if upgrades && org == upg_origin { "11" } else { ver };
        let blen = if method == "G" || method == "H" || method == "D" { if r.chance(1, 6) { small(r) } else { 0 } } else { small(r) };
        let bchunk = *r.pick(&[1u64, 7, 64, 1000, 16384, 100000]);
        let rlen = small(r);
        let rchunk = *r.pick(&[1u64, 13, 100, 4096, 100000]);
        // a chunk size of 1 on a large body is slow: cap the work
        let bchunk = if blen > 2000 && bchunk < 64 { 64 } else { bchunk };
        let rchunk = if rlen > 2000 && rchunk < 64 { 100 } else { rchunk };
        let round = r.below(rounds);
        let start = round * 500 + r.below(40);
        let delay = *r.pick(&[0u64, 0, 1, 5, 20, 100]);
        let cancel = if r.chance(1, 5) { r.pick(&[0u64, 1, 2, 5, 10, 30, 120]).to_string() } else { "-".to_string() };
        // hyper sends no body for GET/HEAD unless its length is known up front
        let bexact = if method == "G" || method == "H" { 1 } else { r.chance(1, 2) as u8 };
        let plen = if shape.is_empty() { r.below(40).to_string() } else { shape.to_string() };
        reqs.push(format!("{id} {ver} {} {method}{own_host} {plen} {} {blen} {bchunk} {bexact} {delay} {rlen} {rchunk} {} {start} {cancel}",
            org, if !force_query && r.chance(1, 2) { 0 } else { r.range(1, 30) }, r.chance(1, 2) as u8));
    }
    // one scenario in twelve runs over real TCP sockets and hyperdriver's TcpTransport (real time, times divided by ten)
    let buf = if r.chance(1, 12) { "tcp".to_string() } else { buf.to_string() };
    format!("{buf} {pool} {tls} ; {}", reqs.join(" ; "))
}
