//! Stream `snie` (C20 end to end): a real hyperdriver `Server` behind its TLS acceptor, with `with_tls_connection_info()` and the
//! `ValidateSNI` layer around the handler; a raw TLS client (tokio-rustls, any certificate accepted) names the server in SNI,
//! and a hyper client connection over it sends one request naming a host in the Host header and / or the request target.
//! Everything between the ClientHello and `ValidateSNI`'s decision is hyperdriver's: the acceptor, `TlsConnectionInfo::server`,
//! the info channel, the connection service that attaches the info to each request.
//!
//! line: `snie <h2 0|1> <hostHdr|-> <hostHdrPort|-> <authority|-> <authPort|-> <tls 0|1> <serverName|-> [<alpn|na>]`   (as `sni`;
//!       `na`: the HTTP/1.1 client offers no ALPN)
//! obs : `fwd <handler saw validated_server_name 0|1>` | `rej` | `err-<stage>`
use crate::rng::Rng;
use hyperdriver::bridge::io::TokioIo;
use hyperdriver::info::TlsConnectionInfo;
use hyperdriver::server::conn::tls::sni::ValidateSNI;
use hyperdriver::server::conn::Acceptor;
use hyperdriver::stream::duplex;
use hyperdriver::{Body, Server};
use rustls::client::danger::{HandshakeSignatureValid, ServerCertVerified, ServerCertVerifier};
use rustls::pki_types::{CertificateDer, ServerName, UnixTime};
use std::sync::Arc;
use tower::Layer;

type BoxError = Box<dyn std::error::Error + Send + Sync + 'static>;

const NAMES: &[&str] = &["example.com", "example.org", "a.example.com", "xn--bcher-kva.example", "localhost", "h", "my-host.internal", "example.co", "127.0.0.1"];

pub fn gen(r: &mut Rng, _i: u64) -> String {
    let base = *r.pick(NAMES);
    let h2 = r.chance(1, 2);
    let host = |r: &mut Rng, present: u64| -> (String, String) {
        if !r.chance(present, 10) { return ("-".into(), "-".into()); }
        let name = if r.chance(7, 10) { base } else { *r.pick(NAMES) };
        let name = match r.below(4) { 0 => name.to_uppercase(), 1 => { let mut c = name.chars(); c.next().map(|f| f.to_uppercase().collect::<String>() + c.as_str()).unwrap_or_default() } _ => name.to_string() };
        (name, if r.chance(1, 3) { r.pick(&[80u64, 443, 8443]).to_string() } else { "-".into() })
    };
    let (hh, hp) = host(r, 8);
    // (hyper's HTTP/2 client refuses a request whose URI has no authority: that form is left to the `sni` stream)
    let (ah, ap) = host(r, if h2 { 10 } else { 3 });
    let tls = r.chance(9, 10);
    // the name in SNI: a DNS name (an IP address is never sent as SNI: `-`)
    let sni = if !tls || r.chance(1, 8) { "-".to_string() } else { let n = if r.chance(7, 10) { base } else { *r.pick(NAMES) }; if n == "127.0.0.1" { "-".into() } else { n.to_string() } };
    // an HTTP/1.1 client may offer no ALPN at all (with no server name either, the connection's TLS information is "empty")
    let alpn = if !h2 && r.chance(1, 2) { "na" } else { "alpn" };
    format!("{} {hh} {hp} {ah} {ap} {} {sni} {alpn}", h2 as u8, tls as u8)
}

#[derive(Debug)]
struct AnyCert(Arc<rustls::crypto::CryptoProvider>);
impl ServerCertVerifier for AnyCert {
    fn verify_server_cert(&self, _: &CertificateDer<'_>, _: &[CertificateDer<'_>], _: &ServerName<'_>, _: &[u8], _: UnixTime) -> Result<ServerCertVerified, rustls::Error> { Ok(ServerCertVerified::assertion()) }
    fn verify_tls12_signature(&self, m: &[u8], c: &CertificateDer<'_>, d: &rustls::DigitallySignedStruct) -> Result<HandshakeSignatureValid, rustls::Error> { rustls::crypto::verify_tls12_signature(m, c, d, &self.0.signature_verification_algorithms) }
    fn verify_tls13_signature(&self, m: &[u8], c: &CertificateDer<'_>, d: &rustls::DigitallySignedStruct) -> Result<HandshakeSignatureValid, rustls::Error> { rustls::crypto::verify_tls13_signature(m, c, d, &self.0.signature_verification_algorithms) }
    fn supported_verify_schemes(&self) -> Vec<rustls::SignatureScheme> { self.0.signature_verification_algorithms.supported_schemes() }
}

trait Io: tokio::io::AsyncRead + tokio::io::AsyncWrite + Unpin + Send {}
impl<T: tokio::io::AsyncRead + tokio::io::AsyncWrite + Unpin + Send> Io for T {}

pub fn run(toks: &[&str]) -> String {
    if !(toks.len() == 7 || toks.len() == 8) { return "bad-input".into(); }
    let no_alpn = toks.get(7) == Some(&"na");
    crate::tls::install();
    let h2 = toks[0] == "1";
    let tls = toks[5] == "1";
    let join = |h: &str, p: &str| if p == "-" { h.to_string() } else { format!("{h}:{p}") };
    let mut b = http::Request::builder().version(if h2 { http::Version::HTTP_2 } else { http::Version::HTTP_11 });
    b = if toks[3] != "-" { b.uri(format!("{}://{}/path?q=1", if tls { "https" } else { "http" }, join(toks[3], toks[4]))) } else { b.uri("/path?q=1") };
    if toks[1] != "-" { b = b.header(http::header::HOST, join(toks[1], toks[2])); }
    let Ok(req) = b.body(Body::empty()) else { return "bad-request".into() };
    let sni = toks[6].to_string();
    let rt = tokio::runtime::Builder::new_current_thread().enable_all().start_paused(true).build().unwrap();
    rt.block_on(async move {
        let (client, incoming) = duplex::pair();
        let acceptor = Acceptor::from(incoming);
        let alpn = if h2 { "h2" } else { "h11" };
        let acceptor = if tls { acceptor.with_tls(Arc::new(crate::tls::server_config("good", alpn))) } else { acceptor };
        let handler = tower::service_fn(|req: http::Request<Body>| async move {
            let v = req.extensions().get::<TlsConnectionInfo>().map(|t| if t.validated_server_name { "1" } else { "0" }).unwrap_or("0");
            Ok::<_, std::convert::Infallible>(http::Response::builder().header("x-validated", v).body(Body::empty()).unwrap())
        });
        let svc = ValidateSNI.layer(handler);
        let server = tokio::spawn(std::future::IntoFuture::into_future(
            Server::builder().with_acceptor(acceptor).with_shared_service(svc).with_tls_connection_info().with_auto_http().with_tokio()));
        let Ok(io) = client.connect(64 * 1024).await else { return "err-connect".to_string() };
        let io: Box<dyn Io> = if tls {
            let provider = Arc::new(rustls::crypto::ring::default_provider());
            let mut cfg = rustls::ClientConfig::builder().dangerous().with_custom_certificate_verifier(Arc::new(AnyCert(provider))).with_no_client_auth();
            cfg.alpn_protocols = if h2 { vec![b"h2".to_vec()] } else if no_alpn { vec![] } else { vec![b"http/1.1".to_vec()] };
            // no name to send: connect "to an address" (rustls sends no SNI for IP addresses)
            let name = if sni == "-" { ServerName::try_from("127.0.0.1").unwrap() } else { match ServerName::try_from(sni.clone()) { Ok(n) => n, Err(_) => return "bad-request".to_string() } };
            match tokio_rustls::TlsConnector::from(Arc::new(cfg)).connect(name, io).await { Ok(s) => Box::new(s), Err(_) => return "err-handshake".to_string() }
        } else { Box::new(io) };
        let res = if h2 {
            let Ok((mut send, conn)) = hyper::client::conn::http2::Builder::new(hyperdriver::bridge::rt::TokioExecutor::new()).handshake::<_, Body>(TokioIo::new(io)).await else { return "err-h2".to_string() };
            tokio::spawn(conn);
            tokio::time::timeout(std::time::Duration::from_secs(10), send.send_request(req)).await
        } else {
            let Ok((mut send, conn)) = hyper::client::conn::http1::Builder::new().handshake::<_, Body>(TokioIo::new(io)).await else { return "err-h1".to_string() };
            tokio::spawn(conn);
            tokio::time::timeout(std::time::Duration::from_secs(10), send.send_request(req)).await
        };
        server.abort();
        match res {
            Err(_) => "err-hang".to_string(),
            Ok(Err(_)) => "rej".to_string(),
            Ok(Ok(resp)) if resp.status() == 200 => format!("fwd {}", resp.headers().get("x-validated").and_then(|v| v.to_str().ok()).unwrap_or("?")),
            Ok(Ok(resp)) => format!("status-{}", resp.status().as_u16()),
        }
    })
}
