//! Stream `sniff` (C08, and the Rewind part of C18): the private `ReadVersion` future (through the
//! verif hook) on a scripted `hyper::rt::Read`, then reads through the returned `Rewind`.
//!
//! line: `sniff <ev>* ; <cap>*`   ev = d<hex> | p | e | x
//! obs : `<h1|h2|err|stall> <n1,n2,..|-> <hex of every byte delivered|->`
//!   stall: the future returned `Pending` during a poll in which nothing had arranged for it to be woken (every scripted
//!   `Pending` wakes the task; a `Pending` after reads that all returned `Ready` would never be polled again by a real executor)
use crate::rng::Rng;
use hyper::rt::{Read, ReadBufCursor, Write};
use std::collections::VecDeque;
use std::future::Future;
use std::io;
use std::pin::Pin;
use std::task::{Context, Poll};

pub const PREFACE: &[u8] = b"PRI * HTTP/2.0\r\n\r\nSM\r\n\r\n";

#[derive(Clone, Debug)]
pub enum Ev {
    Data(Vec<u8>),
    Pending,
    Eof,
    Err,
}

pub struct ScriptIo {
    pub evs: VecDeque<Ev>,
    pub written: Vec<u8>,
}

impl ScriptIo {
    pub fn new(evs: Vec<Ev>) -> Self {
        // a stream has one end: cut after the first eof / err
        let mut out = VecDeque::new();
        for e in evs {
            let stop = matches!(e, Ev::Eof | Ev::Err);
            out.push_back(e);
            if stop {
                break;
            }
        }
        ScriptIo { evs: out, written: Vec::new() }
    }
}

impl Read for ScriptIo {
    fn poll_read(mut self: Pin<&mut Self>, cx: &mut Context<'_>, mut buf: ReadBufCursor<'_>) -> Poll<io::Result<()>> {
        match self.evs.pop_front() {
            None | Some(Ev::Eof) => Poll::Ready(Ok(())),
            Some(Ev::Pending) => {
                cx.waker().wake_by_ref();
                Poll::Pending
            }
            Some(Ev::Err) => Poll::Ready(Err(io::Error::new(io::ErrorKind::ConnectionReset, "scripted"))),
            Some(Ev::Data(bs)) => {
                let n = bs.len().min(buf.remaining());
                buf.put_slice(&bs[..n]);
                if n < bs.len() {
                    self.evs.push_front(Ev::Data(bs[n..].to_vec()));
                }
                Poll::Ready(Ok(()))
            }
        }
    }
}

impl Write for ScriptIo {
    fn poll_write(mut self: Pin<&mut Self>, _: &mut Context<'_>, buf: &[u8]) -> Poll<io::Result<usize>> {
        self.written.extend_from_slice(buf);
        Poll::Ready(Ok(buf.len()))
    }
    fn poll_flush(self: Pin<&mut Self>, _: &mut Context<'_>) -> Poll<io::Result<()>> {
        Poll::Ready(Ok(()))
    }
    fn poll_shutdown(self: Pin<&mut Self>, _: &mut Context<'_>) -> Poll<io::Result<()>> {
        Poll::Ready(Ok(()))
    }
}

pub fn hex(b: &[u8]) -> String {
    if b.is_empty() {
        return "-".into();
    }
    b.iter().map(|x| format!("{x:02x}")).collect()
}

pub fn unhex(s: &str) -> Vec<u8> {
    if s == "-" {
        return vec![];
    }
    (0..s.len() / 2).map(|i| u8::from_str_radix(&s[2 * i..2 * i + 2], 16).unwrap_or(0)).collect()
}

pub fn parse_evs(toks: &[&str]) -> Vec<Ev> {
    toks.iter()
        .filter_map(|t| match *t {
            "p" => Some(Ev::Pending),
            "e" => Some(Ev::Eof),
            "x" => Some(Ev::Err),
            t if t.starts_with('d') => Some(Ev::Data(unhex(&t[1..]))),
            _ => None,
        })
        .collect()
}

pub fn show_evs(evs: &[Ev]) -> String {
    evs.iter()
        .map(|e| match e {
            Ev::Pending => "p".to_string(),
            Ev::Eof => "e".to_string(),
            Ev::Err => "x".to_string(),
            Ev::Data(b) => format!("d{}", hex(b)),
        })
        .collect::<Vec<_>>()
        .join(" ")
}

struct CountWake(std::sync::atomic::AtomicUsize);
impl std::task::Wake for CountWake { fn wake(self: std::sync::Arc<Self>) { self.0.fetch_add(1, std::sync::atomic::Ordering::SeqCst); } }

/// Poll to completion the way an executor would: the future is polled again only if it was woken. `Err(())` = it returned
/// `Pending` without anybody having been asked to wake it (it would sleep for ever); `Ok(None)` = no end in 10 000 polls.
pub fn block_on_woken<F: Future>(fut: F) -> Result<Option<F::Output>, ()> {
    let mut fut = std::pin::pin!(fut);
    let count = std::sync::Arc::new(CountWake(std::sync::atomic::AtomicUsize::new(0)));
    let waker = std::task::Waker::from(count.clone());
    let mut cx = Context::from_waker(&waker);
    for _ in 0..10_000 {
        let before = count.0.load(std::sync::atomic::Ordering::SeqCst);
        if let Poll::Ready(v) = fut.as_mut().poll(&mut cx) {
            return Ok(Some(v));
        }
        if count.0.load(std::sync::atomic::Ordering::SeqCst) == before { return Err(()); }
    }
    Ok(None)
}

/// Poll to completion with a no-op waker (scripted Pending results wake immediately).
pub fn block_on<F: Future>(fut: F) -> Option<F::Output> {
    let mut fut = std::pin::pin!(fut);
    let waker = futures_util::task::noop_waker();
    let mut cx = Context::from_waker(&waker);
    for _ in 0..10_000 {
        if let Poll::Ready(v) = fut.as_mut().poll(&mut cx) {
            return Some(v);
        }
    }
    None
}

pub fn gen_stream(r: &mut Rng) -> Vec<u8> {
    let h1s: &[&[u8]] = &[
        b"GET / HTTP/1.1\r\nHost: example.com\r\n\r\n",
        b"POST /upload HTTP/1.1\r\nHost: h\r\nContent-Length: 3\r\n\r\nabc",
        b"PRI * HTTP/1.1\r\nHost: example.com\r\n\r\n",
        b"PRI * HTTP/2.0\r\n\r\nSM\r\n\rX more bytes follow here",
        b"PUT /x HTTP/1.0\r\n\r\n",
        b"P",
        b"G",
        b"PRI * HTTP/2.0\r\n\r\nSM\r\n\r",
        b"OPTIONS * HTTP/1.1\r\nHost: a\r\n\r\n",
    ];
    match r.below(10) {
        0..=2 => r.pick(h1s).to_vec(),
        3..=5 => {
            // preface followed by frames
            let mut v = PREFACE.to_vec();
            let extra = r.below(40);
            for _ in 0..extra {
                v.push(r.below(256) as u8);
            }
            v
        }
        6 => PREFACE[..r.below(24) as usize].to_vec(), // strict prefix then end
        7 => {
            // prefix then a diverging byte and more
            let k = r.below(24) as usize;
            let mut v = PREFACE[..k].to_vec();
            v.push(PREFACE[k] ^ (1 + r.below(255) as u8));
            for _ in 0..r.below(30) {
                v.push(r.below(256) as u8);
            }
            v
        }
        8 => {
            // exactly the preface, or preface with one corrupted byte
            let mut v = PREFACE.to_vec();
            match r.below(3) {
                0 => { let k = r.below(24) as usize; v[k] ^= 1 + r.below(255) as u8; }
                // the preface in another letter case (all of it, or a few of its letters) is not the preface
                1 => { let all = r.chance(1, 2); for b in v.iter_mut() { if b.is_ascii_alphabetic() && (all || r.chance(1, 3)) { *b ^= 0x20; } } v.extend_from_slice(&[0, 0, 0, 4, 0, 0, 0, 0, 0]); }
                _ => {}
            }
            v
        }
        _ => (0..r.below(50)).map(|_| r.below(256) as u8).collect(),
    }
}

pub fn chunk(r: &mut Rng, stream: &[u8]) -> Vec<Ev> {
    let mut evs = Vec::new();
    let style = r.below(5);
    let mut i = 0;
    while i < stream.len() {
        let left = stream.len() - i;
        let n = match style {
            0 => left,                         // all at once
            1 => 1,                            // one byte at a time
            2 => r.range(1, 4) as usize,       // tiny
            3 => r.range(1, 30) as usize,      // arbitrary
            _ => if i < 32 { r.range(1, 12) as usize } else { left },
        }
        .min(left);
        if r.chance(1, 6) {
            evs.push(Ev::Pending);
        }
        evs.push(Ev::Data(stream[i..i + n].to_vec()));
        i += n;
    }
    match r.below(8) {
        0 => evs.push(Ev::Err),
        1 => {}
        2 => {
            evs.push(Ev::Pending);
            evs.push(Ev::Eof)
        }
        _ => evs.push(Ev::Eof),
    }
    evs
}

pub fn gen(r: &mut Rng, _i: u64) -> String {
    let stream = gen_stream(r);
    let evs = chunk(r, &stream);
    let ncaps = r.below(7);
    let caps: Vec<String> = (0..ncaps).map(|_| r.pick(&[0u64, 1, 2, 3, 5, 8, 24, 64]).to_string()).collect();
    format!("{} ; {}", show_evs(&evs), caps.join(" "))
}

/// thorough tier: every composition of the first 32 bytes into <= 6 chunks is too many to list for
/// all streams; enumerate all compositions into <= 4 chunks plus all 2-cuts, for three key streams.
pub fn exhaustive() -> Vec<String> {
    let mut out = Vec::new();
    let mut streams: Vec<Vec<u8>> = vec![PREFACE.to_vec()];
    let mut s = PREFACE.to_vec();
    s.extend_from_slice(&[0, 0, 0, 4, 0, 0, 0, 0, 0]);
    streams.push(s);
    streams.push(b"PRI * HTTP/1.1\r\nHost: example.com\r\n\r\n".to_vec());
    streams.push(b"GET / HTTP/1.1\r\nHost: example.com\r\n\r\n".to_vec());
    for st in &streams {
        let n = st.len().min(32);
        // all cut sets of size <= 3 within the first n bytes
        let mut cuts: Vec<Vec<usize>> = vec![vec![]];
        for a in 1..n {
            cuts.push(vec![a]);
            for b in a + 1..n {
                cuts.push(vec![a, b]);
                for c in b + 1..n {
                    cuts.push(vec![a, b, c]);
                }
            }
        }
        for cs in cuts {
            let mut evs = Vec::new();
            let mut prev = 0;
            for c in cs.iter().chain(std::iter::once(&st.len())) {
                if *c > prev {
                    evs.push(Ev::Data(st[prev..*c].to_vec()));
                }
                prev = *c;
            }
            evs.push(Ev::Eof);
            out.push(format!("sniff {} ; 5 64", show_evs(&evs)));
        }
        // one byte at a time with a pending before every byte
        let mut evs = Vec::new();
        for b in st {
            evs.push(Ev::Pending);
            evs.push(Ev::Data(vec![*b]));
        }
        evs.push(Ev::Eof);
        out.push(format!("sniff {} ; 1 1 1", show_evs(&evs)));
    }
    out
}

pub fn run(toks: &[&str]) -> String {
    let split = toks.iter().position(|t| *t == ";").unwrap_or(toks.len());
    let evs = parse_evs(&toks[..split]);
    let caps: Vec<usize> = toks[(split + 1).min(toks.len())..].iter().filter_map(|t| t.parse().ok()).collect();
    let io = ScriptIo::new(evs);
    let res = match block_on_woken(hyperdriver::verif_hooks::read_version(io)) {
        Ok(Some(r)) => r,
        Ok(None) => return "hang - -".into(),
        Err(()) => return "stall - -".into(),
    };
    let (h2, mut rewind) = match res {
        Ok(x) => x,
        Err(_) => return "err - -".into(),
    };
    let count = std::sync::Arc::new(CountWake(std::sync::atomic::AtomicUsize::new(0)));
    let waker = std::task::Waker::from(count.clone());
    let mut cx = Context::from_waker(&waker);
    let mut all = Vec::new();
    let mut counts = Vec::new();
    let mut failed = false;
    let stalled = std::cell::Cell::new(false);
    let mut read_once = |rewind: &mut hyperdriver::verif_hooks::Rewind<ScriptIo>, cap: usize| -> Option<Vec<u8>> {
        let mut storage = vec![0u8; cap];
        let mut rb = hyper::rt::ReadBuf::new(&mut storage);
        for _ in 0..10_000 {
            let before = count.0.load(std::sync::atomic::Ordering::SeqCst);
            match Pin::new(&mut *rewind).poll_read(&mut cx, rb.unfilled()) {
                // (as an executor would: polled again only because the scripted `Pending` below woke the task)
                Poll::Pending => { if count.0.load(std::sync::atomic::Ordering::SeqCst) == before { stalled.set(true); return None; } continue }
                Poll::Ready(Ok(())) => return Some(rb.filled().to_vec()),
                Poll::Ready(Err(_)) => return None,
            }
        }
        None
    };
    for cap in caps {
        match read_once(&mut rewind, cap) {
            Some(bs) => {
                counts.push(bs.len().to_string());
                all.extend_from_slice(&bs);
            }
            None => {
                failed = true;
                break;
            }
        }
    }
    if !failed {
        loop {
            match read_once(&mut rewind, 64) {
                Some(bs) if !bs.is_empty() => all.extend_from_slice(&bs),
                _ => break,
            }
        }
    }
    if stalled.get() { return "stall - -".into(); }
    format!(
        "{} {} {}",
        if h2 { "h2" } else { "h1" },
        if counts.is_empty() { "-".to_string() } else { counts.join(",") },
        hex(&all)
    )
}
