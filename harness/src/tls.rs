//! Stream `tls` (C12): the real `TlsTransport` (scheme decides TLS vs plain) around a scripted inner
//! transport whose IO is one end of an in-memory duplex. The other end is a peer that records every
//! raw byte it receives and behaves as one of
//!   good / othername / untrusted   a real rustls server (certificates under harness/certs)
//!   plain                          answers in cleartext HTTP
//!   close0 / close1                closes before / after reading the first flight
//!   trunc                          answers with a truncated handshake record and closes
//!   alert                          answers with a fatal handshake_failure alert
//!   silent                         reads and never answers (the client is given 5 virtual seconds)
//! After a successful connect the client writes a fixed marker through the returned stream; the
//! marker must never be visible in the raw bytes of an https/wss request.
//!
//! (cfg 2: `with_tls` is called twice - first with a configuration that trusts the CA of the `untrusted` peer, then with the intended
//!  one: the last configuration is the one in force, so 2 must behave exactly like 1)
//! line: `tls <cfg 0|1|2> <alpn-client -|h2|h11|both> <scheme> <host> <port|-> <peer> <alpn-server -|h2|h11|both> [<uri built by s=parsing a string | p=Uri::builder() from parts> <Host header|->]`
//! obs : `<result> <wire none|tls|ascii|other> <leak 0|1> <sni|-> <alpn -|h2|h11> <app 0|1> <namevalid 0|1>`
//!   result: ok-tls | ok-plain | err-conn | err-hs | err-nodomain | err-name | err-other | timeout | panic | bad-uri
use crate::rng::Rng;
use futures_util::FutureExt;
use hyperdriver::client::conn::transport::{TlsConnectionError, TlsTransport, Transport};
use hyperdriver::info::{ConnectionInfo, HasConnectionInfo, HasTlsConnectionInfo};
use hyperdriver::stream::duplex::DuplexAddr;
use rustls::pki_types::pem::PemObject;
use rustls::pki_types::{CertificateDer, PrivateKeyDer, ServerName};
use std::pin::Pin;
use std::sync::{Arc, Mutex, Once};
use std::task::{Context, Poll};
use tokio::io::{AsyncRead, AsyncReadExt, AsyncWrite, AsyncWriteExt, ReadBuf};
use tower::ServiceExt;

const MARKER: &[u8] = b"PING-hdverif-plaintext-marker\n";

const CA: &[u8] = include_bytes!("../certs/ca.pem");
const BADCA: &[u8] = include_bytes!("../certs/badca.pem");
const GOOD: (&[u8], &[u8]) = (include_bytes!("../certs/good.pem"), include_bytes!("../certs/good.key"));
const OTHER: (&[u8], &[u8]) = (include_bytes!("../certs/othername.pem"), include_bytes!("../certs/othername.key"));
const UNTRUSTED: (&[u8], &[u8]) = (include_bytes!("../certs/untrusted.pem"), include_bytes!("../certs/untrusted.key"));

pub const SCHEMES: &[&str] = &["http", "https", "ws", "wss", "https", "wss", "https", "HTTPS", "Wss", "foo", "httpss"];
pub const HOSTS: &[&str] = &[
    "example.com", "www.example.com", "a.b.example.com", "EXAMPLE.COM", "Www.Example.Com", "localhost", "other.test", "unrelated.invalid",
    "127.0.0.1", "10.0.0.1", "[::1]", "[0:0:0:0:0:0:0:1]", "[2001:db8::7]", "my_host.example.com", "exa$mple.com", "a..b", "-dash.example.com",
    "example.com.", "1.2.3", "x", "[fe80::1%25eth0]", "[1:2]", "[::ffff:127.0.0.1]",
    // user information (with a colon in it) in front of the host: the server name is the host's, not what stands before the first colon
    "user:pw@example.com", "example.com:secret@localhost", "other.test:x@www.example.com",
];
const PEERS: &[&str] = &["good", "good", "good", "good", "othername", "untrusted", "plain", "close0", "close1", "trunc", "alert", "silent"];
const ALPN: &[&str] = &["-", "-", "h2", "h11", "both"];

pub fn gen(r: &mut Rng, _i: u64) -> String {
    let cfg = if r.chance(6, 7) { if r.chance(1, 5) { 2 } else { 1 } } else { 0 };
    let port = match r.below(5) { 0 | 1 => "-".to_string(), 2 => "443".into(), 3 => "80".into(), _ => r.range(1, 65535).to_string() };
    let build = if r.chance(1, 3) { "p" } else { "s" };
    let hh = if r.chance(1, 4) { *r.pick(&["other.test", "internal.other.test", "example.com", "localhost:8443", "evil.invalid"]) } else { "-" };
    format!("{cfg} {} {} {} {port} {} {} {build} {hh}", r.pick(ALPN), r.pick(SCHEMES), r.pick(HOSTS), r.pick(PEERS), r.pick(ALPN))
}

/// every combination of scheme x host x peer (TLS configured, no ALPN) plus the ALPN square on the happy path
pub fn exhaustive() -> Vec<String> {
    let mut out = vec![];
    let mut peers: Vec<&str> = PEERS.to_vec();
    peers.dedup();
    let mut schemes: Vec<&str> = SCHEMES.to_vec();
    schemes.sort();
    schemes.dedup();
    for cfg in [1, 0] {
        for s in &schemes {
            for h in HOSTS {
                for p in &peers {
                    out.push(format!("tls {cfg} - {s} {h} - {p} -"));
                    if *p == "good" || *p == "plain" {
                        out.push(format!("tls {cfg} - {s} {h} - {p} - p -"));
                        out.push(format!("tls {cfg} - {s} {h} - {p} - s other.test"));
                        out.push(format!("tls {cfg} - {s} {h} - {p} - p example.com"));
                    }
                }
            }
        }
    }
    for s in &schemes { for h in ["example.com", "localhost", "127.0.0.1"] { for p in ["good", "untrusted", "othername", "plain"] {
        out.push(format!("tls 2 - {s} {h} - {p} -"));
    } } }
    for ac in ["-", "h2", "h11", "both"] {
        for asv in ["-", "h2", "h11", "both"] {
            for h in ["example.com", "127.0.0.1", "[::1]", "other.test"] {
                for p in ["good", "othername"] {
                    out.push(format!("tls 1 {ac} https {h} 8443 {p} {asv}"));
                }
            }
        }
    }
    out
}

fn alpn_list(t: &str) -> Vec<Vec<u8>> {
    match t {
        "h2" => vec![b"h2".to_vec()],
        "h11" => vec![b"http/1.1".to_vec()],
        "both" => vec![b"h2".to_vec(), b"http/1.1".to_vec()],
        _ => vec![],
    }
}

pub fn install() {
    static ONCE: Once = Once::new();
    ONCE.call_once(|| {
        let _ = rustls::crypto::ring::default_provider().install_default();
    });
}

pub fn client_config(alpn: &str) -> rustls::ClientConfig { client_config_trusting(CA, alpn) }

pub fn client_config_trusting(ca: &[u8], alpn: &str) -> rustls::ClientConfig {
    let mut roots = rustls::RootCertStore::empty();
    for c in CertificateDer::pem_slice_iter(ca) {
        roots.add(c.unwrap()).unwrap();
    }
    let mut cfg = rustls::ClientConfig::builder().with_root_certificates(roots).with_no_client_auth();
    cfg.alpn_protocols = alpn_list(alpn);
    cfg
}

pub fn server_config(which: &str, alpn: &str) -> rustls::ServerConfig {
    let (c, k) = match which { "othername" => OTHER, "untrusted" => UNTRUSTED, _ => GOOD };
    let chain: Vec<CertificateDer<'static>> = CertificateDer::pem_slice_iter(c).map(|c| c.unwrap()).collect();
    let key = PrivateKeyDer::from_pem_slice(k).unwrap();
    let mut cfg = rustls::ServerConfig::builder().with_no_client_auth().with_single_cert(chain, key).unwrap();
    cfg.alpn_protocols = alpn_list(alpn);
    cfg.send_tls13_tickets = 0; // nothing is written after the handshake: the peer's verdict does not race the client's close
    cfg
}

// ---- IO -----------------------------------------------------------------------------------
#[pin_project::pin_project]
pub struct TIo(#[pin] tokio::io::DuplexStream);
impl TIo { pub fn new(io: tokio::io::DuplexStream) -> Self { TIo(io) } }
impl HasConnectionInfo for TIo {
    type Addr = DuplexAddr;
    fn info(&self) -> ConnectionInfo<DuplexAddr> { ConnectionInfo { local_addr: DuplexAddr::new(), remote_addr: DuplexAddr::new() } }
}
impl AsyncRead for TIo {
    fn poll_read(self: Pin<&mut Self>, cx: &mut Context<'_>, buf: &mut ReadBuf<'_>) -> Poll<std::io::Result<()>> { self.project().0.poll_read(cx, buf) }
}
impl AsyncWrite for TIo {
    fn poll_write(self: Pin<&mut Self>, cx: &mut Context<'_>, buf: &[u8]) -> Poll<std::io::Result<usize>> { self.project().0.poll_write(cx, buf) }
    fn poll_flush(self: Pin<&mut Self>, cx: &mut Context<'_>) -> Poll<std::io::Result<()>> { self.project().0.poll_flush(cx) }
    fn poll_shutdown(self: Pin<&mut Self>, cx: &mut Context<'_>) -> Poll<std::io::Result<()>> { self.project().0.poll_shutdown(cx) }
}

/// peer side: records every raw byte read
#[pin_project::pin_project]
pub struct Tap { #[pin] io: tokio::io::DuplexStream, raw: Arc<Mutex<Vec<u8>>> }
impl Tap { pub fn new(io: tokio::io::DuplexStream, raw: Arc<Mutex<Vec<u8>>>) -> Self { Tap { io, raw } } }
impl AsyncRead for Tap {
    fn poll_read(self: Pin<&mut Self>, cx: &mut Context<'_>, buf: &mut ReadBuf<'_>) -> Poll<std::io::Result<()>> {
        let this = self.project();
        let before = buf.filled().len();
        let r = this.io.poll_read(cx, buf);
        if let Poll::Ready(Ok(())) = &r {
            this.raw.lock().unwrap().extend_from_slice(&buf.filled()[before..]);
        }
        r
    }
}
impl AsyncWrite for Tap {
    fn poll_write(self: Pin<&mut Self>, cx: &mut Context<'_>, buf: &[u8]) -> Poll<std::io::Result<usize>> { self.project().io.poll_write(cx, buf) }
    fn poll_flush(self: Pin<&mut Self>, cx: &mut Context<'_>) -> Poll<std::io::Result<()>> { self.project().io.poll_flush(cx) }
    fn poll_shutdown(self: Pin<&mut Self>, cx: &mut Context<'_>) -> Poll<std::io::Result<()>> { self.project().io.poll_shutdown(cx) }
}

#[derive(Debug)]
struct TErr;
impl std::fmt::Display for TErr { fn fmt(&self, f: &mut std::fmt::Formatter<'_>) -> std::fmt::Result { write!(f, "inner transport error") } }
impl std::error::Error for TErr {}

/// inner transport: hands out the client end of the duplex once
struct OneIo(Option<tokio::io::DuplexStream>);
impl Transport for OneIo {
    type IO = TIo;
    type Error = TErr;
    type Future = std::future::Ready<Result<TIo, TErr>>;
    fn connect(&mut self, _: http::request::Parts) -> Self::Future { std::future::ready(self.0.take().map(TIo).ok_or(TErr)) }
    fn poll_ready(&mut self, _: &mut Context<'_>) -> Poll<Result<(), TErr>> { Poll::Ready(Ok(())) }
}

// ---- peer ---------------------------------------------------------------------------------
async fn read_rest<R: AsyncRead + Unpin>(io: &mut R) -> Vec<u8> {
    let mut out = vec![];
    let mut buf = [0u8; 4096];
    loop {
        match io.read(&mut buf).await {
            Ok(0) | Err(_) => return out,
            Ok(n) => out.extend_from_slice(&buf[..n]),
        }
    }
}

/// returns whether the marker arrived through a completed TLS session
async fn peer(kind: String, alpn: String, mut tap: Tap) -> bool {
    match kind.as_str() {
        "good" | "othername" | "untrusted" => {
            let acc = tokio_rustls::TlsAcceptor::from(Arc::new(server_config(&kind, &alpn)));
            match acc.accept(tap).await {
                Ok(mut s) => { let r = read_rest(&mut s).await; if std::env::var("HDV_DEBUG").is_ok() { eprintln!("peer got {:?}", String::from_utf8_lossy(&r)); } r == MARKER }
                Err(e) => { if std::env::var("HDV_DEBUG").is_ok() { eprintln!("accept failed {e:?}"); } false }
            }
        }
        "plain" => {
            let _ = tap.write_all(b"HTTP/1.1 400 Bad Request\r\ncontent-length: 0\r\n\r\n").await;
            read_rest(&mut tap).await;
            false
        }
        "close0" => false,
        "close1" => {
            let mut b = [0u8; 4096];
            let _ = tap.read(&mut b).await;
            false
        }
        "trunc" => {
            let mut b = [0u8; 4096];
            let _ = tap.read(&mut b).await;
            let _ = tap.write_all(&[0x16, 0x03, 0x03, 0x00, 0x40, 0x02, 0x00, 0x00, 0x3c, 0x03, 0x03, 1, 2, 3, 4]).await;
            let _ = tap.shutdown().await;
            false
        }
        "alert" => {
            let mut b = [0u8; 4096];
            let _ = tap.read(&mut b).await;
            let _ = tap.write_all(&[0x15, 0x03, 0x03, 0x00, 0x02, 0x02, 0x28]).await;
            read_rest(&mut tap).await;
            false
        }
        _ => {
            read_rest(&mut tap).await;
            false
        }
    }
}

/// server_name extension of the first ClientHello in `raw`, parsed independently of rustls
fn sni_of(raw: &[u8]) -> Option<String> {
    if raw.len() < 5 || raw[0] != 0x16 { return None; }
    let rl = u16::from_be_bytes([raw[3], raw[4]]) as usize;
    let rec = raw.get(5..5 + rl)?;
    if rec.first()? != &1 { return None; }
    let mut p = 4 + 2 + 32;
    p += 1 + *rec.get(p)? as usize; // session id
    p += 2 + u16::from_be_bytes([*rec.get(p)?, *rec.get(p + 1)?]) as usize; // cipher suites
    p += 1 + *rec.get(p)? as usize; // compression
    let el = u16::from_be_bytes([*rec.get(p)?, *rec.get(p + 1)?]) as usize;
    p += 2;
    let end = p + el;
    while p + 4 <= end {
        let ty = u16::from_be_bytes([*rec.get(p)?, *rec.get(p + 1)?]);
        let l = u16::from_be_bytes([*rec.get(p + 2)?, *rec.get(p + 3)?]) as usize;
        if ty == 0 {
            let d = rec.get(p + 4..p + 4 + l)?;
            let nl = u16::from_be_bytes([*d.get(3)?, *d.get(4)?]) as usize;
            return String::from_utf8(d.get(5..5 + nl)?.to_vec()).ok();
        }
        p += 4 + l;
    }
    None
}

fn contains(h: &[u8], n: &[u8]) -> bool { h.windows(n.len()).any(|w| w == n) }

pub fn run(toks: &[&str]) -> String {
    if toks.len() != 7 && toks.len() != 9 { return "bad-line".into(); }
    let (from_parts, host_hdr) = if toks.len() == 9 { (toks[7] == "p", toks[8]) } else { (false, "-") };
    install();
    let (cfg, alpnc, scheme, host, port, kind, alpns) = (toks[0] == "1" || toks[0] == "2", toks[1], toks[2], toks[3], toks[4], toks[5], toks[6]);
    let reconfigured = toks[0] == "2";
    let uri = if port == "-" { format!("{scheme}://{host}/p") } else { format!("{scheme}://{host}:{port}/p") };
    // (the host as `Uri::host` sees it: user information is not part of it)
    let uri_host = host.rsplit('@').next().unwrap_or(host);
    let stripped = uri_host.strip_prefix('[').and_then(|h| h.strip_suffix(']')).unwrap_or(uri_host);
    let nv = ServerName::try_from(stripped).is_ok() as u8;
    let built: Option<http::Uri> = if from_parts {
        let auth = if port == "-" { host.to_string() } else { format!("{host}:{port}") };
        http::Uri::builder().scheme(scheme).authority(auth).path_and_query("/p").build().ok()
    } else { uri.parse().ok() };
    let Some(built) = built else { return format!("bad-uri none 0 - - 0 {nv}") };
    let mut rb = http::Request::builder().uri(built);
    if host_hdr != "-" { rb = rb.header(http::header::HOST, host_hdr); }
    let Ok(req) = rb.body(()) else { return format!("bad-uri none 0 - - 0 {nv}") };
    let (parts, _) = req.into_parts();

    let rt = tokio::runtime::Builder::new_current_thread().enable_all().start_paused(true).build().unwrap();
    rt.block_on(async move {
        let (c, s) = tokio::io::duplex(std::env::var("HDV_BUF").ok().and_then(|v| v.parse().ok()).unwrap_or(1 << 16));
        let raw = Arc::new(Mutex::new(Vec::new()));
        let peer_task = tokio::spawn(peer(kind.to_string(), alpns.to_string(), Tap { io: s, raw: raw.clone() }));
        let mut transport = TlsTransport::new(OneIo(Some(c)));
        if reconfigured { transport = transport.with_tls(Arc::new(client_config_trusting(BADCA, alpnc))); }
        if cfg { transport = transport.with_tls(Arc::new(client_config(alpnc))); }
        let client = async move {
            let r = tokio::time::timeout(std::time::Duration::from_secs(5), transport.oneshot(parts)).await;
            match r {
                Err(_) => ("timeout".to_string(), "-".to_string()),
                Ok(Err(e)) => (
                    match e {
                        TlsConnectionError::Connection(_) => "err-conn",
                        TlsConnectionError::Handshake(_) => "err-hs",
                        TlsConnectionError::NoDomain => "err-nodomain",
                        TlsConnectionError::TlsDisabled => "err-other",
                        #[allow(unreachable_patterns)]
                        other => if format!("{other:?}").contains("InvalidDomain") { "err-name" } else { "err-other" },
                    }.to_string(),
                    "-".to_string(),
                ),
                Ok(Ok(mut stream)) => {
                    let (res, alpn) = match stream.tls_info() {
                        Some(i) => ("ok-tls", match &i.alpn {
                            Some(p) if format!("{p:?}").contains("HTTP/2") || format!("{p:?}").contains("HTTP_2") => "h2".to_string(),
                            Some(_) => "h11".to_string(),
                            None => "-".to_string(),
                        }),
                        None => ("ok-plain", "-".to_string()),
                    };
                    let _ = stream.write_all(MARKER).await;
                    let _ = stream.flush().await;
                    let _ = stream.shutdown().await;
                    let _ = tokio::time::timeout(std::time::Duration::from_secs(5), read_rest(&mut stream)).await;
                    (res.to_string(), alpn)
                }
            }
        };
        let (res, alpn) = match std::panic::AssertUnwindSafe(client).catch_unwind().await {
            Ok(x) => x,
            Err(_) => ("panic".to_string(), "-".to_string()),
        };
        let app = tokio::time::timeout(std::time::Duration::from_secs(30), peer_task).await.ok().and_then(|r| r.ok()).unwrap_or(false);
        let raw = raw.lock().unwrap().clone();
        let wire = match raw.first() {
            None => "none",
            Some(0x16) if raw.get(1) == Some(&0x03) => "tls",
            Some(b) if b.is_ascii_graphic() => "ascii",
            Some(_) => "other",
        };
        let sni = sni_of(&raw).unwrap_or("-".into());
        format!("{res} {wire} {} {sni} {alpn} {} {nv}", contains(&raw, MARKER) as u8, app as u8)
    })
}
impl hyperdriver::client::pool::PoolableStream for TIo { fn can_share(&self) -> bool { false } }
