//! Correspondence harness for the Lean models of hyperdriver.
//!
//!   hdverif gen <stream> <seed> <n>     print n generated input lines for <stream>
//!   hdverif run                          read input lines on stdin, drive the real hyperdriver
//!                                        code, print `<input> | <observation>` per line
//!
//! A line is `<stream> <tokens…>`. Everything after ` | ` on an input line is ignored, so a
//! full line from an earlier run can be fed back in unchanged.

mod rng;
mod dns;
mod sni;
mod sniff;
mod eyeballs;
mod timeout;
mod wire;
mod streams;
mod pool;
mod connleaf;
mod poolmt;
mod cfgp;
mod toc;
mod tlsch;
mod snie;
mod autocmp;
mod tlsd;
mod server;
mod tls;
mod tcpc;
mod tlsp;
mod srvk;
mod np;
mod e2e;

use std::io::{BufRead, Write};

fn gen(stream: &str, seed: u64, n: u64) -> Vec<String> {
    match stream {
        "sniff-exhaustive" => return sniff::exhaustive(),
        "eb-exhaustive" => return eyeballs::exhaustive(),
        "tls-exhaustive" => return tls::exhaustive(),
        "srvk-exhaustive" => return srvk::exhaustive(),
        "np-exhaustive" => return np::exhaustive(),
        "poolt-exhaustive" => return pool::exhaustive_idle(),
        "tlsp-exhaustive" => return tlsp::exhaustive(),
        _ => {}
    }
    let mut rng = rng::Rng::new(seed ^ fxhash(stream));
    (0..n)
        .map(|i| {
            let mut r = rng.fork();
            let body = match stream {
                "dns" => dns::gen(&mut r, i),
                "sni" => sni::gen(&mut r, i),
                "sniff" => sniff::gen(&mut r, i),
                "eb" => eyeballs::gen(&mut r, i),
                "to" => timeout::gen(&mut r, i),
                "wire" => wire::gen(&mut r, i),
                "st" => streams::gen(&mut r, i),
                "pool" => pool::gen(&mut r, i),
                "conn" => connleaf::gen(&mut r, i),
                "poolmt" => poolmt::gen(&mut r, i),
                "cfgp" => cfgp::gen(&mut r, i),
                "toc" => toc::gen(&mut r, i),
                "tlsch" => tlsch::gen(&mut r, i),
                "snie" => snie::gen(&mut r, i),
                "autocmp" => autocmp::gen(&mut r, i),
                "tlsd" => tlsd::gen(&mut r, i),
                "srv" => server::gen(&mut r, i),
                "tls" => tls::gen(&mut r, i),
                "tcpc" => tcpc::gen(&mut r, i),
                "tlsp" => tlsp::gen(&mut r, i),
                "srvk" => srvk::gen(&mut r, i),
                "np" => np::gen(&mut r, i),
                "e2e" => e2e::gen(&mut r, i),
                "e2es" => format!("Ye2e {}", e2e::gen_signal(&mut r, i)),
                "poolt" => { let b = pool::gen_timed(&mut r, i); if b.starts_with('X') { b } else { format!("X{b}") } }
                _ => panic!("unknown stream {stream}"),
            };
            if let Some(b) = body.strip_prefix('X') { format!("pool {b}") } else if let Some(b) = body.strip_prefix('Y') { b.to_string() } else { format!("{stream} {body}") }
        })
        .collect()
}

fn fxhash(s: &str) -> u64 {
    s.bytes().fold(0xcbf29ce484222325u64, |h, b| (h ^ b as u64).wrapping_mul(0x100000001b3))
}

fn run_line(line: &str) -> String {
    let input = line.split(" | ").next().unwrap_or("").trim();
    let input = input.strip_suffix(" |").unwrap_or(input);
    let (stream, rest) = input.split_once(' ').unwrap_or((input, ""));
    let toks: Vec<&str> = rest.split_whitespace().collect();
    let obs = match stream {
        "dns" => dns::run(&toks),
        "sni" => sni::run(&toks),
        "sniff" => sniff::run(&toks),
        "eb" => eyeballs::run(&toks),
        "to" => timeout::run(&toks),
        "wire" => wire::run(&toks),
        "st" => streams::run(&toks),
        "pool" => pool::run(&toks),
        "conn" => connleaf::run(&toks),
        "poolmt" => poolmt::run(&toks),
        "cfgp" => cfgp::run(&toks),
        "toc" => toc::run(&toks),
        "tlsch" => tlsch::run(&toks),
        "snie" => snie::run(&toks),
        "autocmp" => autocmp::run(&toks),
        "tlsd" => tlsd::run(&toks),
        "srv" => server::run(&toks),
        "tls" => tls::run(&toks),
        "tcpc" => tcpc::run(&toks),
        "tlsp" => tlsp::run(&toks),
        "srvk" => srvk::run(&toks),
        "np" => np::run(&toks),
        "e2e" => e2e::run(&toks),
        _ => "unknown-stream".to_string(),
    };
    format!("{input} | {obs}")
}

fn main() {
    // panics inside the code under test are observations, not noise
    std::panic::set_hook(Box::new(|info| { np::PANICS.fetch_add(1, std::sync::atomic::Ordering::SeqCst); if std::env::var("HDV_DEBUG").is_ok() { eprintln!("panic: {info}"); } }));
    let args: Vec<String> = std::env::args().collect();
    let out = std::io::stdout();
    let mut out = std::io::BufWriter::new(out.lock());
    match args.get(1).map(|s| s.as_str()) {
        Some("gen") => {
            let stream = &args[2];
            let seed: u64 = args[3].parse().expect("seed");
            let n: u64 = args[4].parse().expect("n");
            for l in gen(stream, seed, n) {
                writeln!(out, "{l}").unwrap();
            }
        }
        Some("run") => {
            // Each line runs on a worker thread under a wall-clock limit: an implementation that never comes back (a task that
            // spins, a future that is never woken under the paused clock's auto-advance, ...) is an observation - `hang` - and
            // the remaining lines still run, on a fresh worker; the stuck thread is abandoned. After three hangs the rest is
            // answered `skipped-after-hang`.
            let limit = std::time::Duration::from_secs(std::env::var("HDV_LINE_LIMIT").ok().and_then(|v| v.parse().ok()).unwrap_or(60));
            fn worker() -> (std::sync::mpsc::Sender<String>, std::sync::mpsc::Receiver<String>) {
                let (tx, rx_w) = std::sync::mpsc::channel::<String>();
                let (tx_w, rx) = std::sync::mpsc::channel::<String>();
                std::thread::Builder::new().stack_size(64 << 20).spawn(move || {
                    while let Ok(line) = rx_w.recv() { if tx_w.send(run_line(&line)).is_err() { break; } }
                }).expect("spawn worker");
                (tx, rx)
            }
            let (mut tx, mut rx) = worker();
            let mut hangs = 0;
            let stdin = std::io::stdin();
            for line in stdin.lock().lines() {
                let line = line.unwrap();
                if line.trim().is_empty() || line.starts_with('#') {
                    continue;
                }
                let input = line.split(" | ").next().unwrap_or("").trim().to_string();
                if hangs >= 3 { writeln!(out, "{input} | skipped-after-hang").unwrap(); continue; }
                tx.send(line.clone()).unwrap();
                match rx.recv_timeout(limit) {
                    Ok(res) => writeln!(out, "{res}").unwrap(),
                    Err(_) => {
                        hangs += 1;
                        writeln!(out, "{input} | hang").unwrap();
                        let w = worker(); tx = w.0; rx = w.1;
                    }
                }
            }
            out.flush().unwrap();
            // abandoned workers may still be spinning
            std::process::exit(0);
        }
        _ => {
            eprintln!("usage: hdverif gen <stream> <seed> <n> | hdverif run");
            std::process::exit(2);
        }
    }
}
