//! Stream `st` (C18): every byte-stream adapter hyperdriver places between application and socket.
//!
//! `st script <layer>* ; <rev>* ; <wev>* ; <op>*`
//!     layers top first: W = dispatch wrapper (client `Stream` / server `Stream`, alternating),
//!                       B = `TokioIo` bridge (switches between the tokio and the hyper i/o traits),
//!                       R<hex> = `Rewind` with that prefix (needs a hyper-level inner)
//!     rev: d<hex> | p | e | x   (inner read script)      wev: a<n> | p | x   (inner write script)
//!     op : r<cap> | w<hex> | v<hex>,<hex>.. | f | s       (applied to the top, tokio interface)
//!   obs: `<res>* ; <written hex> <flushes> <shutdowns>`    res: b<hex> | n<k> | ok | P | E
//! `st pipe <kind> <cap> ; <pop>*`   pop: [ab](r<cap> | w<hex> | v<hex>,<hex>.. | f | s)
//!     kind 0 DuplexStream, 1 Braid, 2 client Stream / server Stream, 3 kind 2 + double TokioIo bridge on A,
//!     4 unix socketpair in Braid, 5 tcp loopback in Braid (kinds 4,5: kernel buffers, `cap` is ignored; `x` = that side is dropped),
//!     6 the library's UnixStream pair, 7 its TcpStream over loopback (no wrapper around them)
//!   obs: `<res>*`, for kinds 4 to 7 followed by `; ref <res>*`: the same operations on a pair of the bare tokio sockets
//! `st prog <kind> <cap> ; <transfer>* ; <close a|b|ab|->`     two tasks, one per side, each running its part of the transfers in order
//!     transfer: `<a|b><len>.<write chunk>.<read buffer>.<flush after every write 0|1>`: that side writes `len` pattern bytes
//!     (`write` until all are taken, `flush` at the end - and after every chunk with the flag), the other side reads until it has them;
//!     close: the named sides shut down at the end (upper case: go away without shutting down) and the other side reads to the
//!     end of the stream
//!     kinds 0-5 as for `pipe`; 6 = TLS over a DuplexStream(cap): client `Stream::tls` (handshake driven lazily by the first
//!     operation) and the server `Stream` from the TLS acceptor; 7 = the same with both handshakes finished first
//!   obs: per transfer `ok | short<got> | bad<offset> | E | stuck`, then `eof=<ok|extra<n>|E|stuck|->` per closing side
use crate::rng::Rng;
use crate::sniff::{hex, parse_evs, show_evs, unhex, Ev};
use hyper::rt::{Read as HRead, Write as HWrite};
use hyperdriver::bridge::io::TokioIo;
use hyperdriver::info::{ConnectionInfo, HasConnectionInfo};
use hyperdriver::stream::duplex::{DuplexAddr, DuplexStream};
use hyperdriver::verif_hooks::Rewind;
use std::collections::VecDeque;
use std::io::{self, IoSlice};
use std::pin::Pin;
use std::sync::{Arc, Mutex};
use std::task::{Context, Poll};
use tokio::io::{AsyncRead, AsyncWrite, ReadBuf};

#[derive(Clone, Debug)]
enum WEv { Acc(usize), Pending, Err }

#[derive(Default)]
struct Shared { written: Vec<u8>, flushes: usize, shutdowns: usize }

struct ScriptedTokio { revs: VecDeque<Ev>, wevs: VecDeque<WEv>, shared: Arc<Mutex<Shared>>, calls: usize }

impl AsyncRead for ScriptedTokio {
    fn poll_read(mut self: Pin<&mut Self>, cx: &mut Context<'_>, buf: &mut ReadBuf<'_>) -> Poll<io::Result<()>> {
        // a tokio reader may fill the buffer in either of two ways: `put_slice`, or initialise the whole unfilled part first
        // and then advance by what it read (so that initialised > filled, also at EOF). Every other call does the latter.
        self.calls += 1;
        let init_first = self.calls % 2 == 0;
        match self.revs.pop_front() {
            None | Some(Ev::Eof) => { if init_first { let _ = buf.initialize_unfilled(); } Poll::Ready(Ok(())) }
            Some(Ev::Pending) => { cx.waker().wake_by_ref(); Poll::Pending }
            Some(Ev::Err) => Poll::Ready(Err(io::Error::new(io::ErrorKind::ConnectionReset, "scripted"))),
            Some(Ev::Data(bs)) => {
                let n = bs.len().min(buf.remaining());
                if init_first { let dst = buf.initialize_unfilled(); dst[..n].copy_from_slice(&bs[..n]); buf.advance(n); } else { buf.put_slice(&bs[..n]); }
                if n < bs.len() { self.revs.push_front(Ev::Data(bs[n..].to_vec())); }
                Poll::Ready(Ok(()))
            }
        }
    }
}
impl ScriptedTokio {
    fn accept(&mut self, cx: &mut Context<'_>, data: &[u8]) -> Poll<io::Result<usize>> {
        match self.wevs.pop_front() {
            None => { self.shared.lock().unwrap().written.extend_from_slice(data); Poll::Ready(Ok(data.len())) }
            Some(WEv::Acc(n)) => { let k = n.min(data.len()); self.shared.lock().unwrap().written.extend_from_slice(&data[..k]); Poll::Ready(Ok(k)) }
            Some(WEv::Pending) => { cx.waker().wake_by_ref(); Poll::Pending }
            Some(WEv::Err) => Poll::Ready(Err(io::Error::new(io::ErrorKind::BrokenPipe, "scripted"))),
        }
    }
}
impl AsyncWrite for ScriptedTokio {
    fn poll_write(mut self: Pin<&mut Self>, cx: &mut Context<'_>, buf: &[u8]) -> Poll<io::Result<usize>> { self.accept(cx, buf) }
    fn poll_write_vectored(mut self: Pin<&mut Self>, cx: &mut Context<'_>, bufs: &[IoSlice<'_>]) -> Poll<io::Result<usize>> {
        let all: Vec<u8> = bufs.iter().flat_map(|b| b.iter().copied()).collect();
        self.accept(cx, &all)
    }
    fn is_write_vectored(&self) -> bool { true }
    fn poll_flush(self: Pin<&mut Self>, _: &mut Context<'_>) -> Poll<io::Result<()>> { self.shared.lock().unwrap().flushes += 1; Poll::Ready(Ok(())) }
    fn poll_shutdown(self: Pin<&mut Self>, _: &mut Context<'_>) -> Poll<io::Result<()>> { self.shared.lock().unwrap().shutdowns += 1; Poll::Ready(Ok(())) }
}

// ---- type-erased i/o at the two interface levels, so that stacks can be composed at run time
trait TIo: AsyncRead + AsyncWrite + Send {}
impl<T: AsyncRead + AsyncWrite + Send> TIo for T {}
struct BoxIo(Pin<Box<dyn TIo>>);
impl AsyncRead for BoxIo {
    fn poll_read(mut self: Pin<&mut Self>, cx: &mut Context<'_>, buf: &mut ReadBuf<'_>) -> Poll<io::Result<()>> { self.0.as_mut().poll_read(cx, buf) }
}
impl AsyncWrite for BoxIo {
    fn poll_write(mut self: Pin<&mut Self>, cx: &mut Context<'_>, buf: &[u8]) -> Poll<io::Result<usize>> { self.0.as_mut().poll_write(cx, buf) }
    fn poll_write_vectored(mut self: Pin<&mut Self>, cx: &mut Context<'_>, bufs: &[IoSlice<'_>]) -> Poll<io::Result<usize>> { self.0.as_mut().poll_write_vectored(cx, bufs) }
    fn is_write_vectored(&self) -> bool { self.0.is_write_vectored() }
    fn poll_flush(mut self: Pin<&mut Self>, cx: &mut Context<'_>) -> Poll<io::Result<()>> { self.0.as_mut().poll_flush(cx) }
    fn poll_shutdown(mut self: Pin<&mut Self>, cx: &mut Context<'_>) -> Poll<io::Result<()>> { self.0.as_mut().poll_shutdown(cx) }
}
impl HasConnectionInfo for BoxIo {
    type Addr = DuplexAddr;
    fn info(&self) -> ConnectionInfo<DuplexAddr> { ConnectionInfo { local_addr: DuplexAddr::new(), remote_addr: DuplexAddr::new() } }
}
trait HIo: HRead + HWrite + Send {}
impl<T: HRead + HWrite + Send> HIo for T {}
struct BoxHy(Pin<Box<dyn HIo>>);
impl HRead for BoxHy {
    fn poll_read(mut self: Pin<&mut Self>, cx: &mut Context<'_>, buf: hyper::rt::ReadBufCursor<'_>) -> Poll<io::Result<()>> { self.0.as_mut().poll_read(cx, buf) }
}
impl HWrite for BoxHy {
    fn poll_write(mut self: Pin<&mut Self>, cx: &mut Context<'_>, buf: &[u8]) -> Poll<io::Result<usize>> { self.0.as_mut().poll_write(cx, buf) }
    fn poll_write_vectored(mut self: Pin<&mut Self>, cx: &mut Context<'_>, bufs: &[IoSlice<'_>]) -> Poll<io::Result<usize>> { self.0.as_mut().poll_write_vectored(cx, bufs) }
    fn is_write_vectored(&self) -> bool { self.0.is_write_vectored() }
    fn poll_flush(mut self: Pin<&mut Self>, cx: &mut Context<'_>) -> Poll<io::Result<()>> { self.0.as_mut().poll_flush(cx) }
    fn poll_shutdown(mut self: Pin<&mut Self>, cx: &mut Context<'_>) -> Poll<io::Result<()>> { self.0.as_mut().poll_shutdown(cx) }
}

enum Level { Tok(BoxIo), Hyp(BoxHy) }

fn build_stack(layers: &[&str], inner: ScriptedTokio) -> Option<BoxIo> {
    let mut cur = Level::Tok(BoxIo(Box::pin(inner)));
    let mut nwrap = 0;
    for l in layers.iter().rev() {
        cur = match (*l, cur) {
            ("W", Level::Tok(io)) => {
                nwrap += 1;
                if nwrap % 2 == 1 { Level::Tok(BoxIo(Box::pin(hyperdriver::client::conn::stream::Stream::new(io)))) }
                else { Level::Tok(BoxIo(Box::pin(hyperdriver::server::conn::Stream::new(io)))) }
            }
            ("B", Level::Tok(io)) => Level::Hyp(BoxHy(Box::pin(TokioIo::new(io)))),
            ("B", Level::Hyp(io)) => Level::Tok(BoxIo(Box::pin(TokioIo::new(io)))),
            (r, Level::Hyp(io)) if r.starts_with('R') => Level::Hyp(BoxHy(Box::pin(Rewind::new(io, unhex(&r[1..]))))),
            _ => return None,
        };
    }
    match cur { Level::Tok(io) => Some(io), Level::Hyp(_) => None }
}

thread_local! { static WOKEN: std::cell::Cell<bool> = const { std::cell::Cell::new(false) }; static SCRIPTED: std::cell::Cell<bool> = const { std::cell::Cell::new(false) }; }
struct FlagWake;
impl std::task::Wake for FlagWake { fn wake(self: std::sync::Arc<Self>) { WOKEN.with(|w| w.set(true)); } }

/// one poll with a waker that notes whether anybody was given it and used it: every scripted `Pending` at the bottom of the
/// stack wakes the waker it is handed, so an adapter that answers `Pending` without the flag set either invented the
/// `Pending` or polled its inner stream with somebody else's waker - the caller would never be polled again
fn cx_noop<R>(f: impl FnOnce(&mut Context<'_>) -> R) -> R {
    WOKEN.with(|w| w.set(false));
    let waker = std::task::Waker::from(std::sync::Arc::new(FlagWake));
    let mut cx = Context::from_waker(&waker);
    f(&mut cx)
}
/// (only over the scripted bottom: real pipes register wakers where the harness cannot see them)
fn pending_token() -> String { if WOKEN.with(|w| w.get()) || !SCRIPTED.with(|w| w.get()) { "P".into() } else { "Pl".into() } }

fn do_read<T: AsyncRead + Unpin>(io: &mut T, cap: usize) -> String {
    let k = cap % 4; // caller's pre-filled bytes
    let mut storage = vec![0u8; k + cap];
    let mut rb = ReadBuf::new(&mut storage);
    let pattern: Vec<u8> = (0..k).map(|i| 0xA0 + i as u8).collect();
    rb.put_slice(&pattern);
    match cx_noop(|cx| Pin::new(io).poll_read(cx, &mut rb)) {
        Poll::Pending => pending_token(),
        Poll::Ready(Err(_)) => "E".into(),
        Poll::Ready(Ok(())) => {
            if rb.filled()[..k] != pattern[..] { return "Xprefill-corrupted".into(); }
            format!("b{}", hex(&rb.filled()[k..]))
        }
    }
}
fn show_count(p: Poll<io::Result<usize>>) -> String {
    match p { Poll::Pending => pending_token(), Poll::Ready(Err(_)) => "E".into(), Poll::Ready(Ok(n)) => format!("n{n}") }
}
fn show_unit(p: Poll<io::Result<()>>) -> String {
    match p { Poll::Pending => pending_token(), Poll::Ready(Err(_)) => "E".into(), Poll::Ready(Ok(())) => "ok".into() }
}
fn do_op<T: AsyncRead + AsyncWrite + Unpin>(io: &mut T, op: &str) -> String {
    if op == "f" { return show_unit(cx_noop(|cx| Pin::new(io).poll_flush(cx))); }
    if op == "s" { return show_unit(cx_noop(|cx| Pin::new(io).poll_shutdown(cx))); }
    match op.as_bytes().first() {
        Some(b'r') => do_read(io, op[1..].parse().unwrap_or(0)),
        Some(b'w') => { let d = unhex(&op[1..]); show_count(cx_noop(|cx| Pin::new(io).poll_write(cx, &d))) }
        Some(b'v') => {
            let parts: Vec<Vec<u8>> = op[1..].split(',').map(unhex).collect();
            let slices: Vec<IoSlice<'_>> = parts.iter().map(|p| IoSlice::new(p)).collect();
            show_count(cx_noop(|cx| Pin::new(io).poll_write_vectored(cx, &slices)))
        }
        _ => "bad-op".into(),
    }
}

fn split_semi<'a>(toks: &[&'a str]) -> Vec<Vec<&'a str>> {
    let mut out = vec![vec![]];
    for t in toks { if *t == ";" { out.push(vec![]); } else { out.last_mut().unwrap().push(*t); } }
    out
}

fn run_script(toks: &[&str]) -> String {
    let parts = split_semi(toks);
    if parts.len() != 4 { return "bad-input".into(); }
    let shared = Arc::new(Mutex::new(Shared::default()));
    let mut revs = VecDeque::new();
    for e in parse_evs(&parts[1]) { let stop = matches!(e, Ev::Eof | Ev::Err) || matches!(&e, Ev::Data(b) if b.is_empty()); revs.push_back(if matches!(&e, Ev::Data(b) if b.is_empty()) { Ev::Eof } else { e }); if stop { break; } }
    let wevs: VecDeque<WEv> = parts[2].iter().filter_map(|t| match t.as_bytes().first() {
        Some(b'p') => Some(WEv::Pending), Some(b'x') => Some(WEv::Err), Some(b'a') => t[1..].parse().ok().map(WEv::Acc), _ => None }).collect();
    let inner = ScriptedTokio { revs, wevs, shared: shared.clone(), calls: 0 };
    let Some(mut top) = build_stack(&parts[0], inner) else { return "bad-stack".into() };
    let res: Vec<String> = parts[3].iter().map(|op| do_op(&mut top, op)).collect();
    let sh = shared.lock().unwrap();
    format!("{} ; {} {} {}", res.join(" "), hex(&sh.written), sh.flushes, sh.shutdowns)
}

// ---- real pipes
async fn run_pipe(kind: usize, cap: usize, ops: &[&str]) -> String {
    use hyperdriver::stream::Braid;
    let (a, b): (BoxIo, BoxIo) = match kind {
        0 => { let (a, b) = DuplexStream::new(cap); (BoxIo(Box::pin(a)), BoxIo(Box::pin(b))) }
        1 => { let (a, b) = DuplexStream::new(cap); (BoxIo(Box::pin(Braid::from(a))), BoxIo(Box::pin(Braid::from(b)))) }
        2 => { let (a, b) = DuplexStream::new(cap);
               (BoxIo(Box::pin(hyperdriver::client::conn::stream::Stream::from(a))), BoxIo(Box::pin(hyperdriver::server::conn::Stream::from(b)))) }
        3 => { let (a, b) = DuplexStream::new(cap);
               let a = hyperdriver::client::conn::stream::Stream::from(a);
               (BoxIo(Box::pin(TokioIo::new(TokioIo::new(a)))), BoxIo(Box::pin(hyperdriver::server::conn::Stream::from(b)))) }
        4 => { let (a, b) = hyperdriver::stream::UnixStream::pair().unwrap(); (BoxIo(Box::pin(Braid::from(a))), BoxIo(Box::pin(Braid::from(b)))) }
        // 6, 7: the library's own socket types without the dispatch wrapper around them
        6 => { let (a, b) = hyperdriver::stream::UnixStream::pair().unwrap(); (BoxIo(Box::pin(a)), BoxIo(Box::pin(b))) }
        7 => {
            let l = tokio::net::TcpListener::bind("127.0.0.1:0").await.unwrap();
            let addr = l.local_addr().unwrap();
            let (c, s) = tokio::join!(tokio::net::TcpStream::connect(addr), l.accept());
            let (s, peer) = s.unwrap();
            (BoxIo(Box::pin(hyperdriver::stream::TcpStream::client(c.unwrap()))), BoxIo(Box::pin(hyperdriver::stream::TcpStream::server(s, peer))))
        }
        _ => {
            let l = tokio::net::TcpListener::bind("127.0.0.1:0").await.unwrap();
            let addr = l.local_addr().unwrap();
            let (c, s) = tokio::join!(tokio::net::TcpStream::connect(addr), l.accept());
            let (s, peer) = s.unwrap();
            (BoxIo(Box::pin(Braid::from(hyperdriver::stream::TcpStream::client(c.unwrap())))),
             BoxIo(Box::pin(Braid::from(hyperdriver::stream::TcpStream::server(s, peer)))))
        }
    };
    let kernel = kind >= 4;
    // kernel sockets: the same operations are also applied to a pair of the bare tokio sockets - what the wrapper reports must be
    // what the socket it wraps reports (the operating system decides what that is: a reset after the peer went away with data
    // unread, say)
    let reference: Option<(BoxIo, BoxIo)> = match kind {
        4 | 6 => { let (x, y) = tokio::net::UnixStream::pair().unwrap(); Some((BoxIo(Box::pin(x)), BoxIo(Box::pin(y)))) }
        5 | 7 => {
            let l = tokio::net::TcpListener::bind("127.0.0.1:0").await.unwrap();
            let addr = l.local_addr().unwrap();
            let (c, s) = tokio::join!(tokio::net::TcpStream::connect(addr), l.accept());
            Some((BoxIo(Box::pin(c.unwrap())), BoxIo(Box::pin(s.unwrap().0))))
        }
        _ => None,
    };
    // `guide`: the answers of the wrapped pair. A vectored write may accept fewer bytes than the bare socket
    // would (any prefix of the slices, one after the other); the reference then writes exactly that prefix.
    async fn play(a: BoxIo, b: BoxIo, kernel: bool, ops: &[&str], guide: Option<&[String]>) -> Vec<String> {
        let (mut a, mut b) = (Some(a), Some(b));
        // reference counters used only to decide how long to wait for kernel sockets to deliver
        let mut inflight = [0isize; 2]; // [a->b, b->a]
        let mut closed = [false; 2];
        let mut out = Vec::new();
        for (opi, op) in ops.iter().enumerate() {
            let side_a = op.starts_with('a');
            let body = &op[1..];
            let prefix;
            let body = match guide.and_then(|g| g.get(opi)).and_then(|g| g.strip_prefix('n')).and_then(|n| n.parse::<usize>().ok()) {
                Some(k) if body.starts_with('v') => {
                    let all: Vec<u8> = body[1..].split(',').flat_map(unhex).collect();
                    // (everything accepted - also when there was nothing to accept: the very same call)
                    if k >= all.len() { body } else { prefix = format!("w{}", hex(&all[..k])); &prefix[..] }
                }
                _ => body,
            };
            let dir_out = if side_a { 0 } else { 1 };
            let dir_in = 1 - dir_out;
            if body == "x" {
                // this side goes away altogether, whatever it has not read yet
                let gone = if side_a { a.take() } else { b.take() };
                out.push(if gone.is_some() { "ok".to_string() } else { "N".to_string() });
                closed[dir_out] = true;
                continue;
            }
            let Some(io) = (if side_a { a.as_mut() } else { b.as_mut() }) else { out.push("N".to_string()); continue };
            let mut r = do_op(io, body);
            // kernel sockets: readiness is only learnt from the reactor, so give it a chance to run; a
            // write must make progress (the buffers are far larger than what is written), a read must
            // once bytes are in flight or the peer has shut down
            if kernel && r == "P" && ((body.starts_with('r') && (inflight[dir_in] > 0 || closed[dir_in])) || body.starts_with('w') || body.starts_with('v') || body == "f") {
                for _ in 0..400 {
                    tokio::time::sleep(std::time::Duration::from_millis(1)).await;
                    r = do_op(io, body);
                    if r != "P" { break; }
                }
            }
            if body.starts_with('w') || body.starts_with('v') { if let Some(n) = r.strip_prefix('n') { inflight[dir_out] += n.parse::<isize>().unwrap_or(0); } }
            if body.starts_with('r') { if let Some(h) = r.strip_prefix('b') { inflight[dir_in] -= (if h == "-" { 0 } else { h.len() / 2 }) as isize; } }
            if body == "s" && r == "ok" { closed[dir_out] = true; }
            out.push(r);
        }
        out
    }
    let mut out = play(a, b, kernel, ops, None).await;
    if let Some((x, y)) = reference {
        out.push(";".to_string());
        out.push("ref".to_string());
        let guide = out[..out.len() - 2].to_vec();
        out.extend(play(x, y, kernel, ops, Some(&guide)).await);
    }
    out.join(" ")
}

pub fn pat(i: usize, j: usize) -> u8 { ((i * 31 + j * 7 + j / 251) % 256) as u8 }

struct Transfer { from_a: bool, len: usize, wchunk: usize, rbuf: usize, flush_each: bool }

async fn run_prog(kind: usize, cap: usize, transfers: Vec<Transfer>, close: &str) -> String {
    use hyperdriver::stream::Braid;
    use hyperdriver::stream::tls::TlsHandshakeStream as _;
    use hyperdriver::server::conn::AcceptExt as _;
    use tokio::io::{AsyncReadExt, AsyncWriteExt};
    let (a, b): (BoxIo, BoxIo) = match kind {
        0 => { let (a, b) = DuplexStream::new(cap); (BoxIo(Box::pin(a)), BoxIo(Box::pin(b))) }
        1 => { let (a, b) = DuplexStream::new(cap); (BoxIo(Box::pin(Braid::from(a))), BoxIo(Box::pin(Braid::from(b)))) }
        2 => { let (a, b) = DuplexStream::new(cap);
               (BoxIo(Box::pin(hyperdriver::client::conn::stream::Stream::from(a))), BoxIo(Box::pin(hyperdriver::server::conn::Stream::from(b)))) }
        3 => { let (a, b) = DuplexStream::new(cap);
               let a = hyperdriver::client::conn::stream::Stream::from(a);
               (BoxIo(Box::pin(TokioIo::new(TokioIo::new(a)))), BoxIo(Box::pin(hyperdriver::server::conn::Stream::from(b)))) }
        4 => { let (a, b) = hyperdriver::stream::UnixStream::pair().unwrap(); (BoxIo(Box::pin(Braid::from(a))), BoxIo(Box::pin(Braid::from(b)))) }
        5 => {
            let l = tokio::net::TcpListener::bind("127.0.0.1:0").await.unwrap();
            let addr = l.local_addr().unwrap();
            let (c, s) = tokio::join!(tokio::net::TcpStream::connect(addr), tokio::net::TcpListener::accept(&l));
            let (s, peer) = s.unwrap();
            (BoxIo(Box::pin(Braid::from(hyperdriver::stream::TcpStream::client(c.unwrap())))),
             BoxIo(Box::pin(Braid::from(hyperdriver::stream::TcpStream::server(s, peer)))))
        }
        _ => {
            crate::tls::install();
            let (client, incoming) = hyperdriver::stream::duplex::pair();
            let acceptor = hyperdriver::server::conn::Acceptor::from(incoming).with_tls(Arc::new(crate::tls::server_config("good", "-")));
            let Ok((cio, mut sio)) = tokio::try_join!(client.connect(cap), acceptor.accept()) else { return "bad-input".into() };
            let mut conn = hyperdriver::client::conn::Stream::from(cio).tls("example.com", Arc::new(crate::tls::client_config("-")));
            if kind == 7 && tokio::try_join!(conn.finish_handshake(), sio.finish_handshake()).is_err() { return "handshake-failed".into(); }
            (BoxIo(Box::pin(conn)), BoxIo(Box::pin(sio)))
        }
    };
    let transfers = Arc::new(transfers);
    let n = transfers.len();
    // per transfer the reader's verdict; per side the verdict on the end of the stream
    let results: Arc<Mutex<Vec<Option<String>>>> = Arc::new(Mutex::new(vec![None; n]));
    let eofs: Arc<Mutex<[Option<String>; 2]>> = Arc::new(Mutex::new([None, None]));
    let side = |mut io: BoxIo, is_a: bool| {
        let (transfers, results, eofs, close) = (transfers.clone(), results.clone(), eofs.clone(), close.to_string());
        async move {
            for (i, t) in transfers.iter().enumerate() {
                if t.from_a == is_a {
                    let data: Vec<u8> = (0..t.len).map(|j| pat(i, j)).collect();
                    let mut off = 0;
                    while off < data.len() {
                        let end = (off + t.wchunk.max(1)).min(data.len());
                        match io.write(&data[off..end]).await { Ok(0) | Err(_) => return, Ok(k) => off += k }
                        if t.flush_each && io.flush().await.is_err() { return; }
                    }
                    if io.flush().await.is_err() { return; }
                } else {
                    let mut got = 0usize;
                    let mut buf = vec![0u8; t.rbuf.max(1)];
                    let mut verdict = None;
                    while got < t.len {
                        let want = buf.len().min(t.len - got);
                        match io.read(&mut buf[..want]).await {
                            Err(_) => { verdict = Some("E".to_string()); break; }
                            Ok(0) => { verdict = Some(format!("short{got}")); break; }
                            Ok(k) => {
                                if let Some(x) = (0..k).find(|x| buf[*x] != pat(i, got + x)) { verdict = Some(format!("bad{}", got + x)); break; }
                                got += k;
                            }
                        }
                    }
                    let stop = verdict.is_some();
                    results.lock().unwrap()[i] = Some(verdict.unwrap_or("ok".into()));
                    if stop { return; }
                }
            }
            // A shuts down (if asked to) and then reads to the end of B's stream (if that closes); B first reads to the end of A's
            // stream and then shuts down - one after the other: a TLS shutdown writes an alert, and two sides that both write and
            // neither reads can block each other on a small pipe
            let me = if is_a { 'a' } else { 'b' };
            let other = if is_a { 'b' } else { 'a' };
            async fn read_end(io: &mut BoxIo) -> String {
                use tokio::io::AsyncReadExt;
                let mut buf = [0u8; 16];
                let mut extra = 0;
                loop { match io.read(&mut buf).await { Err(_) => break "E".to_string(), Ok(0) => break if extra == 0 { "ok".to_string() } else { format!("extra{extra}") }, Ok(k) => extra += k } }
            }
            // (an upper-case letter in `close`: that side does not shut down but simply goes away - over TLS the session is then
            // not closed, the transport just ends, and the peer must be told so: an error, not the end of the stream)
            let (me_cut, other_ends) = (close.contains(me.to_ascii_uppercase()), close.contains(other) || close.contains(other.to_ascii_uppercase()));
            if is_a {
                if close.contains(me) && io.shutdown().await.is_err() { return; }
                if me_cut { drop(io); tokio::time::sleep(std::time::Duration::from_secs(3600)).await; return; }
                if other_ends { let v = read_end(&mut io).await; eofs.lock().unwrap()[1] = Some(v); }
            } else {
                if other_ends { let v = read_end(&mut io).await; eofs.lock().unwrap()[0] = Some(v); }
                if close.contains(me) && io.shutdown().await.is_err() { return; }
                if me_cut { drop(io); tokio::time::sleep(std::time::Duration::from_secs(3600)).await; return; }
            }
            // keep the stream alive until the peer is done with it
            tokio::time::sleep(std::time::Duration::from_secs(3600)).await;
        }
    };
    let (ta, tb) = (tokio::spawn(side(a, true)), tokio::spawn(side(b, false)));
    // done when every verdict is in; a deadlock shows as the time limit (virtual time for the in-memory kinds: instantly)
    let limit = tokio::time::Instant::now() + std::time::Duration::from_secs(20);
    loop {
        let lc = close.to_ascii_lowercase();
        let done = results.lock().unwrap().iter().all(|r| r.is_some()) && { let e = eofs.lock().unwrap(); (!lc.contains('a') || e[0].is_some()) && (!lc.contains('b') || e[1].is_some()) };
        if done || tokio::time::Instant::now() >= limit || (ta.is_finished() && tb.is_finished()) { break; }
        tokio::time::sleep(std::time::Duration::from_millis(5)).await;
    }
    ta.abort(); tb.abort();
    let rs: Vec<String> = results.lock().unwrap().iter().map(|r| r.clone().unwrap_or("stuck".into())).collect();
    let e = eofs.lock().unwrap();
    let ev = |c: char, i: usize| if close.to_ascii_lowercase().contains(c) { e[i].clone().unwrap_or("stuck".into()) } else { "-".into() };
    format!("{} ; eof={} eof={}", rs.join(" "), ev('a', 0), ev('b', 1))
}

pub fn run(toks: &[&str]) -> String {
    match toks.first().copied() {
        Some("prog") if toks.len() >= 4 => {
            let kind: usize = toks[1].parse().unwrap_or(0);
            let cap: usize = toks[2].parse().unwrap_or(16);
            let parts = split_semi(&toks[3..]);
            if parts.len() != 3 || parts[2].len() != 1 { return "bad-input".into(); }
            let mut transfers = vec![];
            for t in &parts[1] {
                let from_a = t.starts_with('a');
                let f: Vec<usize> = t[1..].split('.').filter_map(|x| x.parse().ok()).collect();
                if f.len() != 4 || !(t.starts_with('a') || t.starts_with('b')) { return "bad-input".into(); }
                transfers.push(Transfer { from_a, len: f[0], wchunk: f[1], rbuf: f[2], flush_each: f[3] == 1 });
            }
            let close = parts[2][0];
            let mut b = tokio::runtime::Builder::new_current_thread();
            b.enable_all();
            if kind < 4 || kind >= 6 { b.start_paused(true); }
            b.build().unwrap().block_on(run_prog(kind, cap.max(1), transfers, close))
        }
        Some("script") => { SCRIPTED.with(|w| w.set(true)); let r = run_script(&toks[1..]); SCRIPTED.with(|w| w.set(false)); r }
        Some("pipe") if toks.len() >= 4 => {
            let kind: usize = toks[1].parse().unwrap_or(0);
            let cap: usize = toks[2].parse().unwrap_or(16);
            let ops: Vec<&str> = toks[4..].to_vec();
            let rt = tokio::runtime::Builder::new_current_thread().enable_all().build().unwrap();
            rt.block_on(run_pipe(kind, cap, &ops))
        }
        _ => "bad-input".into(),
    }
}

// ---- generators
fn rand_bytes(r: &mut Rng, n: u64) -> Vec<u8> { (0..n).map(|_| r.below(256) as u8).collect() }

fn gen_prog(r: &mut Rng, i: u64) -> String {
    let kind = match i % 10 { 0 | 1 | 2 => 6, 3 | 4 => 7, 5 => r.range(4, 5), _ => r.below(4) };
    let cap = if kind == 4 || kind == 5 { 1_000_000 } else { *r.pick(&[1u64, 3, 16, 64, 1024, 1024, 65536]) };
    // TLS: records do not fit a pipe of a few bytes at once, which is fine, but the handshake over it takes thousands of polls
    let cap = if kind >= 6 && cap < 16 { 16 } else { cap };
    let n = r.range(1, 5);
    let mut ts = vec![];
    // who speaks first matters (a lazily driven handshake is started by a read or by a write)
    for _ in 0..n {
        let side = if r.chance(1, 2) { 'a' } else { 'b' };
        let len = match r.below(6) { 0 => r.range(1, 8), 1 | 2 => r.range(9, 600), 3 => r.range(601, 5000), _ => r.range(5001, 40000) };
        let wchunk = if len > 2000 { *r.pick(&[64u64, 1000, 16384, 100000]) } else { *r.pick(&[1u64, 7, 64, 1000, 100000]) };
        let rbuf = if len > 2000 { *r.pick(&[64u64, 512, 4096, 100000]) } else { *r.pick(&[1u64, 5, 64, 4096]) };
        ts.push(format!("{side}{len}.{wchunk}.{rbuf}.{}", r.chance(1, 4) as u8));
    }
    // (upper case: that side goes away without shutting down)
    let close = *r.pick(&["-", "a", "b", "ab", "ab", "A", "B", "aB"]);
    format!("prog {kind} {cap} ; {} ; {close}", ts.join(" "))
}

pub fn gen(r: &mut Rng, i: u64) -> String {
    if i % 9 == 4 { return gen_prog(r, i / 9); }
    if i % 3 == 2 {
        // real pipes; kernel-socket kinds are rarer (slower)
        let kind = if i % 30 == 29 { r.range(4, 7) } else { r.below(4) };
        let cap = *r.pick(&[1u64, 2, 3, 5, 8, 16, 64]);
        let mut ops = Vec::new();
        let mut shut = [false, false];
        for _ in 0..r.range(3, 14) {
            let side = if r.chance(1, 2) { 'a' } else { 'b' };
            let sidx = (side == 'b') as usize;
            let op = match r.below(10) {
                0..=3 if !shut[sidx] => format!("{side}w{}", hex(&{ let n = r.range(1, 12); rand_bytes(r, n) })),
                4..=7 => format!("{side}r{}", r.pick(&[1u64, 2, 3, 5, 8, 32])),
                8 if kind < 4 || r.chance(1, 2) => format!("{side}f"),
                9 if !shut[sidx] && kind < 4 => { shut[sidx] = true; format!("{side}s") }
                // kernel sockets: one side goes away altogether, possibly with data it has not read
                9 if kind >= 4 && r.chance(1, 2) => format!("{side}x"),
                // … and vectored writes (several non-empty slices, empty ones in between)
                8 if kind >= 4 && !shut[sidx] => { let k = r.range(2, 4); let full = r.below(k);
                    // (at least one slice carries data: whether a write of nothing at all notices a peer that has gone away is the
                    // operating system's business, and differs between `write` and `writev`)
                    let parts: Vec<String> = (0..k).map(|j| hex(&{ let n = if j == full { r.range(1, 5) } else { r.below(6) }; rand_bytes(r, n) })).collect(); format!("{side}v{}", parts.join(",")) }
                _ => format!("{side}r{}", r.pick(&[1u64, 4, 16])),
            };
            ops.push(op);
        }
        let cap = if kind >= 4 { 1_000_000 } else { cap };
        return format!("pipe {kind} {cap} ; {}", ops.join(" "));
    }
    let templates: &[&[&str]] = &[&["W"], &["W", "W"], &["B", "B"], &["B", "R", "B"], &["W", "B", "R", "B", "W"], &["B", "B", "B", "B"],
                                  &["B", "R", "B", "W", "W"], &["W", "B", "B", "W"], &[]];
    let t = *r.pick(templates);
    let layers: Vec<String> = t.iter().map(|l| if *l == "R" { format!("R{}", hex(&{ let n = r.below(9); rand_bytes(r, n) })) } else { l.to_string() }).collect();
    let stream = { let n = r.below(40); rand_bytes(r, n) };
    let revs = crate::sniff::chunk(r, &stream);
    let wevs: Vec<String> = (0..r.below(5)).map(|_| match r.below(6) { 0 => "p".to_string(), 1 => "x".to_string(), _ => format!("a{}", r.below(9)) }).collect();
    let mut ops = Vec::new();
    for _ in 0..r.range(2, 12) {
        ops.push(match r.below(10) {
            0..=4 => format!("r{}", r.pick(&[0u64, 1, 2, 3, 5, 8, 24, 64])),
            5..=6 => format!("w{}", hex(&{ let n = r.below(10); rand_bytes(r, n) })),
            7 => { let k = r.range(1, 4); let parts: Vec<String> = (0..k).map(|_| hex(&{ let n = r.below(5); rand_bytes(r, n) })).collect(); format!("v{}", parts.join(",")) }
            8 => "f".to_string(),
            _ => "s".to_string(),
        });
    }
    format!("script {} ; {} ; {} ; {}", layers.join(" "), show_evs(&revs), wevs.join(" "), ops.join(" "))
}
