//! Stream `to` (C19, result part): the public `service::Timeout` around a scripted inner service,
//! polled by hand at chosen virtual instants under tokio's paused clock.
//!
//! line: `to <d> <t|-> <ok 0|1> ; <p>*`     (all in ms; p = instants at which the future is polled)
//! obs : `<inner-ok|inner-err|timeout|pending> <time> <innerPolls> <innerDropped>`
use crate::rng::Rng;
use std::future::Future;
use std::pin::Pin;
use std::sync::atomic::{AtomicBool, AtomicUsize, Ordering};
use std::sync::Arc;
use std::task::{Context, Poll};
use std::time::Duration;
use tower::Service;

pub fn gen(r: &mut Rng, _i: u64) -> String {
    let d = *r.pick(&[0u64, 1, 5, 10, 20, 50]);
    if r.chance(1, 25) {
        // the longest duration there is: the deadline never comes
        let t = r.below(70);
        return format!("max {t} {} ; 0 {t} {}", r.chance(2, 3) as u8, t + 5);
    }
    let t = match r.below(8) {
        0 => "-".to_string(),
        1 => d.to_string(),                               // exactly at the deadline
        2 => (d + 1).to_string(),
        3 => d.saturating_sub(1).to_string(),
        4 => "0".to_string(),
        _ => r.below(70).to_string(),
    };
    let ok = r.chance(2, 3) as u8;
    // poll schedule: the executor's polls (0, min(t,d), ...) plus spurious ones; sometimes inadequate
    let mut ps: Vec<u64> = vec![];
    let tt: Option<u64> = t.parse().ok();
    let style = r.below(6);
    if style != 5 {
        ps.push(0);
        if let Some(tt) = tt { ps.push(tt); }
        ps.push(d);
    }
    for _ in 0..r.below(5) {
        ps.push(r.below(80));
    }
    if style == 4 { ps.push(d + 7); ps.push(100); }
    ps.sort_unstable();
    if style <= 3 { ps.dedup(); }            // ascending, adequate
    let ps: Vec<String> = ps.iter().map(|p| p.to_string()).collect();
    format!("{d} {t} {ok} ; {}", ps.join(" "))
}

struct Scripted {
    sleep: Option<Pin<Box<tokio::time::Sleep>>>,
    ok: bool,
    polls: Arc<AtomicUsize>,
    dropped: Arc<AtomicBool>,
}
impl Future for Scripted {
    type Output = Result<u32, &'static str>;
    fn poll(mut self: Pin<&mut Self>, cx: &mut Context<'_>) -> Poll<Self::Output> {
        self.polls.fetch_add(1, Ordering::SeqCst);
        let ok = self.ok;
        match self.sleep.as_mut() {
            None => Poll::Pending,
            Some(s) => match s.as_mut().poll(cx) {
                Poll::Ready(()) => Poll::Ready(if ok { Ok(7) } else { Err("inner") }),
                Poll::Pending => Poll::Pending,
            },
        }
    }
}
impl Drop for Scripted {
    fn drop(&mut self) {
        self.dropped.store(true, Ordering::SeqCst);
    }
}

fn timeout_err() -> &'static str { "timeout" }

pub fn run(toks: &[&str]) -> String {
    let split = toks.iter().position(|t| *t == ";").unwrap_or(toks.len());
    if split < 3 { return "bad-input".into(); }
    // `max`: the longest duration there is
    let huge = toks[0] == "max";
    let d: u64 = toks[0].parse().unwrap_or(0);
    let t: Option<u64> = toks[1].parse().ok();
    let ok = toks[2] == "1";
    let ps: Vec<u64> = toks[(split + 1).min(toks.len())..].iter().filter_map(|x| x.parse().ok()).collect();
    let rt = tokio::runtime::Builder::new_current_thread().enable_time().start_paused(true).build().unwrap();
    rt.block_on(async move {
        let polls = Arc::new(AtomicUsize::new(0));
        let dropped = Arc::new(AtomicBool::new(false));
        let (p2, d2) = (polls.clone(), dropped.clone());
        let inner = tower::service_fn(move |_: ()| {
            Scripted {
                // a zero-latency inner future is ready at its first poll
                sleep: t.map(|t| Box::pin(tokio::time::sleep(Duration::from_millis(t)))),
                ok,
                polls: p2.clone(),
                dropped: d2.clone(),
            }
        });
        let mut svc = hyperdriver::service::Timeout::new(inner, if huge { Duration::MAX } else { Duration::from_millis(d) }, Box::new(timeout_err as fn() -> &'static str));
        let t0 = tokio::time::Instant::now();
        let Ok(fut) = std::panic::catch_unwind(std::panic::AssertUnwindSafe(|| svc.call(()))) else { return "panic 0 0 1".to_string() };
        let mut fut = Box::pin(fut);
        let waker = futures_util::task::noop_waker();
        let mut cx = Context::from_waker(&waker);
        let mut res = "pending 0".to_string();
        for p in ps {
            let now = t0.elapsed().as_millis() as u64;
            if p > now {
                tokio::time::advance(Duration::from_millis(p - now)).await;
            }
            if let Poll::Ready(r) = fut.as_mut().poll(&mut cx) {
                let at = if p > now { p } else { now };
                res = match r {
                    Ok(_) => format!("inner-ok {at}"),
                    Err("inner") => format!("inner-err {at}"),
                    Err(_) => format!("timeout {at}"),
                };
                break;
            }
        }
        drop(fut);
        format!("{res} {} {}", polls.load(Ordering::SeqCst), dropped.load(Ordering::SeqCst) as u8)
    })
}
