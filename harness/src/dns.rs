//! Stream `dns` (C16): SocketAddrs::{set_port, sort_preferred, pop} through the verif hook, and the
//! `TcpTransport::connecting` glue (from_binding + conditional sort).
use crate::rng::Rng;
use hyperdriver::client::conn::dns::IpVersion;
use hyperdriver::client::conn::transport::tcp::{TcpTransport, TcpTransportConfig};
use std::net::{IpAddr, Ipv4Addr, Ipv6Addr, SocketAddr};

fn gen_addrs(r: &mut Rng) -> String {
    // shapes: empty, single family, mixed; duplicates allowed (ids drawn from a small range)
    let n = match r.below(10) {
        0 => 0,
        1 => 1,
        2..=6 => r.range(2, 6),
        _ => r.range(6, 12),
    };
    let bias = r.below(5); // 0: all v4, 1: all v6, else mixed with varying ratio
    let idrange = if r.chance(1, 3) { 3 } else { 40 };
    let mut s = String::new();
    for _ in 0..n {
        let v6 = match bias {
            0 => false,
            1 => true,
            2 => r.chance(1, 5),
            3 => r.chance(4, 5),
            _ => r.chance(1, 2),
        };
        let id = r.below(idrange);
        let port = *r.pick(&[0u64, 1, 80, 443, 8080, 65535]);
        // family token 2: an IPv4-mapped IPv6 address (`::ffff:a.b.c.d`) - an IPv6 socket address like any other
        let fam = if v6 && r.chance(1, 5) { 2 } else { v6 as u8 };
        s.push_str(&format!(" {} {} {}", fam, id, port));
    }
    s
}

pub fn gen(r: &mut Rng, _i: u64) -> String {
    if r.chance(3, 4) {
        let pref = *r.pick(&["0", "4", "6"]);
        let sort = if r.chance(9, 10) { 1 } else { 0 };
        let port = if r.chance(1, 2) {
            r.pick(&[0u64, 1, 80, 443, 8443, 65535]).to_string()
        } else {
            "-".to_string()
        };
        format!("hook {pref} {sort} {port}{}", gen_addrs(r))
    } else {
        format!(
            "glue {} {} {}{}",
            r.chance(4, 5) as u8,
            *r.pick(&["0", "0", "0", "1", "w", "p"]),
            *r.pick(&["0", "0", "0", "1", "w", "p"]),
            gen_addrs(r)
        )
    }
}

fn mk(fam: &str, id: u64, port: u64) -> SocketAddr {
    let v6 = fam != "0";
    let ip: IpAddr = if fam == "2" {
        IpAddr::V6(Ipv4Addr::new(10, (id >> 16) as u8, (id >> 8) as u8, id as u8).to_ipv6_mapped())
    } else if v6 {
        IpAddr::V6(Ipv6Addr::new(0x2001, 0xdb8, 0, 0, 0, 0, (id >> 16) as u16, id as u16))
    } else {
        IpAddr::V4(Ipv4Addr::new(10, (id >> 16) as u8, (id >> 8) as u8, id as u8))
    };
    SocketAddr::new(ip, port as u16)
}

fn un(a: &SocketAddr) -> String {
    match a.ip() {
        IpAddr::V4(ip) => {
            let o = ip.octets();
            format!("0 {} {}", ((o[1] as u64) << 16) | ((o[2] as u64) << 8) | o[3] as u64, a.port())
        }
        IpAddr::V6(ip) if ip.to_ipv4_mapped().is_some() => {
            let o = ip.to_ipv4_mapped().unwrap().octets();
            format!("2 {} {}", ((o[1] as u64) << 16) | ((o[2] as u64) << 8) | o[3] as u64, a.port())
        }
        IpAddr::V6(ip) => {
            let s = ip.segments();
            format!("1 {} {}", ((s[6] as u64) << 16) | s[7] as u64, a.port())
        }
    }
}

fn parse_addrs(toks: &[&str]) -> Vec<SocketAddr> {
    toks.chunks(3)
        .filter(|c| c.len() == 3)
        .map(|c| mk(c[0], c[1].parse().unwrap_or(0), c[2].parse().unwrap_or(0)))
        .collect()
}

pub fn run(toks: &[&str]) -> String {
    let out = match toks.first().copied() {
        Some("hook") if toks.len() >= 4 => {
            let prefer = match toks[1] {
                "4" => Some(IpVersion::V4),
                "6" => Some(IpVersion::V6),
                _ => None,
            };
            let sort = toks[2] == "1";
            let port = toks[3].parse::<u16>().ok();
            hyperdriver::verif_hooks::sort_preferred(parse_addrs(&toks[4..]), prefer, sort, port)
        }
        Some("glue") if toks.len() >= 4 => {
            let mut cfg = TcpTransportConfig::default();
            cfg.happy_eyeballs_timeout =
                (toks[1] == "1").then_some(std::time::Duration::from_secs(1));
            // local addresses: loopback, the wildcard, or some other specific address
            cfg.local_address_ipv4 = match toks[2] { "1" => Some(Ipv4Addr::LOCALHOST), "w" => Some(Ipv4Addr::UNSPECIFIED), "p" => Some(Ipv4Addr::new(192, 0, 2, 7)), _ => None };
            cfg.local_address_ipv6 = match toks[3] { "1" => Some(Ipv6Addr::LOCALHOST), "w" => Some(Ipv6Addr::UNSPECIFIED), "p" => Some("2001:db8::7".parse().unwrap()), _ => None };
            let t: TcpTransport = TcpTransport::builder().with_config(cfg).with_gai_resolver().build();
            t.verif_connecting_order(parse_addrs(&toks[4..]))
        }
        _ => return "bad-input".into(),
    };
    out.iter().map(un).collect::<Vec<_>>().join(" ")
}
