//! Stream `srvk` (C09): the real `Server` on kernel acceptors (TCP, Unix) and on TLS acceptors
//! (TCP+TLS, duplex+TLS), real time. A sequence of misbehaving clients, some of them before the
//! server is first polled (they sit in the listen backlog), then one well-behaved probe client.
//!
//! `backlog` / `backlogtls`: an acceptor of the caller's own (the `Accept` trait is public, `Acceptor::new(..).with_tls(..)` layers TLS
//! over it): an in-memory listen queue of duplex streams in which, as in a kernel backlog, a connection sits with whatever its
//! client has already written - and, unlike a tokio socket, is readable at once when it is accepted.
//!
//! `dupcap`: the duplex acceptor with a cap on the pipe size (`with_max_buf_size`); fault `zero` is a duplex client that asks for a pipe
//! of zero bytes (a plain `close` elsewhere): the size a client asks for is the client's to choose.
//!
//! line: `srvk <h1|auto> <tcp|unix|tcptls|duptls|dupcap|backlog|backlogtls> ; <fault> ; …`
//!   fault: `[pre:]rst | close | garbage | half | stall | tlshalf | bound | bound8 | boundgone`   (`pre:` = before the server future is first polled)
//!   bound*: a Unix client that binds its own socket before connecting - to an ordinary path, to a path that is not UTF-8, to a path it
//!   unlinks right after binding (on the other acceptors these are plain `close`s): the peer address a listener reports at accept is the client's to choose
//! obs : `<P|OK|EA|EM|EO|PANIC> <probe served 0|1>`
use crate::rng::Rng;
use hyperdriver::server::conn::Acceptor;
use hyperdriver::stream::duplex;
use hyperdriver::{Body, Server};
use rustls::pki_types::ServerName;
use std::sync::Arc;
use std::time::Duration;
use tokio::io::{AsyncRead, AsyncReadExt, AsyncWrite, AsyncWriteExt};

type BoxError = Box<dyn std::error::Error + Send + Sync + 'static>;

const FAULTS: &[&str] = &["rst", "close", "garbage", "half", "stall", "tlshalf", "bound", "bound8", "boundgone", "zero"];
const KINDS: &[&str] = &["tcp", "tcp", "unix", "unix", "tcptls", "duptls", "dupcap", "backlog", "backlogtls"];

pub fn gen(r: &mut Rng, _i: u64) -> String {
    let proto = if r.chance(1, 2) { "h1" } else { "auto" };
    let kind = *r.pick(KINDS);
    let n = r.range(1, 5);
    let npre = r.below(n + 1);
    let fs: Vec<String> = (0..n).map(|k| format!("{}{}", if k < npre { "pre:" } else { "" }, r.pick(FAULTS))).collect();
    format!("{proto} {kind} ; {}", fs.join(" ; "))
}

pub fn exhaustive() -> Vec<String> {
    let mut out = vec![];
    for proto in ["h1", "auto"] {
        for kind in ["tcp", "unix", "tcptls", "duptls", "dupcap", "backlog", "backlogtls"] {
            for f in FAULTS {
                out.push(format!("srvk {proto} {kind} ; pre:{f}"));
                out.push(format!("srvk {proto} {kind} ; {f}"));
            }
            // a burst: twenty clients that connect and go away, all of them ready when the server first looks (or one after the other)
            if kind != "tcptls" && kind != "duptls" && kind != "backlogtls" {
                out.push(format!("srvk {proto} {kind} ; {}", vec!["pre:close"; 20].join(" ; ")));
                out.push(format!("srvk {proto} {kind} ; {}", vec!["close"; 20].join(" ; ")));
            }
        }
    }
    out
}

async fn handler(_: http::Request<Body>) -> Result<http::Response<Body>, BoxError> {
    Ok(http::Response::new(Body::from("ok")))
}

trait Io: AsyncRead + AsyncWrite + Unpin + Send {}
impl<T: AsyncRead + AsyncWrite + Unpin + Send> Io for T {}

#[derive(Default)]
struct Backlog { queue: std::collections::VecDeque<duplex::DuplexStream>, waker: Option<std::task::Waker> }
struct BacklogIncoming(Arc<std::sync::Mutex<Backlog>>);
impl hyperdriver::server::conn::Accept for BacklogIncoming {
    type Conn = duplex::DuplexStream;
    type Error = std::io::Error;
    fn poll_accept(self: std::pin::Pin<&mut Self>, cx: &mut std::task::Context<'_>) -> std::task::Poll<Result<Self::Conn, Self::Error>> {
        let mut b = self.0.lock().unwrap();
        match b.queue.pop_front() {
            Some(s) => std::task::Poll::Ready(Ok(s)),
            None => { b.waker = Some(cx.waker().clone()); std::task::Poll::Pending }
        }
    }
}

enum Target { Tcp(std::net::SocketAddr), Unix(std::path::PathBuf), Duplex(duplex::DuplexClient), Backlog(Arc<std::sync::Mutex<Backlog>>) }

impl Target {
    async fn connect(&self, rst: bool) -> Option<Box<dyn Io>> {
        match self {
            Target::Tcp(a) => {
                let s = tokio::net::TcpStream::connect(a).await.ok()?;
                if rst { let _ = s.set_linger(Some(Duration::ZERO)); }
                Some(Box::new(s))
            }
            Target::Unix(p) => Some(Box::new(tokio::net::UnixStream::connect(p).await.ok()?)),
            Target::Duplex(c) => Some(Box::new(tokio::time::timeout(Duration::from_millis(300), c.connect(64 * 1024)).await.ok()?.ok()?)),
            Target::Backlog(b) => {
                let (client, server) = duplex::DuplexStream::new(64 * 1024);
                let mut b = b.lock().unwrap();
                b.queue.push_back(server);
                if let Some(w) = b.waker.take() { w.wake(); }
                Some(Box::new(client))
            }
        }
    }
}

async fn fault(t: &Target, f: &str, held: &mut Vec<Box<dyn Io>>, pre: bool) {
    // a duplex connect only completes once the server accepts: before the server runs it can only be queued and abandoned
    if pre && matches!(t, Target::Duplex(_)) {
        if let Target::Duplex(c) = t {
            let c = c.clone();
            let _ = tokio::time::timeout(Duration::from_millis(5), async move { c.connect(1024).await }).await;
        }
        return;
    }
    if let (Target::Unix(server), "bound" | "bound8" | "boundgone") = (t, f) {
        use std::os::unix::ffi::OsStrExt;
        static N: std::sync::atomic::AtomicUsize = std::sync::atomic::AtomicUsize::new(0);
        let k = N.fetch_add(1, std::sync::atomic::Ordering::SeqCst);
        let mut name = format!("hdverif-c{}-{k}", std::process::id()).into_bytes();
        if f == "bound8" { name.extend_from_slice(b"-\xff\xfe"); }
        name.extend_from_slice(b".sock");
        let path = std::env::temp_dir().join(std::ffi::OsStr::from_bytes(&name));
        let _ = std::fs::remove_file(&path);
        if let Ok(sock) = socket2::Socket::new(socket2::Domain::UNIX, socket2::Type::STREAM, None) {
            if let (Ok(me), Ok(srv)) = (socket2::SockAddr::unix(&path), socket2::SockAddr::unix(server)) {
                if sock.bind(&me).is_ok() {
                    if f == "boundgone" { let _ = std::fs::remove_file(&path); }
                    let _ = sock.connect(&srv);
                    tokio::time::sleep(Duration::from_millis(2)).await;
                }
            }
            drop(sock);
        }
        let _ = std::fs::remove_file(&path);
        return;
    }
    if let (Target::Duplex(c), "zero") = (t, f) {
        let _ = tokio::time::timeout(Duration::from_millis(300), c.connect(0)).await;
        return;
    }
    let Some(mut io) = t.connect(f == "rst").await else { return };
    match f {
        "garbage" => { let _ = io.write_all(b"\x00\x01garbage\r\n\r\n").await; }
        "half" => { let _ = io.write_all(b"GET /x HT").await; }
        "tlshalf" => { let _ = io.write_all(&[0x16, 0x03, 0x01, 0x00, 0x80, 0x01, 0x00, 0x00, 0x7c, 0x03, 0x03, 9, 9, 9]).await; }
        "stall" => { held.push(io); return; }
        _ => {}
    }
    let _ = io.flush().await;
    drop(io);
}

async fn probe(t: &Target, tls: bool) -> bool {
    let fut = async {
        let io = t.connect(false).await?;
        let req = b"GET /x HTTP/1.1\r\nhost: localhost\r\nconnection: close\r\n\r\n";
        let mut out = Vec::new();
        if tls {
            let cfg = crate::tls::client_config("-");
            let conn = tokio_rustls::TlsConnector::from(Arc::new(cfg));
            let mut s = conn.connect(ServerName::try_from("localhost").unwrap(), io).await.ok()?;
            s.write_all(req).await.ok()?;
            let _ = s.read_to_end(&mut out).await;
        } else {
            let mut s = io;
            s.write_all(req).await.ok()?;
            let _ = s.read_to_end(&mut out).await;
        }
        let s = String::from_utf8_lossy(&out);
        Some(s.starts_with("HTTP/1.1 200") && s.ends_with("ok"))
    };
    tokio::time::timeout(Duration::from_secs(3), fut).await.ok().flatten().unwrap_or(false)
}

async fn run_case(proto: &str, kind: &str, faults: &[&str]) -> String {
    crate::tls::install();
    let tls = kind.ends_with("tls");
    let mut sock_path = None;
    type Serve = std::pin::Pin<Box<dyn std::future::Future<Output = Result<(), hyperdriver::server::ServerError>> + Send>>;
    macro_rules! serve_on { ($acceptor:expr) => {{
        let acceptor = $acceptor;
        let s: Serve = if proto == "h1" {
            Box::pin(std::future::IntoFuture::into_future(Server::builder().with_acceptor(acceptor).with_shared_service(tower::service_fn(handler)).with_http1().with_tokio()))
        } else {
            Box::pin(std::future::IntoFuture::into_future(Server::builder().with_acceptor(acceptor).with_shared_service(tower::service_fn(handler)).with_auto_http().with_tokio()))
        };
        s
    }}; }
    let tls_cfg = || Arc::new(crate::tls::server_config("good", "-"));
    // the serving future is built now, but (like the stock acceptors' listeners) the listening end exists from here on
    let (target, build): (Target, Box<dyn FnOnce() -> Serve + Send>) = match kind {
        "unix" => {
            static N: std::sync::atomic::AtomicUsize = std::sync::atomic::AtomicUsize::new(0);
            let p = std::env::temp_dir().join(format!("hdverif-{}-{}.sock", std::process::id(), N.fetch_add(1, std::sync::atomic::Ordering::SeqCst)));
            let _ = std::fs::remove_file(&p);
            let l = tokio::net::UnixListener::bind(&p).unwrap();
            sock_path = Some(p.clone());
            let a = Acceptor::from(l);
            (Target::Unix(p), Box::new(move || serve_on!(a)))
        }
        "duptls" => {
            let (c, incoming) = duplex::pair();
            let a = Acceptor::from(incoming).with_tls(tls_cfg());
            (Target::Duplex(c), Box::new(move || serve_on!(a)))
        }
        "dupcap" => {
            let (c, incoming) = duplex::pair();
            let a = Acceptor::from(incoming.with_max_buf_size(4096));
            (Target::Duplex(c), Box::new(move || serve_on!(a)))
        }
        "backlog" => {
            let b: Arc<std::sync::Mutex<Backlog>> = Default::default();
            let a = Acceptor::new(BacklogIncoming(b.clone()));
            (Target::Backlog(b), Box::new(move || serve_on!(a)))
        }
        "backlogtls" => {
            let b: Arc<std::sync::Mutex<Backlog>> = Default::default();
            let a = Acceptor::new(BacklogIncoming(b.clone())).with_tls(tls_cfg());
            (Target::Backlog(b), Box::new(move || serve_on!(a)))
        }
        _ => {
            let l = tokio::net::TcpListener::bind((std::net::Ipv4Addr::LOCALHOST, 0)).await.unwrap();
            let addr = l.local_addr().unwrap();
            if tls { let a = Acceptor::from(l).with_tls(tls_cfg()); (Target::Tcp(addr), Box::new(move || serve_on!(a))) }
            else { let a = Acceptor::from(l); (Target::Tcp(addr), Box::new(move || serve_on!(a))) }
        }
    };
    let mut held = Vec::new();
    for f in faults.iter().filter_map(|f| f.strip_prefix("pre:")) {
        fault(&target, f, &mut held, true).await;
    }
    tokio::time::sleep(Duration::from_millis(30)).await; // let RSTs reach the backlog
    let serve = build();
    let task = tokio::spawn(serve);
    tokio::time::sleep(Duration::from_millis(5)).await;
    for f in faults.iter().filter(|f| !f.starts_with("pre:")) {
        fault(&target, f, &mut held, false).await;
        tokio::time::sleep(Duration::from_millis(3)).await;
    }
    let served = probe(&target, tls).await;
    let srv = if task.is_finished() {
        match task.await {
            Ok(Ok(())) => "OK",
            Ok(Err(hyperdriver::server::ServerError::Accept(_))) => "EA",
            Ok(Err(hyperdriver::server::ServerError::MakeService(_))) => "EM",
            Ok(Err(_)) => "EO",
            Err(_) => "PANIC",
        }
    } else {
        task.abort();
        "P"
    };
    drop(held);
    if let Some(p) = sock_path { let _ = std::fs::remove_file(p); }
    format!("{srv} {}", served as u8)
}

pub fn run(toks: &[&str]) -> String {
    let mut parts: Vec<Vec<&str>> = vec![vec![]];
    for t in toks { if *t == ";" { parts.push(vec![]); } else { parts.last_mut().unwrap().push(*t); } }
    if parts[0].len() != 2 { return "bad-input".into(); }
    let faults: Vec<&str> = parts[1..].iter().filter_map(|p| p.first().copied()).collect();
    let rt = tokio::runtime::Builder::new_current_thread().enable_all().build().unwrap();
    let (proto, kind) = (parts[0][0], parts[0][1]);
    rt.block_on(run_case(proto, kind, &faults))
}
