//! Stream `cfgp` (C15, configuration glue): a `Client` assembled by `Client::builder()` with a pool configuration
//! handed over in one of the ways the builder offers (`with_pool` on a fresh builder, after `with_default_pool`, after
//! `without_pool`, before the transport is chosen, twice, on `Builder::default()`, or by editing `pool()` in place),
//! over in-memory connections to a real hyperdriver server that counts its connections. A burst of `n` concurrent
//! HTTP/1.1 requests to one origin is answered only once all of them have arrived (so there are `n` connections),
//! everything is released, and after `wait` ms of real time one more request is made.
//!
//! line: `cfgp <seq 0-6> <max_idle_per_host> <idle_timeout ms|-> <n> <wait ms>`
//! obs : `<connections still open after the burst has settled> <connections accepted in all>` or `unreliable`
use crate::rng::Rng;
use http_body_util::BodyExt;
use hyperdriver::client::conn::transport::duplex::DuplexTransport;
use hyperdriver::server::conn::Acceptor;
use hyperdriver::stream::duplex;
use hyperdriver::{Body, Client, Server};
use std::sync::atomic::{AtomicUsize, Ordering};
use std::sync::Arc;
use std::time::{Duration, Instant};
use tower::ServiceExt;

type BoxError = Box<dyn std::error::Error + Send + Sync + 'static>;

pub fn gen(r: &mut Rng, _i: u64) -> String {
    let seq = r.below(7);
    let max = *r.pick(&[0u64, 1, 1, 2, 3, 40]);
    let timeout = *r.pick(&["-", "-", "80"]);
    let n = r.range(1, 5);
    let wait = *r.pick(&[5u64, 5, 200]);
    format!("{seq} {max} {timeout} {n} {wait}")
}

struct Shared { n: usize, arrived: AtomicUsize, all: tokio::sync::Notify, open: AtomicUsize, total: AtomicUsize }
struct Guard(Arc<Shared>);
impl Drop for Guard { fn drop(&mut self) { self.0.open.fetch_sub(1, Ordering::SeqCst); } }

pub fn run(toks: &[&str]) -> String {
    if toks.len() != 5 { return "bad-line".into(); }
    let num = |i: usize| toks[i].parse::<u64>().ok();
    let (Some(seq), Some(max), Some(n), Some(wait)) = (num(0), num(1), num(3), num(4)) else { return "bad-line".into() };
    let timeout = num(2).map(Duration::from_millis);
    let n = n.clamp(1, 16) as usize;
    let rt = tokio::runtime::Builder::new_current_thread().enable_all().build().unwrap();
    rt.block_on(async move {
        let sh = Arc::new(Shared { n, arrived: AtomicUsize::new(0), all: tokio::sync::Notify::new(), open: AtomicUsize::new(0), total: AtomicUsize::new(0) });
        let (client_end, incoming) = duplex::pair();
        let acceptor = Acceptor::from(incoming);
        let sh2 = sh.clone();
        let make = hyperdriver::service::make_service_fn(move |_io: &hyperdriver::server::conn::Stream| {
            let sh = sh2.clone();
            async move {
                sh.total.fetch_add(1, Ordering::SeqCst);
                sh.open.fetch_add(1, Ordering::SeqCst);
                let guard = Arc::new(Guard(sh.clone()));
                Ok::<_, BoxError>(tower::service_fn(move |req: http::Request<Body>| {
                    let (sh, _guard) = (sh.clone(), guard.clone());
                    async move {
                        if req.uri().path().starts_with("/burst") {
                            // answered only when the whole burst has arrived: every request of it has a connection of its own
                            if sh.arrived.fetch_add(1, Ordering::SeqCst) + 1 >= sh.n { sh.all.notify_waiters(); }
                            else { let w = sh.all.notified(); if sh.arrived.load(Ordering::SeqCst) < sh.n { w.await; } }
                        }
                        Ok::<_, BoxError>(http::Response::new(Body::from("ok")))
                    }
                }))
            }
        });
        let server = tokio::spawn(std::future::IntoFuture::into_future(Server::builder().with_acceptor(acceptor).with_make_service(make).with_auto_http().with_tokio()));

        let mut cfg = hyperdriver::client::pool::Config::default();
        cfg.max_idle_per_host = max as usize;
        cfg.idle_timeout = timeout;
        let mut other = hyperdriver::client::pool::Config::default();
        other.max_idle_per_host = 17;
        other.idle_timeout = Some(Duration::from_secs(3));
        let transport = DuplexTransport::new(64 * 1024, client_end);
        macro_rules! finish { ($b:expr) => { $b.with_auto_http().without_redirects().without_tls().with_timeout(Duration::from_secs(5)).build().into_inner() } }
        // the same configuration, handed to the builder in different ways
        let svc = match seq {
            0 => finish!(Client::builder().with_transport(transport).with_pool(cfg)).boxed_clone(),
            1 => finish!(Client::builder().with_transport(transport).with_default_pool().with_pool(cfg)).boxed_clone(),
            2 => finish!(Client::builder().with_transport(transport).without_pool().with_pool(cfg)).boxed_clone(),
            3 => finish!(Client::builder().with_pool(cfg).with_transport(transport)).boxed_clone(),
            4 => finish!(Client::builder().with_transport(transport).with_pool(other).with_pool(cfg)).boxed_clone(),
            5 => finish!(hyperdriver::client::Builder::default().with_transport(transport).with_pool(cfg)).boxed_clone(),
            _ => {
                let mut b = Client::builder().with_transport(transport).with_default_pool();
                if let Some(p) = b.pool() { p.max_idle_per_host = max as usize; p.idle_timeout = timeout; }
                finish!(b).boxed_clone()
            }
        };
        let request = |path: String| http::Request::builder().uri(format!("http://origin.test{path}")).body(Body::empty()).unwrap();
        let mut hs = vec![];
        for i in 0..n {
            let svc = svc.clone();
            let req = request(format!("/burst{i}"));
            hs.push(tokio::spawn(async move {
                let resp = svc.oneshot(req).await.map_err(|e| e.to_string())?;
                resp.into_body().collect().await.map(|_| ()).map_err(|e| e.to_string())
            }));
        }
        for h in hs { if !matches!(h.await, Ok(Ok(()))) { return "burst-failed".to_string(); } }
        let released = Instant::now();
        tokio::time::sleep(Duration::from_millis(20)).await;
        let open = sh.open.load(Ordering::SeqCst);
        tokio::time::sleep(Duration::from_millis(wait)).await;
        let late = released.elapsed().as_millis() as u64 > 20 + wait + 25;
        let ok = match svc.clone().oneshot(request("/follow".into())).await { Ok(r) => r.into_body().collect().await.is_ok(), Err(_) => false };
        let total = sh.total.load(Ordering::SeqCst);
        server.abort();
        if late { return "unreliable".into(); }
        if !ok { return "follow-up-failed".into(); }
        format!("{open} {total}")
    })
}
