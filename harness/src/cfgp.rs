//! Stream `cfgp` (C15, C05, C04, C19: configuration glue): a `Client` assembled by `Client::builder()` in one of the orders the
//! builder allows, over in-memory connections to a real hyperdriver server that counts its connections. What was configured -
//! pool limits, request timeout, redirect policy, user agent - must be what the client does, whichever builder calls came
//! before or after (several of them rebuild the builder value field by field).
//!   seq 0-6: the pool configuration handed over in different ways (`with_pool` on a fresh builder, after `with_default_pool`,
//!            after `without_pool`, before the transport is chosen, twice, on `Builder::default()`, edited through `pool()`)
//!   seq 7-15: everything configured first, then a chain of the calls that rebuild the builder: transport / protocol in
//!            either order, `with_tcp`, `with_protocol`, a redirect policy (limited / standard / none), `layer`, `with_body`
//! A burst of `n` concurrent HTTP/1.1 requests to one origin is answered only once all of them have arrived (so there are `n`
//! connections), everything is released, and after `wait` ms of real time one more request is made; then a request whose
//! handler takes 400 ms, and one that is answered with a redirect.
//!
//! line: `cfgp <seq> <max_idle_per_host> <idle_timeout ms|-> <n> <wait ms> <request timeout ms|-> <redirects n|s|l> <own user agent 0|1>`
//! obs : `<connections still open after the burst has settled> <connections accepted in all after the follow-up>
//!        ua=<0|1 the server saw the configured user agent> slow=<ok|timeout|err> redir=<status>` or `unreliable`
use crate::rng::Rng;
use http_body_util::BodyExt;
use hyperdriver::client::conn::protocol::auto::HttpConnectionBuilder;
use hyperdriver::client::conn::transport::duplex::DuplexTransport;
use hyperdriver::server::conn::Acceptor;
use hyperdriver::stream::duplex;
use hyperdriver::{Body, Client, Server};
use std::sync::atomic::{AtomicBool, AtomicUsize, Ordering};
use std::sync::Arc;
use std::time::{Duration, Instant};
use tower::ServiceExt;
use tower_http::follow_redirect::policy;

type BoxError = Box<dyn std::error::Error + Send + Sync + 'static>;
const UA: &str = "hdverif-agent/7";

pub fn gen(r: &mut Rng, _i: u64) -> String {
    let seq = r.below(16);
    let max = *r.pick(&[0u64, 1, 1, 2, 3, 40]);
    let timeout = *r.pick(&["-", "-", "80"]);
    let n = r.range(1, 5);
    let wait = *r.pick(&[5u64, 5, 200]);
    let rt = *r.pick(&["-", "150", "150", "5000"]);
    // (the chains 11-13 end with a redirect call of their own: limited / standard / none)
    let red = match seq { 11 => "l", 12 => "s", 13 => "n", _ => *r.pick(&["n", "s", "l"]) };
    format!("{seq} {max} {timeout} {n} {wait} {rt} {red} {}", r.chance(1, 2) as u8)
}

struct Shared { n: usize, arrived: AtomicUsize, all: tokio::sync::Notify, open: AtomicUsize, total: AtomicUsize, ua_ok: AtomicBool }
struct Guard(Arc<Shared>);
impl Drop for Guard { fn drop(&mut self) { self.0.open.fetch_sub(1, Ordering::SeqCst); } }

pub fn run(toks: &[&str]) -> String {
    if toks.len() != 8 { return "bad-line".into(); }
    let num = |i: usize| toks[i].parse::<u64>().ok();
    let (Some(seq), Some(max), Some(n), Some(wait)) = (num(0), num(1), num(3), num(4)) else { return "bad-line".into() };
    let timeout = num(2).map(Duration::from_millis);
    let req_timeout = num(5).map(Duration::from_millis);
    let (red, own_ua) = (toks[6].to_string(), toks[7] == "1");
    let n = n.clamp(1, 16) as usize;
    let rt = tokio::runtime::Builder::new_current_thread().enable_all().build().unwrap();
    rt.block_on(async move {
        let sh = Arc::new(Shared { n, arrived: AtomicUsize::new(0), all: tokio::sync::Notify::new(), open: AtomicUsize::new(0), total: AtomicUsize::new(0), ua_ok: AtomicBool::new(true) });
        let (client_end, incoming) = duplex::pair();
        let acceptor = Acceptor::from(incoming);
        let sh2 = sh.clone();
        let make = hyperdriver::service::make_service_fn(move |_io: &hyperdriver::server::conn::Stream| {
            let sh = sh2.clone();
            async move {
                sh.total.fetch_add(1, Ordering::SeqCst);
                sh.open.fetch_add(1, Ordering::SeqCst);
                let guard = Arc::new(Guard(sh.clone()));
                Ok::<_, BoxError>(tower::service_fn(move |req: http::Request<Body>| {
                    let (sh, _guard) = (sh.clone(), guard.clone());
                    async move {
                        if req.headers().get(http::header::USER_AGENT).and_then(|v| v.to_str().ok()) != Some(UA) { sh.ua_ok.store(false, Ordering::SeqCst); }
                        let path = req.uri().path();
                        if path.starts_with("/burst") {
                            // answered only when the whole burst has arrived: every request of it has a connection of its own
                            if sh.arrived.fetch_add(1, Ordering::SeqCst) + 1 >= sh.n { sh.all.notify_waiters(); }
                            else { let w = sh.all.notified(); if sh.arrived.load(Ordering::SeqCst) < sh.n { w.await; } }
                        } else if path == "/slow" {
                            tokio::time::sleep(Duration::from_millis(400)).await;
                        } else if path == "/redir" {
                            return Ok::<_, BoxError>(http::Response::builder().status(302).header("location", "/final").body(Body::empty()).unwrap());
                        }
                        Ok::<_, BoxError>(http::Response::new(Body::from("ok")))
                    }
                }))
            }
        });
        let server = tokio::spawn(std::future::IntoFuture::into_future(Server::builder().with_acceptor(acceptor).with_make_service(make).with_auto_http().with_tokio()));

        let mut cfg = hyperdriver::client::pool::Config::default();
        cfg.max_idle_per_host = max as usize;
        cfg.idle_timeout = timeout;
        let mut other = hyperdriver::client::pool::Config::default();
        other.max_idle_per_host = 17;
        other.idle_timeout = Some(Duration::from_secs(3));
        let transport = DuplexTransport::new(64 * 1024, client_end);
        // seq 0-6: the rest of the configuration comes last
        macro_rules! finish { ($b:expr) => {{
            let b = $b.with_auto_http().without_tls().with_optional_timeout(req_timeout);
            let b = if own_ua { b.with_user_agent(UA.to_string()) } else { b };
            match red.as_str() {
                "n" => b.without_redirects().build().into_inner().boxed_clone(),
                "s" => b.with_standard_redirect_policy().build().into_inner().boxed_clone(),
                _ => b.with_redirect_policy(policy::Limited::new(3)).build().into_inner().boxed_clone(),
            }
        }} }
        // seq 7-15: everything is configured first …
        macro_rules! first { () => {{
            let b = Client::builder().with_pool(cfg).with_optional_timeout(req_timeout);
            let b = if own_ua { b.with_user_agent(UA.to_string()) } else { b };
            b
        }} }
        // … the redirect policy included, where the chain does not end with one of its own
        macro_rules! chain { ($f:expr) => {{
            match red.as_str() {
                "n" => { let b = first!().without_redirects(); $f(b).without_tls().build().into_inner().boxed_clone() }
                "s" => { let b = first!().with_standard_redirect_policy(); $f(b).without_tls().build().into_inner().boxed_clone() }
                _ => { let b = first!().with_redirect_policy(policy::Limited::new(3)); $f(b).without_tls().build().into_inner().boxed_clone() }
            }
        }} }
        let svc = match seq {
            0 => finish!(Client::builder().with_transport(transport).with_pool(cfg)),
            1 => finish!(Client::builder().with_transport(transport).with_default_pool().with_pool(cfg)),
            2 => finish!(Client::builder().with_transport(transport).without_pool().with_pool(cfg)),
            3 => finish!(Client::builder().with_pool(cfg).with_transport(transport)),
            4 => finish!(Client::builder().with_transport(transport).with_pool(other).with_pool(cfg)),
            5 => finish!(hyperdriver::client::Builder::default().with_transport(transport).with_pool(cfg)),
            6 => {
                let mut b = Client::builder().with_transport(transport).with_default_pool();
                if let Some(p) = b.pool() { p.max_idle_per_host = max as usize; p.idle_timeout = timeout; }
                finish!(b)
            }
            7 => chain!(|b: hyperdriver::client::Builder<(), (), _>| b.with_transport(transport).with_auto_http()),
            8 => chain!(|b: hyperdriver::client::Builder<(), (), _>| b.with_auto_http().with_transport(transport)),
            9 => chain!(|b: hyperdriver::client::Builder<(), (), _>| b.with_tcp(Default::default()).with_transport(transport).with_auto_http()),
            10 => chain!(|b: hyperdriver::client::Builder<(), (), _>| b.with_transport(transport).with_protocol(HttpConnectionBuilder::<Body>::default())),
            11 => first!().with_transport(transport).with_auto_http().with_redirect_policy(policy::Limited::new(3)).without_tls().build().into_inner().boxed_clone(),
            12 => first!().with_transport(transport).with_auto_http().with_standard_redirect_policy().without_tls().build().into_inner().boxed_clone(),
            13 => first!().with_transport(transport).with_auto_http().without_redirects().without_tls().build().into_inner().boxed_clone(),
            14 => chain!(|b: hyperdriver::client::Builder<(), (), _>| b.with_transport(transport).with_auto_http().layer(tower::layer::util::Identity::new())),
            _ => chain!(|b: hyperdriver::client::Builder<(), (), _>| b.with_transport(transport).with_auto_http().with_body::<Body, Body>()),
        };
        let request = |path: String| http::Request::builder().uri(format!("http://origin.test{path}")).body(Body::empty()).unwrap();
        let mut hs = vec![];
        for i in 0..n {
            let svc = svc.clone();
            let req = request(format!("/burst{i}"));
            hs.push(tokio::spawn(async move {
                let resp = svc.oneshot(req).await.map_err(|e| e.to_string())?;
                resp.into_body().collect().await.map(|_| ()).map_err(|e| e.to_string())
            }));
        }
        for h in hs { if !matches!(h.await, Ok(Ok(()))) { return "burst-failed".to_string(); } }
        let released = Instant::now();
        tokio::time::sleep(Duration::from_millis(20)).await;
        // every task that is ready gets its turn before the count is read (a stalled machine may have fired the timer early)
        for _ in 0..200 { tokio::task::yield_now().await; }
        let open = sh.open.load(Ordering::SeqCst);
        tokio::time::sleep(Duration::from_millis(wait)).await;
        let late = released.elapsed().as_millis() as u64 > 20 + wait + 25;
        let ok = match svc.clone().oneshot(request("/follow".into())).await { Ok(r) => r.into_body().collect().await.is_ok(), Err(_) => false };
        let total = sh.total.load(Ordering::SeqCst);
        // the request timeout, the redirect policy and the user agent
        let slow = match svc.clone().oneshot(request("/slow".into())).await { Ok(_) => "ok", Err(hyperdriver::client::Error::RequestTimeout) => "timeout", Err(_) => "err" };
        let redir = match svc.clone().oneshot(request("/redir".into())).await { Ok(r) => r.status().as_u16().to_string(), Err(_) => "err".to_string() };
        let ua = sh.ua_ok.load(Ordering::SeqCst) as u8;
        server.abort();
        if late { return "unreliable".into(); }
        if !ok { return "follow-up-failed".into(); }
        format!("{open} {total} ua={ua} slow={slow} redir={redir}")
    })
}
