//! Stream `poolmt` (C02, C03, C06, C15): the real `ConnectionPoolService` over hyperdriver's own
//! `RequestExecutor` on a MULTI-THREADED runtime in real time, with a second OS thread hammering the
//! pool's mutex (the read-only snapshot hook) all the while. A workload derived from the line's seed:
//! requests to two origins (HTTP/1.1 and HTTP/2 mixed) start within a few milliseconds of each other,
//! some are dropped by their caller after 0-5 ms; every connection attempt terminates by itself after
//! 0-3 ms (ok / ok with ALPN h2 / connect failure / handshake failure); responses arrive after 0-3 ms,
//! connections become ready again a little later, some are closed by the peer. Nothing here is
//! deterministic, so nothing is compared with a model run; the observation is a verdict on what the
//! reachable-state theorems promise for EVERY interleaving:
//!   every request that was not dropped resolves (connection or error), and so does a fresh probe per
//!   origin afterwards (C03); no non-shareable connection carries two requests at once (C02); no request
//!   is executed on a connection dialled for another origin (C06); no idle list ever exceeds the limit (C15).
//!
//! line: `poolmt <seed> <worker threads> <requests> <cap 0|1> <max idle>`
//! obs : `stranded=<n> probes=<ok>/<n> double_use=<n> cross_origin=<n> idle_over=<0|1> panics=<n> done=<n> dropped=<n>`
use crate::rng::Rng;
use hyperdriver::client::conn::connection::ConnectionError;
use hyperdriver::client::conn::{Connection, ProtocolRequest, Transport};
use hyperdriver::client::pool::{PoolableConnection, PoolableStream};
use hyperdriver::client::ConnectionPoolService;
use hyperdriver::info::{ConnectionInfo, HasConnectionInfo};
use hyperdriver::service::RequestExecutor;
use hyperdriver::stream::duplex::DuplexAddr;
use hyperdriver::Body;
use std::future::Future;
use std::pin::Pin;
use std::sync::atomic::{AtomicBool, AtomicU64, AtomicUsize, Ordering};
use std::sync::{Arc, Mutex};
use std::task::{Context, Poll, Waker};
use std::time::Duration;
use tower::{Service, ServiceExt};

pub fn gen(r: &mut Rng, _i: u64) -> String {
    format!("{} {} {} {} {}", r.below(1 << 40), r.pick(&[2u64, 4, 8]), r.range(10, 60), r.chance(1, 2) as u8, r.pick(&[0u64, 1, 2, 32]))
}

const ORIGINS: &[&str] = &["http://a.example", "http://b.example:8080"];

#[derive(Debug)]
struct MErr(&'static str);
impl std::fmt::Display for MErr { fn fmt(&self, f: &mut std::fmt::Formatter<'_>) -> std::fmt::Result { write!(f, "{}", self.0) } }
impl std::error::Error for MErr {}

#[derive(Default)]
struct Stats { double_use: AtomicUsize, cross_origin: AtomicUsize, plan: Mutex<std::collections::HashMap<u64, Plan>> }
#[derive(Clone, Copy)]
struct Plan { connect_ms: u64, outcome: u8 /* 0 ok, 1 ok+alpn h2, 2 connect fails, 3 handshake fails */, respond_ms: u64, ready_ms: u64, peer_closes: bool }

fn req_of(h: &http::HeaderMap) -> u64 { h.get("x-req").and_then(|v| v.to_str().ok()).and_then(|s| s.parse().ok()).unwrap_or(u64::MAX) }
fn origin_of(uri: &http::Uri) -> usize { ORIGINS.iter().position(|o| o.parse::<http::Uri>().map(|u| u.authority() == uri.authority()).unwrap_or(false)).unwrap_or(99) }

struct MIo { origin: usize, plan: Plan }
impl HasConnectionInfo for MIo {
    type Addr = DuplexAddr;
    fn info(&self) -> ConnectionInfo<DuplexAddr> { ConnectionInfo { local_addr: DuplexAddr::new(), remote_addr: DuplexAddr::new() } }
}
impl PoolableStream for MIo { fn can_share(&self) -> bool { false } }

#[derive(Clone)]
struct MTransport(Arc<Stats>);
impl Transport for MTransport {
    type IO = MIo;
    type Error = MErr;
    type Future = Pin<Box<dyn Future<Output = Result<MIo, MErr>> + Send>>;
    fn connect(&mut self, parts: http::request::Parts) -> Self::Future {
        let plan = self.0.plan.lock().unwrap().get(&req_of(&parts.headers)).copied().unwrap_or(Plan { connect_ms: 0, outcome: 0, respond_ms: 0, ready_ms: 0, peer_closes: false });
        let origin = origin_of(&parts.uri);
        Box::pin(async move {
            tokio::time::sleep(Duration::from_millis(plan.connect_ms)).await;
            if plan.outcome == 2 { Err(MErr("connect")) } else { Ok(MIo { origin, plan }) }
        })
    }
    fn poll_ready(&mut self, _: &mut Context<'_>) -> Poll<Result<(), MErr>> { Poll::Ready(Ok(())) }
}

struct ConnState { h2: bool, origin: usize, open: AtomicBool, busy: AtomicBool, in_flight: AtomicUsize, wakers: Mutex<Vec<Waker>>, plan: Plan }
struct MConn { st: Arc<ConnState>, stats: Arc<Stats> }
impl Connection<Body> for MConn {
    type ResBody = Body;
    type Error = MErr;
    type Future = Pin<Box<dyn Future<Output = Result<http::Response<Body>, MErr>> + Send>>;
    fn send_request(&mut self, request: http::Request<Body>) -> Self::Future {
        let st = self.st.clone();
        if origin_of(request.uri()) != st.origin { self.stats.cross_origin.fetch_add(1, Ordering::SeqCst); }
        // two requests at once on a connection that cannot be shared
        if st.in_flight.fetch_add(1, Ordering::SeqCst) > 0 && !st.h2 { self.stats.double_use.fetch_add(1, Ordering::SeqCst); }
        if !st.h2 { st.busy.store(true, Ordering::SeqCst); }
        Box::pin(async move {
            tokio::time::sleep(Duration::from_millis(st.plan.respond_ms)).await;
            st.in_flight.fetch_sub(1, Ordering::SeqCst);
            // the connection reports ready a little after the response, or the peer closes it
            let st2 = st.clone();
            tokio::spawn(async move {
                tokio::time::sleep(Duration::from_millis(st2.plan.ready_ms)).await;
                if st2.plan.peer_closes { st2.open.store(false, Ordering::SeqCst); }
                st2.busy.store(false, Ordering::SeqCst);
                for w in st2.wakers.lock().unwrap().drain(..) { w.wake(); }
            });
            Ok(http::Response::new(Body::empty()))
        })
    }
    fn poll_ready(&mut self, cx: &mut Context<'_>) -> Poll<Result<(), MErr>> {
        if !self.st.open.load(Ordering::SeqCst) { return Poll::Ready(Err(MErr("closed"))); }
        if self.st.busy.load(Ordering::SeqCst) {
            self.st.wakers.lock().unwrap().push(cx.waker().clone());
            // re-check: the flag may have been cleared between the load and the registration
            if self.st.busy.load(Ordering::SeqCst) && self.st.open.load(Ordering::SeqCst) { return Poll::Pending; }
        }
        if !self.st.open.load(Ordering::SeqCst) { return Poll::Ready(Err(MErr("closed"))); }
        Poll::Ready(Ok(()))
    }
    fn version(&self) -> http::Version { if self.st.h2 { http::Version::HTTP_2 } else { http::Version::HTTP_11 } }
}
impl PoolableConnection<Body> for MConn {
    fn is_open(&self) -> bool { self.st.open.load(Ordering::SeqCst) && !self.st.busy.load(Ordering::SeqCst) }
    fn can_share(&self) -> bool { self.st.h2 }
    fn reuse(&mut self) -> Option<Self> { if self.st.h2 { Some(MConn { st: self.st.clone(), stats: self.stats.clone() }) } else { None } }
}

#[derive(Clone)]
struct MProtocol(Arc<Stats>);
impl Service<ProtocolRequest<MIo, Body>> for MProtocol {
    type Response = MConn;
    type Error = ConnectionError;
    type Future = std::future::Ready<Result<MConn, ConnectionError>>;
    fn poll_ready(&mut self, _: &mut Context<'_>) -> Poll<Result<(), ConnectionError>> { Poll::Ready(Ok(())) }
    fn call(&mut self, req: ProtocolRequest<MIo, Body>) -> Self::Future {
        let io = req.transport;
        if io.plan.outcome == 3 { return std::future::ready(Err(ConnectionError::Handshake(Box::new(MErr("handshake"))))); }
        let h2 = req.version.multiplex() || io.plan.outcome == 1;
        let st = Arc::new(ConnState { h2, origin: io.origin, open: AtomicBool::new(true), busy: AtomicBool::new(false), in_flight: AtomicUsize::new(0), wakers: Mutex::new(vec![]), plan: io.plan });
        std::future::ready(Ok(MConn { st, stats: self.0.clone() }))
    }
}

type Svc = ConnectionPoolService<MTransport, MProtocol, RequestExecutor<hyperdriver::client::pool::Pooled<MConn, Body>, Body>, Body>;

pub fn run(toks: &[&str]) -> String {
    if toks.len() != 5 { return "bad-line".into(); }
    let n = |i: usize| toks[i].parse::<u64>().unwrap_or(0);
    let (seed, threads, nreq, cap, max_idle) = (n(0), n(1).clamp(1, 16) as usize, n(2).min(500), toks[3] == "1", n(4) as usize);
    let mut rng = Rng::new(seed ^ 0x9e3779b97f4a7c15);
    let stats: Arc<Stats> = Default::default();
    let mut pc = hyperdriver::client::pool::Config::default();
    pc.max_idle_per_host = max_idle;
    pc.continue_after_preemption = cap;
    pc.idle_timeout = None;
    let svc: Svc = ConnectionPoolService::new(MTransport(stats.clone()), MProtocol(stats.clone()), RequestExecutor::new(), pc);
    // workload
    struct W { id: u64, origin: usize, mux: bool, start_ms: u64, drop_after: Option<u64> }
    let mut work = vec![];
    for id in 0..nreq {
        let outcome = match rng.below(20) { 0 | 1 => 2, 2 => 3, 3 | 4 => 1, _ => 0 };
        stats.plan.lock().unwrap().insert(id, Plan { connect_ms: rng.below(4), outcome, respond_ms: rng.below(4), ready_ms: rng.below(3), peer_closes: rng.chance(1, 15) });
        work.push(W { id, origin: rng.below(ORIGINS.len() as u64) as usize, mux: rng.chance(2, 5), start_ms: rng.below(12), drop_after: if rng.chance(1, 3) { Some(rng.below(6)) } else { None } });
    }
    for k in 0..(2 * ORIGINS.len() as u64) { stats.plan.lock().unwrap().insert(1_000_000 + k, Plan { connect_ms: 1, outcome: 0, respond_ms: 0, ready_ms: 0, peer_closes: false }); }

    let panics_before = crate::np::PANICS.load(Ordering::SeqCst);
    let stop = Arc::new(AtomicBool::new(false));
    let idle_over = Arc::new(AtomicBool::new(false));
    let snaps = Arc::new(AtomicU64::new(0));
    // the thread that keeps the pool's mutex busy
    let spinner = {
        let (svc, stop, idle_over, snaps) = (svc.clone(), stop.clone(), idle_over.clone(), snaps.clone());
        std::thread::spawn(move || {
            while !stop.load(Ordering::Relaxed) {
                if let Some(s) = svc.verif_snapshot(|_| 0) {
                    if s.idle.iter().any(|(_, l)| l.len() > max_idle) { idle_over.store(true, Ordering::SeqCst); }
                }
                snaps.fetch_add(1, Ordering::Relaxed);
                if snaps.load(Ordering::Relaxed) % 64 == 0 { std::thread::yield_now(); }
            }
        })
    };
    let rt = tokio::runtime::Builder::new_multi_thread().worker_threads(threads).enable_all().build().unwrap();
    let request = |id: u64, origin: usize, mux: bool| {
        http::Request::builder().uri(format!("{}/r{id}", ORIGINS[origin])).version(if mux { http::Version::HTTP_2 } else { http::Version::HTTP_11 })
            .header("x-req", id.to_string()).body(Body::empty()).unwrap()
    };
    let limit = Duration::from_secs(10);
    let (stranded, done, dropped, probes_ok, nprobes) = rt.block_on(async {
        let mut handles = vec![];
        for w in work {
            let svc = svc.clone();
            let req = request(w.id, w.origin, w.mux);
            handles.push(tokio::spawn(async move {
                tokio::time::sleep(Duration::from_millis(w.start_ms)).await;
                let fut = svc.oneshot(req);
                match w.drop_after {
                    // 0 = resolved, 1 = dropped by the caller, 2 = still pending after the limit
                    Some(d) => tokio::select! { _ = fut => 0u8, _ = tokio::time::sleep(Duration::from_millis(d)) => 1u8 },
                    None => match tokio::time::timeout(limit, fut).await { Ok(_) => 0u8, Err(_) => 2u8 },
                }
            }));
        }
        let (mut stranded, mut done, mut dropped) = (0, 0, 0);
        for h in handles { match h.await { Ok(0) => done += 1, Ok(1) => dropped += 1, _ => stranded += 1 } }
        // let hand-backs and background attempts settle, then a fresh probe per origin and protocol
        tokio::time::sleep(Duration::from_millis(40)).await;
        let mut ok = 0;
        let mut np = 0;
        for (k, (origin, mux)) in [(0usize, false), (0, true), (1, false), (1, true)].into_iter().enumerate() {
            np += 1;
            let fut = svc.clone().oneshot(request(1_000_000 + k as u64, origin, mux));
            // (a probe may legitimately end in an error - what it may not do is hang)
            if tokio::time::timeout(limit, fut).await.is_ok() { ok += 1; }
        }
        (stranded, done, dropped, ok, np)
    });
    stop.store(true, Ordering::SeqCst);
    let _ = spinner.join();
    rt.shutdown_timeout(Duration::from_millis(200));
    format!("stranded={stranded} probes={probes_ok}/{nprobes} double_use={} cross_origin={} idle_over={} panics={} done={done} dropped={dropped}",
        stats.double_use.load(Ordering::SeqCst), stats.cross_origin.load(Ordering::SeqCst), idle_over.load(Ordering::SeqCst) as u8,
        crate::np::PANICS.load(Ordering::SeqCst) - panics_before)
}
