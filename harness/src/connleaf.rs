//! Stream `conn` (C02): the leaf contract the pool relies on. The pool model abstracts a non-shareable
//! connection as `open && !busy`: `is_open()` must not say "open" while the connection cannot take a request
//! (`poll_ready` pending or failed) - `WhenReady::drop` and `IdleConnections::pop` trust `is_open()` alone.
//! Here hyperdriver's own `HttpConnection` (HTTP/1.1 through `Protocol::connect` over a duplex, real hyper
//! underneath) is walked through an exchange by a scripted raw peer, and after every step
//! `is_open()`, `poll_ready()` and `can_share()` are read at the same instant.
//!
//! line: `conn h2 <op> …`: the same for an HTTP/2 `HttpConnection` against a real hyper HTTP/2 server on the other end of the duplex
//!       (ops `send` | `poll` | `close` the server goes away | `idle` nothing): it can be shared, and it reports open until the peer is gone.
//! line: `conn <op> <op> …`   op: `send` request | `head` peer sends the response head and part of the body
//!       | `rest` peer sends the rest of the body | `poll` poll the response future | `body` read the body to its end
//!       | `dropresp` drop the response / its body unread | `close` peer closes
//! obs : per op `<is_open 0|1><ready R|P|E><can_share 0|1>`
use crate::rng::Rng;
use hyperdriver::client::conn::protocol::HttpProtocol;
use hyperdriver::client::conn::{Connection, Protocol};
use hyperdriver::client::pool::PoolableConnection;
use hyperdriver::stream::duplex::DuplexStream;
use hyperdriver::Body;
use http_body_util::BodyExt;
use std::future::Future;
use std::task::{Context, Poll, Waker};
use tokio::io::{AsyncReadExt, AsyncWriteExt};

const OPS: &[&str] = &["send", "head", "rest", "poll", "body", "dropresp", "close", "poll", "head", "send"];

pub fn gen(r: &mut Rng, i: u64) -> String {
    if i % 5 == 4 {
        let n = r.range(1, 8);
        let mut ops: Vec<&str> = (0..n).map(|_| *r.pick(&["send", "poll", "idle", "send", "poll", "close"])).collect();
        if r.chance(1, 2) { ops.push("close"); ops.push("idle"); }
        return format!("h2 {}", ops.join(" "));
    }
    if i % 4 == 0 {
        // a well-formed exchange, cut short at a random point, possibly followed by a second one
        let full = ["send", "head", "poll", "rest", "body", "send", "head", "poll", "rest", "body"];
        let n = r.range(1, full.len() as u64) as usize;
        let mut ops: Vec<&str> = full[..n].to_vec();
        if r.chance(1, 3) { ops.push(*r.pick(&["close", "dropresp", "poll"])); }
        return ops.join(" ");
    }
    let n = r.range(1, 10);
    (0..n).map(|_| *r.pick(OPS)).collect::<Vec<_>>().join(" ")
}

async fn settle() { for _ in 0..4 { tokio::time::sleep(std::time::Duration::from_millis(1)).await; } }

fn run_h2(ops: Vec<String>) -> String {
    let rt = tokio::runtime::Builder::new_current_thread().enable_all().start_paused(true).build().unwrap();
    rt.block_on(async move {
        let (a, b) = DuplexStream::new(1 << 16);
        let server = tokio::spawn(async move {
            let svc = hyper::service::service_fn(|_req: http::Request<hyper::body::Incoming>| async { Ok::<_, std::convert::Infallible>(http::Response::new(Body::empty())) });
            let _ = hyper::server::conn::http2::Builder::new(hyperdriver::bridge::rt::TokioExecutor::new())
                .serve_connection(hyperdriver::bridge::io::TokioIo::new(b), svc).await;
        });
        let mut builder = hyper::client::conn::http2::Builder::new(hyperdriver::bridge::rt::TokioExecutor::new());
        let mut conn = match Protocol::<DuplexStream, Body>::connect(&mut builder, a, HttpProtocol::Http2).await {
            Ok(c) => c,
            Err(_) => return "handshake-failed".to_string(),
        };
        let mut pending = vec![];
        let mut out = vec![];
        for op in &ops {
            match op.as_str() {
                "send" => {
                    let req = http::Request::builder().uri("http://example.com/x").version(http::Version::HTTP_2).body(Body::empty()).unwrap();
                    pending.push(Box::pin(conn.send_request(req)));
                }
                "poll" => {
                    let mut cx = Context::from_waker(Waker::noop());
                    pending.retain_mut(|f| f.as_mut().poll(&mut cx).is_pending());
                }
                "close" => { server.abort(); }
                _ => {}
            }
            settle().await;
            let open = conn.is_open();
            let share = conn.can_share();
            let mut cx = Context::from_waker(Waker::noop());
            let ready = match conn.poll_ready(&mut cx) { Poll::Ready(Ok(())) => 'R', Poll::Ready(Err(_)) => 'E', Poll::Pending => 'P' };
            out.push(format!("{}{ready}{}", open as u8, share as u8));
        }
        out.join(" ")
    })
}

pub fn run(toks: &[&str]) -> String {
    if toks.first() == Some(&"h2") { return run_h2(toks[1..].iter().map(|s| s.to_string()).collect()); }
    let rt = tokio::runtime::Builder::new_current_thread().enable_all().start_paused(true).build().unwrap();
    let ops: Vec<String> = toks.iter().map(|s| s.to_string()).collect();
    rt.block_on(async move {
        let (a, b) = DuplexStream::new(1 << 16);
        let mut peer = Some(b);
        let mut builder = hyper::client::conn::http1::Builder::new();
        let mut conn = match Protocol::<DuplexStream, Body>::connect(&mut builder, a, HttpProtocol::Http1).await {
            Ok(c) => c,
            Err(_) => return "handshake-failed".to_string(),
        };
        let mut pending: Option<std::pin::Pin<Box<dyn Future<Output = Result<http::Response<hyper::body::Incoming>, hyper::Error>> + Send>>> = None;
        let mut response: Option<http::Response<hyper::body::Incoming>> = None;
        let mut sent_head = false;
        let mut out = vec![];
        for op in &ops {
            match op.as_str() {
                "send" => {
                    // (the pool only sends on a connection it believes ready; sending on a busy one is the caller's error
                    // and hyper answers it with an error future - still a legal step for this walk)
                    if pending.is_none() && response.is_none() {
                        let req = http::Request::builder().uri("http://example.com/x").body(Body::empty()).unwrap();
                        let fut = conn.send_request(req);
                        pending = Some(Box::pin(async move { fut.await }));
                        sent_head = false;
                    }
                }
                "head" => {
                    if let Some(p) = peer.as_mut() {
                        if pending.is_some() && !sent_head {
                            // make sure the request has reached the peer first
                            settle().await;
                            let mut buf = [0u8; 4096];
                            let _ = tokio::time::timeout(std::time::Duration::from_millis(5), p.read(&mut buf)).await;
                            let _ = p.write_all(b"HTTP/1.1 200 OK\r\ncontent-length: 10\r\n\r\nhello").await;
                            let _ = p.flush().await;
                            sent_head = true;
                        }
                    }
                }
                "rest" => {
                    if let Some(p) = peer.as_mut() {
                        if sent_head { let _ = p.write_all(b"world").await; let _ = p.flush().await; sent_head = false; }
                    }
                }
                "poll" => {
                    if let Some(f) = pending.as_mut() {
                        let mut cx = Context::from_waker(Waker::noop());
                        if let Poll::Ready(r) = f.as_mut().poll(&mut cx) {
                            pending = None;
                            if let Ok(resp) = r { response = Some(resp); }
                        }
                    }
                }
                "body" => {
                    if let Some(resp) = response.take() {
                        let _ = tokio::time::timeout(std::time::Duration::from_millis(20), resp.into_body().collect()).await;
                    }
                }
                "dropresp" => { response = None; pending = None; }
                "close" => { peer = None; }
                _ => {}
            }
            settle().await;
            let open = conn.is_open();
            let share = conn.can_share();
            let mut cx = Context::from_waker(Waker::noop());
            let ready = match conn.poll_ready(&mut cx) { Poll::Ready(Ok(())) => 'R', Poll::Ready(Err(_)) => 'E', Poll::Pending => 'P' };
            out.push(format!("{}{ready}{}", open as u8, share as u8));
        }
        out.join(" ")
    })
}
