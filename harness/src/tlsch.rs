//! Stream `tlsch` (C20): the channel on which the TLS acceptor hands a connection's `TlsConnectionInfo` to the
//! connection's service - every request on the connection calls `recv()` on a clone of the receiver, before or after
//! the acceptor's `send`, and `ValidateSNI` treats a request that comes back with `None` as "not a TLS connection".
//! `recv()` futures are created, polled one poll at a time, and dropped (a cancelled request) in any order around the send.
//!
//! line: `tlsch <t|e> ; <op>*`    t = `channel()`, e = `TlsConnectionInfoReciever::empty()` (a connection without TLS)
//!   op: `n<i>` a request calls recv (future i, not yet polled) | `p<i>` poll it | `d<i>` drop it | `s` the acceptor sends the info
//! obs per op: `-` (n, d, s) | `P` pending | `S` Some(the info sent) | `W` Some(something else) | `N` None | `D` polled after completion | `X` panic
use crate::rng::Rng;
use hyperdriver::info::TlsConnectionInfo;
use hyperdriver::verif_hooks::tls_info;
use std::collections::HashMap;
use std::future::Future;
use std::pin::Pin;
use std::sync::Arc;
use std::task::{Context, Poll, Wake, Waker};

struct Noop;
impl Wake for Noop { fn wake(self: Arc<Self>) {} }

pub fn gen(r: &mut Rng, _i: u64) -> String {
    let kind = if r.chance(1, 8) { "e" } else { "t" };
    let n = r.range(1, 5);
    let mut ops: Vec<String> = vec![];
    let mut live: Vec<u64> = vec![];
    let mut next = 0u64;
    let mut sent = false;
    let send_at = r.below(14);
    for step in 0..r.range(4, 18) {
        if step == send_at && !sent { ops.push("s".into()); sent = true; continue; }
        match r.below(10) {
            0..=2 if next < n => { ops.push(format!("n{next}")); live.push(next); next += 1; }
            3..=7 if !live.is_empty() => { ops.push(format!("p{}", r.pick(&live))); }
            8 if !live.is_empty() => { let k = r.below(live.len() as u64) as usize; ops.push(format!("d{}", live.remove(k))); }
            _ => { if next < n { ops.push(format!("n{next}")); live.push(next); next += 1; } }
        }
    }
    // afterwards the info is there: a late request asks too, and everybody still waiting is polled in rounds - the lock is fair,
    // so in the worst case one waiter gets through per round: as many rounds as there are waiters, and one more
    if !sent { ops.push("s".into()); }
    ops.push(format!("n{next}")); live.push(next);
    for _ in 0..live.len() + 1 { for i in &live { ops.push(format!("p{i}")); } }
    format!("{kind} ; {}", ops.join(" "))
}

pub fn run(toks: &[&str]) -> String {
    if toks.len() < 2 || toks[1] != ";" { return "bad-line".into(); }
    let (mut tx, rx) = match toks[0] { "t" => { let (tx, rx) = tls_info::new(); (Some(tx), rx) } "e" => (None, tls_info::empty()), _ => return "bad-line".into() };
    let info = TlsConnectionInfo { server_name: Some("example.com".into()), validated_server_name: false, alpn: None };
    type Fut = Pin<Box<dyn Future<Output = Option<TlsConnectionInfo>>>>;
    let mut futs: HashMap<u64, Option<Fut>> = HashMap::new();
    let waker = Waker::from(Arc::new(Noop));
    let mut out: Vec<String> = vec![];
    for op in &toks[2..] {
        let i = op[1..].parse::<u64>().unwrap_or(0);
        let o = match op.as_bytes()[0] {
            b'n' => { let rx = rx.clone(); futs.insert(i, Some(Box::pin(async move { rx.recv().await }))); "-".to_string() }
            b'd' => { futs.insert(i, None); "-".to_string() }
            b's' => { if let Some(tx) = tx.as_mut() { tx.send(info.clone()); } "-".to_string() }
            b'p' => match futs.get_mut(&i) {
                Some(Some(f)) => {
                    let mut cx = Context::from_waker(&waker);
                    match std::panic::catch_unwind(std::panic::AssertUnwindSafe(|| f.as_mut().poll(&mut cx))) {
                        Err(_) => { futs.insert(i, None); "X".into() }
                        Ok(Poll::Pending) => "P".into(),
                        Ok(Poll::Ready(v)) => { futs.insert(i, None); match v { None => "N".into(), Some(x) => if x.server_name == info.server_name { "S".into() } else { "W".into() } } }
                    }
                }
                _ => "D".into(),
            },
            _ => return "bad-line".into(),
        };
        out.push(o);
    }
    out.join(" ")
}
