//! Stream `pool` (C02–C06, C14, C15, clean-up half of C19): the real `ConnectionPoolService` driven
//! through its public API, one poll / drop / environment event at a time, with a scripted
//! `Transport`, `Protocol`, `PoolableConnection` and inner service. Spawned tasks (`WhenReady`,
//! delayed-drop checkouts) only run at the `run` op (current-thread runtime, paused clock).
//!
//! line: `pool <idleTimeoutMs|-> <maxIdle> <cap 0|1> ; <op> ; <op> …`
//!   idleTimeout: `-` none, `<ms>`, `u<µs>` (a timeout below one millisecond), or `max` (`Duration::MAX`)
//!   op: `i r k mux` issue | `p r` poll | `c r` cancel | `d r ok0|ok1|okp|fc|fh` dial outcome (okp: the protocol
//!       comes back with a connection that cannot be shared, whatever the request asked for) | `f r` the response
//!       arrives | `cr c` connection ready again | `cc c` peer closes connection | `ce c` a released, still busy connection's
//!       readiness poll answers with an error (its transport stays open) | `run`
//!       | `t ms` (real sleep, tokio's paused clock advanced by as much, no task runs) | `mark`
//!       | `co r` a request that holds a connection is dropped outside any tokio runtime
//!       | `hold` another thread takes the pool's mutex and keeps it for 10 ms of real time: the next op runs into it (for
//!         the model nothing happens: whoever needs the mutex waits for it)
//!       | `shutdown` the runtime that hosts the spawned tasks is shut down (every task is dropped) while the pool lives on;
//!         the following ops run on a fresh runtime
//! The inner service is hyperdriver's own `RequestExecutor`; the scripted connection's response future
//! completes at `f r`, and its readiness (`cr c`) is scripted independently of that.
//! obs per op: `<res> <connecting> <waiting> <idle> <h1drops> <dials>`, ops separated by ` ; `
//!   res: D done | N no-op | P pending | G<c>.<reused>.<originKey>.<h2> | E<k> | X panic, `w` appended when the
//!        request's waker fired since its previous poll
use crate::rng::Rng;
use hyperdriver::client::conn::connection::ConnectionError;
use hyperdriver::client::conn::{Connection, ProtocolRequest, Transport};
use hyperdriver::client::pool::{PoolableConnection, PoolableStream, Pooled};
use hyperdriver::client::ConnectionPoolService;
use hyperdriver::info::{ConnectionInfo, HasConnectionInfo};
use hyperdriver::service::{ExecuteRequest, RequestExecutor};
use hyperdriver::stream::duplex::DuplexAddr;
use hyperdriver::Body;
use std::collections::{HashMap, HashSet};
use std::future::Future;
use std::pin::Pin;
use std::sync::atomic::{AtomicBool, Ordering};
use std::sync::{Arc, Mutex};
use std::task::{Context, Poll, Wake, Waker};
use tower::Service;

/// (scheme, authority) of the origins used; spelling variants map to the same pool key.
pub const KEYS: &[&[&str]] = &[
    &["http://a.example", "http://A.Example", "HTTP://a.example"],
    &["https://a.example", "https://A.EXAMPLE"],
    &["http://a.example:8080", "http://A.example:8080"],
    &["http://b.example", "http://B.example"],
    // origins that differ from one above only in scheme or in a port that is "default" for the other scheme
    &["http://a.example:443", "http://A.example:443"],
    &["https://a.example:80"],
    &["ws://a.example:8080"],
    &["wss://a.example:8080", "wss://A.Example:8080"],
    // user information in the authority, same host, different ports
    &["http://user:pw@c.example:8001"],
    &["http://user:pw@c.example:8002"],
    // IPv6 literals: same address, different ports; a different address
    &["http://[::1]:8001"],
    &["http://[::1]:8002"],
    &["http://[2001:db8::7]:8001"],
    // a relative and an absolute host name (trailing dot): different authorities, possibly different hosts
    &["http://d.example:8080"],
    &["http://d.example.:8080"],
];
/// groups of keys that a sloppy pool key could confuse
const CONFUSABLE: &[&[u64]] = &[&[0, 4], &[1, 5], &[2, 6], &[2, 7], &[6, 7], &[0, 1], &[0, 2], &[0, 3], &[8, 9], &[10, 11], &[10, 12], &[8, 9, 11], &[13, 14], &[13, 14, 2]];

fn key_of_uri(uri: &http::Uri) -> usize {
    if let Some(k) = uri.host().and_then(|h| h.strip_prefix('n')).and_then(|h| h.strip_suffix(".example")).and_then(|k| k.parse::<usize>().ok()) { return k; }
    let s = format!("{}://{}", uri.scheme_str().unwrap_or("").to_ascii_lowercase(), uri.authority().map(|a| a.as_str().to_ascii_lowercase()).unwrap_or_default());
    KEYS.iter().position(|vs| vs[0] == s).unwrap_or(99)
}

#[derive(Clone, Copy, PartialEq, Debug)]
enum Outcome { Ok(bool, bool), FailConnect, FailHandshake } // Ok(alpn chose h2, not shareable)

#[derive(Default)]
struct DialSlot { started: bool, outcome: Option<Outcome>, waker: Option<Waker> }

struct ConnState {
    lax: bool, // `is_open()` reports only whether the peer closed, not readiness
    h2: bool,
    origin: usize,
    open: AtomicBool,
    busy: AtomicBool,
    /// `poll_ready` answers with an error although the transport is open (the connection was taken over by an upgrade, say)
    failed: AtomicBool,
    wakers: Mutex<Vec<Waker>>,
}

#[derive(Default)]
struct World {
    lax: bool,
    dials: HashMap<usize, DialSlot>,
    dial_count: usize,
    conns: Vec<Arc<ConnState>>,
    execs: Vec<(usize, usize, bool)>, // (req, conn, is_reused)
    reused: HashMap<usize, bool>,
    finished: HashSet<usize>,
    exec_wakers: HashMap<usize, Waker>,
    h1_drops: usize,
}
type W = Arc<Mutex<World>>;

fn req_of(h: &http::HeaderMap) -> usize { h.get("x-req").and_then(|v| v.to_str().ok()).and_then(|s| s.parse().ok()).unwrap_or(9999) }

// ---- transport
#[derive(Debug)]
struct SErr(&'static str);
impl std::fmt::Display for SErr { fn fmt(&self, f: &mut std::fmt::Formatter<'_>) -> std::fmt::Result { write!(f, "{}", self.0) } }
impl std::error::Error for SErr {}

struct SIo { req: usize, origin: usize, alpn: bool, plain: bool, handshake_fails: bool }
impl HasConnectionInfo for SIo {
    type Addr = DuplexAddr;
    fn info(&self) -> ConnectionInfo<DuplexAddr> { ConnectionInfo { local_addr: DuplexAddr::new(), remote_addr: DuplexAddr::new() } }
}
impl PoolableStream for SIo { fn can_share(&self) -> bool { false } }

#[derive(Clone)]
struct STransport(W);
struct SDial { w: W, req: usize, origin: usize }
impl Future for SDial {
    type Output = Result<SIo, SErr>;
    fn poll(self: Pin<&mut Self>, cx: &mut Context<'_>) -> Poll<Self::Output> {
        let mut w = self.w.lock().unwrap();
        let slot = w.dials.entry(self.req).or_default();
        match slot.outcome {
            None => { slot.waker = Some(cx.waker().clone()); Poll::Pending }
            Some(Outcome::FailConnect) => Poll::Ready(Err(SErr("connect"))),
            Some(Outcome::Ok(alpn, plain)) => Poll::Ready(Ok(SIo { req: self.req, origin: self.origin, alpn, plain, handshake_fails: false })),
            Some(Outcome::FailHandshake) => Poll::Ready(Ok(SIo { req: self.req, origin: self.origin, alpn: false, plain: false, handshake_fails: true })),
        }
    }
}
impl Transport for STransport {
    type IO = SIo;
    type Error = SErr;
    type Future = SDial;
    fn connect(&mut self, parts: http::request::Parts) -> SDial {
        let req = req_of(&parts.headers);
        let mut w = self.0.lock().unwrap();
        w.dial_count += 1;
        w.dials.entry(req).or_default().started = true;
        SDial { w: self.0.clone(), req, origin: key_of_uri(&parts.uri) }
    }
    fn poll_ready(&mut self, _: &mut Context<'_>) -> Poll<Result<(), SErr>> { Poll::Ready(Ok(())) }
}

// ---- connection
struct SConn { id: usize, st: Arc<ConnState>, w: W }
impl Drop for SConn {
    fn drop(&mut self) { if !self.st.h2 { self.w.lock().unwrap().h1_drops += 1; } }
}
impl Connection<Body> for SConn {
    type ResBody = Body;
    type Error = SErr;
    type Future = SSend;
    fn send_request(&mut self, request: http::Request<Body>) -> SSend {
        let req = req_of(request.headers());
        if !self.st.h2 { self.st.busy.store(true, Ordering::SeqCst); }
        let mut w = self.w.lock().unwrap();
        let reused = w.reused.get(&req).copied().unwrap_or(false);
        w.execs.push((req, self.id, reused));
        SSend { w: self.w.clone(), req }
    }
    fn poll_ready(&mut self, cx: &mut Context<'_>) -> Poll<Result<(), SErr>> {
        if !self.st.open.load(Ordering::SeqCst) { return Poll::Ready(Err(SErr("closed"))); }
        if self.st.failed.load(Ordering::SeqCst) { return Poll::Ready(Err(SErr("not an http connection any more"))); }
        if self.st.busy.load(Ordering::SeqCst) { self.st.wakers.lock().unwrap().push(cx.waker().clone()); return Poll::Pending; }
        Poll::Ready(Ok(()))
    }
    fn version(&self) -> http::Version { if self.st.h2 { http::Version::HTTP_2 } else { http::Version::HTTP_11 } }
}
impl PoolableConnection<Body> for SConn {
    fn is_open(&self) -> bool { self.st.open.load(Ordering::SeqCst) && (self.st.lax || !self.st.busy.load(Ordering::SeqCst)) }
    fn can_share(&self) -> bool { self.st.h2 }
    fn reuse(&mut self) -> Option<Self> { if self.st.h2 { Some(SConn { id: self.id, st: self.st.clone(), w: self.w.clone() }) } else { None } }
}

// ---- protocol
#[derive(Clone)]
struct SProtocol(W);
impl Service<ProtocolRequest<SIo, Body>> for SProtocol {
    type Response = SConn;
    type Error = ConnectionError;
    type Future = std::future::Ready<Result<SConn, ConnectionError>>;
    fn poll_ready(&mut self, _: &mut Context<'_>) -> Poll<Result<(), ConnectionError>> { Poll::Ready(Ok(())) }
    fn call(&mut self, req: ProtocolRequest<SIo, Body>) -> Self::Future {
        let io = req.transport;
        if io.handshake_fails { return std::future::ready(Err(ConnectionError::Handshake(Box::new(SErr("handshake"))))); }
        let h2 = !io.plain && (req.version.multiplex() || io.alpn);
        let mut w = self.0.lock().unwrap();
        let st = Arc::new(ConnState { lax: w.lax, h2, origin: io.origin, open: AtomicBool::new(true), busy: AtomicBool::new(false), failed: AtomicBool::new(false), wakers: Mutex::new(vec![]) });
        let id = w.conns.len();
        w.conns.push(st.clone());
        let _ = io.req;
        std::future::ready(Ok(SConn { id, st, w: self.0.clone() }))
    }
}

// ---- the response future of the scripted connection: completes at `f r`
struct SSend { w: W, req: usize }
impl Future for SSend {
    type Output = Result<http::Response<Body>, SErr>;
    fn poll(self: Pin<&mut Self>, cx: &mut Context<'_>) -> Poll<Self::Output> {
        let mut w = self.w.lock().unwrap();
        if w.finished.contains(&self.req) { Poll::Ready(Ok(http::Response::new(Body::empty()))) }
        else { w.exec_wakers.insert(self.req, cx.waker().clone()); Poll::Pending }
    }
}

// ---- inner service: hyperdriver's own `RequestExecutor` (notes `is_reused()` on the way in)
#[derive(Clone)]
struct SExec(W, RequestExecutor<Pooled<SConn, Body>, Body>);
impl Service<ExecuteRequest<Pooled<SConn, Body>, Body>> for SExec {
    type Response = http::Response<Body>;
    type Error = hyperdriver::client::Error;
    type Future = <RequestExecutor<Pooled<SConn, Body>, Body> as Service<ExecuteRequest<Pooled<SConn, Body>, Body>>>::Future;
    fn poll_ready(&mut self, cx: &mut Context<'_>) -> Poll<Result<(), Self::Error>> { self.1.poll_ready(cx) }
    fn call(&mut self, er: ExecuteRequest<Pooled<SConn, Body>, Body>) -> Self::Future {
        let req = req_of(er.request().headers());
        let reused = er.connection().is_reused();
        self.0.lock().unwrap().reused.insert(req, reused);
        self.1.call(er)
    }
}

struct WakeFlag(AtomicBool);
impl Wake for WakeFlag { fn wake(self: Arc<Self>) { self.0.store(true, Ordering::SeqCst); } }

#[derive(PartialEq, Clone, Copy)]
enum Status { Checkout, Exec, Done }
type Svc = ConnectionPoolService<STransport, SProtocol, SExec, Body>;
type Fut = Pin<Box<dyn Future<Output = Result<http::Response<Body>, hyperdriver::client::Error>>>>;
struct Req { fut: Option<Fut>, status: Status, flag: Arc<WakeFlag> }

fn snapshot(svc: &Svc, w: &W) -> String {
    let snap = svc.verif_snapshot(|c| c.id as u64).unwrap_or_default();
    let j = |v: Vec<String>, sep: &str| if v.is_empty() { "-".to_string() } else { v.join(sep) };
    let conn = j(snap.connecting.iter().map(|t| t.to_string()).collect(), ",");
    let wait = j(snap.waiting.iter().filter(|(_, n, _)| *n > 0).map(|(t, n, l)| format!("{t}:{n}:{l}")).collect(), ",");
    let idle = j(snap.idle.iter().filter(|(_, l)| !l.is_empty()).map(|(t, l)| format!("{t}:{}", l.iter().map(|c| c.to_string()).collect::<Vec<_>>().join("."))).collect(), ",");
    let w = w.lock().unwrap();
    format!("{conn} {wait} {idle} {} {}", w.h1_drops, w.dial_count)
}

fn classify_err(e: &hyperdriver::client::Error) -> &'static str {
    use std::error::Error as _;
    match e {
        hyperdriver::client::Error::Transport(_) => "E2",
        hyperdriver::client::Error::Connection(inner) => if inner.downcast_ref::<SErr>().is_some() || inner.source().map(|s| s.is::<SErr>()).unwrap_or(false) { "E1" } else { "E0" },
        _ => "E9",
    }
}

struct Session { w: W, svc: Svc, reqs: HashMap<usize, Req>, last_snap: String, holder: Option<std::thread::JoinHandle<()>> }

impl Session {
    fn new(cfg: &[&str]) -> Session {
        let w: W = Default::default();
        w.lock().unwrap().lax = cfg.get(3) == Some(&"1");
        let mut pc = hyperdriver::client::pool::Config::default();
        pc.idle_timeout = match cfg[0].strip_prefix('u') {
            Some(us) => us.parse::<u64>().ok().map(std::time::Duration::from_micros),
            // `max`: "never", spelt as the longest duration there is
            None => if cfg[0] == "max" { Some(std::time::Duration::MAX) } else { cfg[0].parse::<u64>().ok().map(std::time::Duration::from_millis) },
        };
        pc.max_idle_per_host = cfg[1].parse().unwrap_or(32);
        pc.continue_after_preemption = cfg[2] == "1";
        let svc: Svc = ConnectionPoolService::new(STransport(w.clone()), SProtocol(w.clone()), SExec(w.clone(), RequestExecutor::new()), pc);
        let last_snap = snapshot(&svc, &w);
        Session { w, svc, reqs: HashMap::new(), last_snap, holder: None }
    }

    async fn apply(&mut self, op: &[&str]) -> String {
        let n = |i: usize| op.get(i).and_then(|s| s.parse::<usize>().ok()).unwrap_or(9999);
        if op.first() == Some(&"hold") {
            if let Some(h) = self.holder.take() { let _ = h.join(); }
            let (tx, rx) = std::sync::mpsc::channel();
            let svc = self.svc.clone();
            self.holder = Some(std::thread::spawn(move || {
                svc.verif_with_lock(|| { let _ = tx.send(()); std::thread::sleep(std::time::Duration::from_millis(10)); });
            }));
            let _ = rx.recv();
            // (no snapshot now: it would wait for the mutex; nothing has changed since the last one)
            return format!("D {}", self.last_snap);
        }
        let res: String = match op.first().copied().unwrap_or("") {
            "i" => {
                let (r, k, mux) = (n(1), n(2), op.get(3) == Some(&"1"));
                if self.reqs.contains_key(&r) || k >= 100_000_000 { "N".into() } else {
                    // beyond the table: as many further origins as one likes (`http://n<k>.example`)
                    let uri = if k < KEYS.len() { let variants = KEYS[k]; format!("{}/r{}", variants[r % variants.len()], r) }
                              else { format!("{}://n{k}.example/r{r}", if r % 2 == 0 { "http" } else { "HTTP" }) };
                    let mut b = http::Request::builder().uri(uri).version(if mux { http::Version::HTTP_2 } else { http::Version::HTTP_11 }).header("x-req", r.to_string());
                    // some requests name a virtual host of their own: the origin, and with it the pool key, is the URI's
                    if r % 4 == 3 { b = b.header(http::header::HOST, format!("vhost{}.test", r % 3)); }
                    let request = b.body(Body::empty()).unwrap();
                    // (the checkout is created here: the idle list is looked at already)
                    match std::panic::catch_unwind(std::panic::AssertUnwindSafe(|| -> Fut { Box::pin(self.svc.call(request)) })) {
                        Ok(fut) => { self.reqs.insert(r, Req { fut: Some(fut), status: Status::Checkout, flag: Arc::new(WakeFlag(AtomicBool::new(false))) }); "D".into() }
                        Err(_) => "X".into(),
                    }
                }
            }
            "p" => {
                let r = n(1);
                match self.reqs.get_mut(&r) {
                    Some(rq) if rq.status == Status::Checkout => {
                        let woke = rq.flag.0.swap(false, Ordering::SeqCst);
                        let waker = Waker::from(rq.flag.clone());
                        let mut cx = Context::from_waker(&waker);
                        let before = self.w.lock().unwrap().execs.len();
                        let fut = rq.fut.as_mut().unwrap();
                        let polled = std::panic::catch_unwind(std::panic::AssertUnwindSafe(|| fut.as_mut().poll(&mut cx)));
                        let mut s = match polled {
                            Err(_) => { rq.fut.take().map(std::mem::forget); rq.status = Status::Done; "X".to_string() }
                            Ok(Poll::Pending) => {
                                let ex = { let w = self.w.lock().unwrap(); if w.execs.len() > before { Some(w.execs[before]) } else { None } };
                                match ex {
                                    Some((_, c, reused)) => {
                                        rq.status = Status::Exec;
                                        let st = self.w.lock().unwrap().conns[c].clone();
                                        format!("G{c}.{}.{}.{}", reused as u8, st.origin, st.h2 as u8)
                                    }
                                    None => "P".to_string(),
                                }
                            }
                            Ok(Poll::Ready(Ok(_))) => { rq.fut = None; rq.status = Status::Done; "R".to_string() }
                            Ok(Poll::Ready(Err(e))) => { rq.fut = None; rq.status = Status::Done; classify_err(&e).to_string() }
                        };
                        if woke { s.push('w'); }
                        s
                    }
                    _ => "N".into(),
                }
            }
            "c" => {
                let r = n(1);
                match self.reqs.get_mut(&r) {
                    Some(rq) if rq.status != Status::Done => { rq.fut = None; rq.status = Status::Done; "D".into() }
                    _ => "N".into(),
                }
            }
            "f" => {
                let r = n(1);
                match self.reqs.get_mut(&r) {
                    Some(rq) if rq.status == Status::Exec => {
                        self.w.lock().unwrap().finished.insert(r);
                        let waker = Waker::from(rq.flag.clone());
                        let mut cx = Context::from_waker(&waker);
                        let _ = rq.fut.as_mut().unwrap().as_mut().poll(&mut cx);
                        rq.fut = None;
                        rq.status = Status::Done;
                        "D".into()
                    }
                    _ => "N".into(),
                }
            }
            "d" => {
                let r = n(1);
                let o = match op.get(2).copied() { Some("ok0") => Some(Outcome::Ok(false, false)), Some("ok1") => Some(Outcome::Ok(true, false)), Some("okp") => Some(Outcome::Ok(false, true)), Some("fc") => Some(Outcome::FailConnect), Some("fh") => Some(Outcome::FailHandshake), _ => None };
                let waker = {
                    let mut wl = self.w.lock().unwrap();
                    match (wl.dials.get_mut(&r), o) {
                        (Some(slot), Some(o)) if slot.started && slot.outcome.is_none() => { slot.outcome = Some(o); Some(slot.waker.take()) }
                        _ => None,
                    }
                };
                match waker { Some(wk) => { if let Some(wk) = wk { wk.wake(); } "D".into() } None => "N".into() }
            }
            "cr" | "cc" => {
                let c = n(1);
                let st = self.w.lock().unwrap().conns.get(c).cloned();
                match st {
                    Some(st) => {
                        if op[0] == "cr" { st.busy.store(false, Ordering::SeqCst); } else { st.open.store(false, Ordering::SeqCst); }
                        let ws: Vec<Waker> = st.wakers.lock().unwrap().drain(..).collect();
                        for wk in ws { wk.wake(); }
                        "D".into()
                    }
                    None => "N".into(),
                }
            }
            "ce" => {
                // a connection that was released while still busy - it sits in a hand-back task - turns out not to be an HTTP
                // connection any more: its readiness poll answers with an error, though the transport is open and no response is outstanding
                let c = n(1);
                let st = self.w.lock().unwrap().conns.get(c).cloned();
                let held = { let w = self.w.lock().unwrap(); self.reqs.iter().any(|(r, rq)| rq.status == Status::Exec && w.execs.iter().any(|(er, ec, _)| er == r && *ec == c)) };
                match st {
                    Some(st) if st.open.load(Ordering::SeqCst) && st.busy.load(Ordering::SeqCst) && !st.failed.load(Ordering::SeqCst) && !held && Arc::strong_count(&st) > 2 => {
                        st.failed.store(true, Ordering::SeqCst);
                        st.busy.store(false, Ordering::SeqCst);
                        let ws: Vec<Waker> = st.wakers.lock().unwrap().drain(..).collect();
                        for wk in ws { wk.wake(); }
                        "D".into()
                    }
                    _ => "N".into(),
                }
            }
            "run" => { tokio::time::sleep(std::time::Duration::from_millis(1)).await; "D".into() }
            "t" => {
                let d = std::time::Duration::from_millis(n(1) as u64);
                std::thread::sleep(d);
                // tokio's (paused) clock moves too, but no task runs before the next `run`: `advance` moves the
                // clock on its first poll and only then yields
                let mut adv = Box::pin(tokio::time::advance(d));
                let _ = adv.as_mut().poll(&mut Context::from_waker(&Waker::from(Arc::new(WakeFlag(AtomicBool::new(false))))));
                "D".into()
            }
            "mark" => "D".into(),
            _ => "N".into(),
        };
        self.last_snap = snapshot(&self.svc, &self.w);
        format!("{res} {}", self.last_snap)
    }

    // ---- what is enabled (used by the feedback-driven generator)
    fn in_status(&self, st: Status) -> Vec<usize> { let mut v: Vec<usize> = self.reqs.iter().filter(|(_, r)| r.status == st).map(|(k, _)| *k).collect(); v.sort(); v }
    fn pending_dials(&self) -> Vec<usize> { let w = self.w.lock().unwrap(); let mut v: Vec<usize> = w.dials.iter().filter(|(_, d)| d.started && d.outcome.is_none()).map(|(k, _)| *k).collect(); v.sort(); v }
    fn conns(&self, busy: bool) -> Vec<usize> { let w = self.w.lock().unwrap(); (0..w.conns.len()).filter(|i| w.conns[*i].open.load(Ordering::SeqCst) && w.conns[*i].busy.load(Ordering::SeqCst) == busy).collect() }
}

fn new_rt() -> tokio::runtime::Runtime { tokio::runtime::Builder::new_current_thread().enable_time().start_paused(true).build().unwrap() }

fn run_case(cfg: &[&str], ops: &[Vec<&str>]) -> String {
    let mut rt = new_rt();
    let mut sess = Session::new(cfg);
    let mut out: Vec<String> = Vec::new();
    // idle expiry uses the real clock: if the machine stalls, the measured case says nothing
    let timed = cfg[0].starts_with('u') || cfg[0].parse::<u64>().map(|t| t > 0 && t < 10_000).unwrap_or(false);
    let mut unreliable = false;
    for op in ops {
        let t0 = std::time::Instant::now();
        if op.first() == Some(&"co") {
            // a request that holds a connection is dropped where there is no tokio runtime (sync code driving the client with
            // `block_on` step by step gives up between two steps): whatever `Pooled::drop` does about it, the connection has not
            // reported ready and must not be found in the pool afterwards
            let r: usize = op.get(1).and_then(|s| s.parse().ok()).unwrap_or(9999);
            let fut = match sess.reqs.get_mut(&r) { Some(rq) if rq.status == Status::Exec => { rq.status = Status::Done; rq.fut.take() } _ => None };
            let res = match fut {
                Some(f) => { let _ = std::panic::catch_unwind(std::panic::AssertUnwindSafe(move || drop(f))); "D" }
                None => "N",
            };
            sess.last_snap = snapshot(&sess.svc, &sess.w);
            out.push(format!("{res} {}", sess.last_snap));
        } else if op.first() == Some(&"shutdown") {
            // dropping the runtime drops every task spawned on it; the service, its pool and the request futures live on
            drop(rt);
            rt = new_rt();
            sess.last_snap = snapshot(&sess.svc, &sess.w);
            out.push(format!("D {}", sess.last_snap));
        } else {
            out.push(rt.block_on(sess.apply(op)));
        }
        let el = t0.elapsed().as_millis() as u64;
        let allowed = if op.first() == Some(&"t") { op.get(1).and_then(|s| s.parse::<u64>().ok()).unwrap_or(0) + 20 } else { 12 };
        if timed && el > allowed { unreliable = true; }
    }
    // what is still held (requests with a connection) is released inside a runtime: `Pooled::drop` spawns its hand-back task
    if let Some(h) = sess.holder.take() { let _ = h.join(); }
    { let _g = rt.enter(); drop(sess); }
    if unreliable { return "unreliable".into(); }
    out.join(" ; ")
}

pub fn run(toks: &[&str]) -> String {
    let mut parts: Vec<Vec<&str>> = vec![vec![]];
    for t in toks { if *t == ";" { parts.push(vec![]); } else { parts.last_mut().unwrap().push(*t); } }
    if parts[0].len() < 3 { return "bad-input".into(); }
    let cfg = parts[0].clone();
    let ops: Vec<Vec<&str>> = parts[1..].to_vec();
    run_case(&cfg, &ops)
}

// ------------------------------------------------------------------------------------------
/// Feedback-driven generation: the schedule is produced while running the real pool, so that most
/// operations are enabled (a pollable checkout, a pending dial, a busy connection, ...); about one
/// op in twelve is drawn blindly to keep disabled ops in the mix. Only the op list is emitted.
pub fn gen(r: &mut Rng, i: u64) -> String {
    if i % 1000 == 999 { let big = if i % 6000 == 1999 { if i < 6000 { 1030 } else { *r.pick(&[1030u64, 1030, 2060]) } } else { 0 }; gen_many_origins(r, big) } else if i % 1000 == 499 { gen_colliding_origins(r) } else if i % 40 == 39 { gen_shutdown(r) } else if i % 40 == 19 { gen_contended(r) } else { gen_mode(r, i, false) }
}

/// Pairs of origins `n<k>.example` whose pool keys (`UriKey`) agree in a truncation of their unkeyed std hash - low 32 bits,
/// high 32 bits, low 16 bits. A key table that remembers a fingerprint instead of the key confuses exactly such origins;
/// this is a probe for that one family of slips (a keyed or different hash would need its own), found by a birthday search
/// done once per process.
fn colliding_pairs() -> &'static Vec<(u64, u64)> {
    static PAIRS: std::sync::OnceLock<Vec<(u64, u64)>> = std::sync::OnceLock::new();
    PAIRS.get_or_init(|| {
        use std::hash::{Hash, Hasher};
        let mut lo32: HashMap<u32, u64> = HashMap::new();
        let mut hi32: HashMap<u32, u64> = HashMap::new();
        let mut lo16: HashMap<u16, u64> = HashMap::new();
        let mut out = vec![];
        let (mut f32l, mut f32h, mut f16) = (false, false, false);
        for k in 1000u64..400_000 {
            let Ok(key) = format!("http://n{k}.example").parse::<hyperdriver::client::pool::UriKey>() else { continue };
            let mut h = std::collections::hash_map::DefaultHasher::new();
            key.hash(&mut h);
            let v = h.finish();
            if !f32l { if let Some(o) = lo32.insert(v as u32, k) { out.push((o, k)); f32l = true; } }
            if !f32h { if let Some(o) = hi32.insert((v >> 32) as u32, k) { out.push((o, k)); f32h = true; } }
            if !f16 { if let Some(o) = lo16.insert(v as u16, k) { out.push((o, k)); f16 = true; } }
            if f32l && f32h && f16 { break; }
        }
        out
    })
}

fn gen_colliding_origins(r: &mut Rng) -> String {
    let pairs = colliding_pairs();
    if pairs.is_empty() { return gen_mode(r, 0, false); }
    let (a, b) = *r.pick(pairs);
    let (a, b) = if r.chance(1, 2) { (a, b) } else { (b, a) };
    let mux = r.chance(1, 3) as u8;
    // origin a leaves a connection behind; origin b is then asked for, twice; then a again
    let ops = [format!("i 0 {a} {mux}"), "p 0".into(), "d 0 ok0".into(), "p 0".into(), "f 0".into(), "cr 0".into(), "run".into(),
               format!("i 1 {b} {mux}"), "p 1".into(), "d 1 ok0".into(), "p 1".into(), "f 1".into(), "cr 1".into(), "run".into(),
               format!("i 2 {b} {mux}"), "p 2".into(), format!("i 3 {a} {mux}"), "p 3".into(), "mark".into(), "mark".into(), "mark".into()];
    format!("- 32 {} 0 ; {}", r.chance(1, 2) as u8, ops.join(" ; "))
}

/// The runtime that hosts the pool's background tasks goes away while the client lives on (a client shared between
/// runtimes): released connections still waiting to become ready, and abandoned attempts carried on in the background.
fn gen_shutdown(r: &mut Rng) -> String {
    let k = r.below(KEYS.len() as u64);
    let lax = r.chance(1, 2) as u8;
    let cap = r.chance(1, 2) as u8;
    let mut ops: Vec<String> = Vec::new();
    let n = r.range(1, 3);
    for q in 0..n { ops.push(format!("i {q} {k} 0")); ops.push(format!("p {q}")); ops.push(format!("d {q} ok0")); ops.push(format!("p {q}")); }
    // responses arrive; some connections are ready again before the shutdown, some not, some hand-back tasks have run, some not
    for q in 0..n {
        ops.push(format!("f {q}"));
        if r.chance(1, 2) { ops.push(format!("cr {q}")); }
        if r.chance(1, 2) { ops.push("run".into()); }
    }
    // an HTTP/2 attempt with a waiter, abandoned by its request
    let m = 10;
    if r.chance(2, 3) {
        ops.push(format!("i {m} {k} 1")); ops.push(format!("p {m}"));
        ops.push(format!("i {} {k} 1", m + 1)); ops.push(format!("p {}", m + 1));
        ops.push(format!("c {m}"));
        if r.chance(1, 2) { ops.push("run".into()); }
    }
    ops.push("shutdown".into());
    ops.push(format!("p {}", m + 1));
    for q in 0..n { if r.chance(1, 2) { ops.push(format!("cr {q}")); } }
    ops.push("run".into());
    for q in 20..22 { ops.push(format!("i {q} {k} 0")); ops.push(format!("p {q}")); ops.push(format!("d {q} ok0")); ops.push(format!("p {q}")); }
    ops.push("mark".into()); ops.push("run".into()); ops.push("mark".into()); ops.push("mark".into());
    format!("- {} {cap} {lax} ; {}", r.pick(&[32u64, 1]), ops.join(" ; "))
}

/// Another thread is inside the pool's mutex at the very moment a dial completes (for the request itself, or in the
/// background for an abandoned attempt), a connection is released, or a request is cancelled.
fn gen_contended(r: &mut Rng) -> String {
    let k = r.below(KEYS.len() as u64);
    let cap = r.chance(2, 3) as u8;
    let mux = r.chance(2, 3) as u8;
    let mut ops: Vec<String> = Vec::new();
    match r.below(3) {
        0 => {
            // an attempt abandoned by its request completes in the background while the mutex is held elsewhere
            ops.push(format!("i 0 {k} {mux}")); ops.push("p 0".into());
            let waiter = r.chance(1, 2);
            if waiter { ops.push(format!("i 1 {k} {mux}")); ops.push("p 1".into()); }
            if r.chance(1, 3) { ops.push("hold".into()); }
            ops.push("c 0".into());
            if r.chance(1, 2) { ops.push("run".into()); }
            ops.push(format!("d 0 {}", r.pick(&["ok0", "ok0", "ok1"])));
            ops.push("hold".into()); ops.push("run".into()); ops.push("mark".into());
            if waiter { ops.push("p 1".into()); }
        }
        1 => {
            // the request's own dial completes while the mutex is held elsewhere
            ops.push(format!("i 0 {k} {mux}")); ops.push("p 0".into());
            if r.chance(1, 2) { ops.push(format!("i 1 {k} {mux}")); ops.push("p 1".into()); }
            ops.push(format!("d 0 {}", r.pick(&["ok0", "ok0", "ok1", "okp", "fc"])));
            ops.push("hold".into()); ops.push("p 0".into()); ops.push("mark".into()); ops.push("p 1".into());
        }
        _ => {
            // a connection is released while the mutex is held elsewhere, a waiter or nobody waiting for it
            ops.push(format!("i 0 {k} 0")); ops.push("p 0".into()); ops.push("d 0 ok0".into()); ops.push("p 0".into());
            if r.chance(2, 3) { ops.push(format!("i 1 {k} 0")); ops.push("p 1".into()); }
            ops.push("f 0".into());
            if r.chance(1, 2) { ops.push("hold".into()); }
            ops.push("cr 0".into()); ops.push("hold".into()); ops.push("run".into()); ops.push("mark".into()); ops.push("p 1".into());
        }
    }
    // afterwards: what is in the pool serves further requests without another dial
    for q in 10..12 { ops.push(format!("i {q} {k} {mux}")); ops.push(format!("p {q}")); }
    ops.push("mark".into()); ops.push("run".into()); ops.push("mark".into()); ops.push("mark".into());
    format!("- 32 {cap} 0 ; {}", ops.join(" ; "))
}

/// A pool that has seen several hundred origins: a few early ones leave a connection behind (idle, or still in use),
/// then every further origin is asked for once, then the early ones again.
/// `at_least`: a pool that has seen more than a thousand (two thousand) origins.
fn gen_many_origins(r: &mut Rng, at_least: u64) -> String {
    let early = r.range(1, 4);
    let total = if at_least > 0 { at_least + r.below(60) } else { r.range(257, 340) };
    let mut ops: Vec<String> = Vec::new();
    let mut q = 0u64;
    let mut in_use: Vec<u64> = vec![];
    let mut nconn = early;
    for k in 0..early {
        let key = if k < 2 { k } else { 8 + k };
        ops.push(format!("i {q} {key} 0")); ops.push(format!("p {q}")); ops.push(format!("d {q} ok0")); ops.push(format!("p {q}"));
        if r.chance(2, 3) { ops.push(format!("f {q}")); ops.push(format!("cr {k}")); ops.push("run".into()); } else { in_use.push(q); }
        q += 1;
    }
    for j in 0..total {
        ops.push(format!("i {q} {} 0", 20 + j)); ops.push(format!("p {q}"));
        if r.chance(1, 40) { ops.push(format!("d {q} ok0")); ops.push(format!("p {q}")); nconn += 1; }
        ops.push(format!("c {q}"));
        q += 1;
    }
    ops.push("mark".into());
    for x in in_use { ops.push(format!("f {x}")); }
    for k in 0..early { ops.push(format!("cr {k}")); }
    ops.push("run".into()); ops.push("mark".into()); ops.push("mark".into());
    for k in 0..early {
        let key = if k < 2 { k } else { 8 + k };
        ops.push(format!("i {q} {key} 0")); ops.push(format!("p {q}"));
        // served and released again - by the connection it left behind, or (if the pool no longer finds that) by a new one
        ops.push(format!("d {q} ok0")); ops.push(format!("p {q}")); ops.push(format!("f {q}"));
        ops.push(format!("cr {k}")); ops.push(format!("cr {}", nconn + k)); ops.push("run".into());
        q += 1;
    }
    ops.push("mark".into());
    // … and some of the late ones
    for _ in 0..12 {
        ops.push(format!("i {q} {} 0", 20 + total - 1 - r.below(total.min(90)))); ops.push(format!("p {q}"));
        q += 1;
    }
    format!("- {} 0 0 ; {}", if at_least > 0 { 1 } else { 32 }, ops.join(" ; "))
}
/// Timed cases: real idle expiry (50 ms timeout, real sleeps of 5 / 150 ms). Slow, hence a stream of its own.
/// A connection that can be shared sits in the idle list while requests use it; it expires like any other.
fn gen_shared_expiry(r: &mut Rng) -> String {
    let k = r.below(KEYS.len() as u64);
    let mut ops: Vec<String> = vec![format!("i 0 {k} 1"), "p 0".into(), format!("d 0 {}", r.pick(&["ok0", "ok1"])), "p 0".into()];
    if r.chance(1, 2) { ops.push(format!("i 1 {k} 1")); ops.push("p 1".into()); ops.push("f 1".into()); }
    ops.push("f 0".into()); ops.push("run".into());
    ops.push(format!("t {}", r.pick(&[150u64, 150, 5])));
    for q in 10..12 { ops.push(format!("i {q} {k} {}", r.chance(3, 4) as u8)); ops.push(format!("p {q}")); }
    for q in 10..12 { ops.push(format!("d {q} ok0")); ops.push(format!("p {q}")); }
    ops.push("mark".into()); ops.push("run".into()); ops.push("mark".into()); ops.push("mark".into());
    format!("X50 {} {} 0 ; {}", r.pick(&[32u64, 1]), r.chance(1, 2) as u8, ops.join(" ; "))
}

pub fn gen_timed(r: &mut Rng, i: u64) -> String {
    if i % 12 == 0 || i % 12 == 7 { return gen_shared_expiry(r); }
    if i % 3 == 2 { return gen_mode(r, i, true); }
    if i % 6 == 4 { return gen_busy_past_timeout(r); }
    // every other idle-list case has a timeout below a millisecond: every tick outlasts it
    let sub_ms = i % 6 == 1;
    // idle-list scenario: build an idle list whose entries differ in age and liveness, then check out
    let n = r.range(2, 4);
    let k = r.below(KEYS.len() as u64);
    let max_idle = *r.pick(&[32u64, 32, 3, 2]);
    let mut ops: Vec<String> = Vec::new();
    for q in 0..n { ops.push(format!("i {q} {k} 0")); }
    for q in 0..n { ops.push(format!("p {q}")); }
    for q in 0..n { ops.push(format!("d {q} ok0")); }
    for q in 0..n { ops.push(format!("p {q}")); }
    // release in random order with ticks in between (connection id = request id here: dial order = poll order)
    let mut order: Vec<u64> = (0..n).collect();
    for j in 0..order.len() { let x = r.below(order.len() as u64) as usize; order.swap(j, x); }
    for q in &order {
        ops.push(format!("f {q}"));
        ops.push(format!("cr {q}"));
        ops.push("run".into());
        match r.below(3) { 0 => ops.push("t 150".into()), 1 => ops.push("t 5".into()), _ => { if sub_ms { ops.push("t 5".into()) } } }
    }
    for c in 0..n { if r.chance(1, 3) { ops.push(format!("cc {c}")); } }
    if r.chance(1, 3) { ops.push("t 150".into()); }
    let m = r.range(1, 3);
    for q in 10..10 + m { ops.push(format!("i {q} {k} 0")); ops.push(format!("p {q}")); }
    for q in 10..10 + m { ops.push(format!("d {q} ok0")); ops.push(format!("p {q}")); }
    ops.push("mark".into()); ops.push("run".into()); ops.push("mark".into()); ops.push("mark".into());
    let timeout = if sub_ms { format!("u{}", r.pick(&[1u64, 500, 999])) } else { "50".to_string() };
    format!("X{timeout} {max_idle} {} 0 ; {}", r.chance(1, 2) as u8, ops.join(" ; "))
}

/// Every shape of an idle list of 1-3 connections - the k oldest expired, any subset closed by the peer - followed by
/// two checkouts (80 cases), and lists that fill a small idle limit, expire as a whole and receive further connections (11 cases).
pub fn exhaustive_idle() -> Vec<String> {
    let mut out = vec![];
    for n in 1..=3u64 { for k in 0..=n { for mask in 0..(1u64 << n) { for cap in 0..2 {
        if cap == 1 && n < 3 { continue; }
        let mut ops: Vec<String> = Vec::new();
        for q in 0..n { ops.push(format!("i {q} 0 0")); ops.push(format!("p {q}")); ops.push(format!("d {q} ok0")); ops.push(format!("p {q}")); }
        for q in 0..n {
            ops.push(format!("f {q}")); ops.push(format!("cr {q}")); ops.push("run".into());
            if q + 1 == k { ops.push("t 150".into()); }
        }
        for c in 0..n { if mask >> c & 1 == 1 { ops.push(format!("cc {c}")); } }
        for q in 10..12 { ops.push(format!("i {q} 0 0")); ops.push(format!("p {q}")); }
        for q in 10..12 { ops.push(format!("d {q} ok0")); ops.push(format!("p {q}")); }
        ops.push("mark".into()); ops.push("run".into()); ops.push("mark".into()); ops.push("mark".into());
        out.push(format!("pool 50 32 {cap} 0 ; {}", ops.join(" ; ")));
    } } } }
    // a small idle limit: the list fills up, the whole of it expires, further connections are released
    for (n, maxes) in [(2u64, &[1u64][..]), (3, &[1, 2][..])] { for &max in maxes { for k in 0..=n {
        let mut ops: Vec<String> = Vec::new();
        for q in 0..n { ops.push(format!("i {q} 0 0")); ops.push(format!("p {q}")); ops.push(format!("d {q} ok0")); ops.push(format!("p {q}")); }
        for q in 0..n {
            ops.push(format!("f {q}")); ops.push(format!("cr {q}")); ops.push("run".into());
            if q + 1 == k { ops.push("t 150".into()); }
        }
        ops.push("i 10 0 0".into()); ops.push("p 10".into()); ops.push("d 10 ok0".into()); ops.push("p 10".into());
        ops.push("mark".into()); ops.push("run".into()); ops.push("mark".into()); ops.push("mark".into());
        out.push(format!("pool 50 {max} 0 0 ; {}", ops.join(" ; ")));
    } } }
    out
}

/// Released connections that stay busy (response not consumed) for longer than the idle timeout, then
/// further requests to the origin, then the connections become ready.
fn gen_busy_past_timeout(r: &mut Rng) -> String {
    let n = r.range(1, 3);
    let k = r.below(KEYS.len() as u64);
    let mut ops: Vec<String> = Vec::new();
    for q in 0..n { ops.push(format!("i {q} {k} 0")); ops.push(format!("p {q}")); ops.push(format!("d {q} ok0")); ops.push(format!("p {q}")); }
    for q in 0..n { ops.push(format!("f {q}")); ops.push("run".into()); }
    ops.push(format!("t {}", r.pick(&[150u64, 150, 5])));
    ops.push("run".into());
    let m = r.range(1, 2);
    for q in 10..10 + m { ops.push(format!("i {q} {k} 0")); ops.push(format!("p {q}")); }
    for c in 0..n { if r.chance(2, 3) { ops.push(format!("cr {c}")); } }
    ops.push("run".into());
    for q in 10..10 + m { ops.push(format!("p {q}")); ops.push(format!("d {q} ok0")); ops.push(format!("p {q}")); }
    ops.push("mark".into()); ops.push("run".into()); ops.push("mark".into()); ops.push("mark".into());
    format!("X50 {} {} {} ; {}", r.pick(&[32u64, 2]), r.chance(1, 2) as u8, r.chance(2, 3) as u8, ops.join(" ; "))
}

fn gen_mode(r: &mut Rng, _i: u64, timed: bool) -> String {
    // lazy mode: freshly issued requests are polled reluctantly and cancelled eagerly, few origins, small idle limit
    let lazy = !timed && r.chance(1, 5);
    let idle = if timed { "50".to_string() } else if r.chance(1, 4) { "0".to_string() } else if r.chance(1, 3) { "600000".to_string() } else if r.chance(1, 5) { "max".to_string() } else { "-".to_string() };
    let max_idle = if timed { *r.pick(&[2u64, 3, 32]) } else if lazy { *r.pick(&[1u64, 1, 2]) } else { *r.pick(&[0u64, 1, 1, 2, 3, 32, 32]) };
    let cap = r.chance(1, 2) as u8;
    let lax = r.chance(1, 4) as u8;
    let keyset: Vec<u64> = if timed || lazy { vec![r.below(KEYS.len() as u64)] } else if r.chance(1, 2) {
        r.pick(CONFUSABLE).to_vec()
    } else {
        let n = r.range(1, 3);
        let mut ks: Vec<u64> = (0..KEYS.len() as u64).collect();
        for j in 0..ks.len() { let x = r.below(ks.len() as u64) as usize; ks.swap(j, x); }
        ks.truncate(n as usize);
        ks
    };
    let h2_bias = if timed || lazy { 0 } else { r.below(3) }; // 0: all h1, 1: mixed, 2: mostly h2
    // now and then another thread holds the pool's mutex when an op begins
    let contended = !timed && r.chance(1, 15);
    let cfg = format!("{idle} {max_idle} {cap} {lax}");
    let cfg_toks: Vec<&str> = cfg.split(' ').collect();
    let nops = if timed { r.range(14, 30) } else if lazy { r.range(20, 50) } else { r.range(6, 40) };
    let rt = tokio::runtime::Builder::new_current_thread().enable_time().start_paused(true).build().unwrap();
    let ops: Vec<String> = rt.block_on(async {
        let mut sess = Session::new(&cfg_toks);
        let mut ops: Vec<String> = Vec::new();
        let mut next_req = 0u64;
        let mut issued: Vec<u64> = Vec::new();
        macro_rules! emit { ($o:expr) => {{ let o: String = $o; let t: Vec<&str> = o.split(' ').collect(); sess.apply(&t).await; ops.push(o); }}; }
        for step in 0..nops {
            let co = sess.in_status(Status::Checkout);
            let ex = sess.in_status(Status::Exec);
            let dials = sess.pending_dials();
            let busy = sess.conns(true);
            let idle_c = sess.conns(false);
            let blind = r.chance(1, 12);
            let any_req = |r: &mut Rng| if issued.is_empty() { 0 } else { *r.pick(&issued) };
            let weights = [
                if next_req < 9 { if step < 2 { 60 } else { 16 } } else { 1 },                    // issue
                if blind { 6 } else if co.is_empty() { 0 } else if lazy { 10 } else { 26 },         // poll
                if blind { 2 } else if co.is_empty() && ex.is_empty() { 0 } else if lazy { 9 } else { 5 }, // cancel
                if blind { 3 } else if dials.is_empty() { 0 } else { 16 },                          // dial outcome
                if blind { 3 } else if ex.is_empty() { 0 } else { 12 },                             // finish
                if blind { 2 } else if busy.is_empty() { 0 } else { 10 },                           // conn ready
                if blind { 1 } else if idle_c.is_empty() && busy.is_empty() { 0 } else { 3 },       // conn close
                8,                                                                                   // run
                if timed { 6 } else { 0 },                                                           // tick
                if blind { 1 } else if busy.is_empty() { 0 } else { 3 },                            // readiness error
                if ex.is_empty() { 0 } else { 2 },                                                   // dropped outside a runtime
            ];
            if contended && r.chance(1, 5) { ops.push("hold".to_string()); }
            match r.weighted(&weights) {
                0 => {
                    let k = *r.pick(&keyset);
                    let mux = match h2_bias { 0 => false, 1 => r.chance(1, 2), _ => r.chance(4, 5) };
                    issued.push(next_req);
                    emit!(format!("i {next_req} {k} {}", mux as u8));
                    next_req += 1;
                }
                1 => { let q = if blind || co.is_empty() { any_req(r) } else { *r.pick(&co) as u64 }; emit!(format!("p {q}")); }
                2 => {
                    let pool: Vec<usize> = co.iter().chain(ex.iter()).copied().collect();
                    let q = if blind || pool.is_empty() { any_req(r) } else { *r.pick(&pool) as u64 };
                    emit!(format!("c {q}"));
                }
                3 => {
                    let q = if blind || dials.is_empty() { any_req(r) } else { *r.pick(&dials) as u64 };
                    emit!(format!("d {q} {}", r.pick(&["ok0", "ok0", "ok0", "ok0", "ok1", "fc", "fh", "okp"])));
                }
                4 => { let q = if blind || ex.is_empty() { any_req(r) } else { *r.pick(&ex) as u64 }; emit!(format!("f {q}")); }
                5 => { let c = if blind || busy.is_empty() { r.below(6) } else { *r.pick(&busy) as u64 }; emit!(format!("cr {c}")); }
                6 => {
                    let pool: Vec<usize> = idle_c.iter().chain(busy.iter()).copied().collect();
                    let c = if blind || pool.is_empty() { r.below(6) } else { *r.pick(&pool) as u64 };
                    emit!(format!("cc {c}"));
                }
                7 => emit!("run".to_string()),
                9 => { let c = if blind || busy.is_empty() { r.below(6) } else { *r.pick(&busy) as u64 }; emit!(format!("ce {c}")); }
                10 => { let q = *r.pick(&ex) as u64; ops.push(format!("co {q}")); sess.apply(&["c", &q.to_string()]).await; }
                _ => emit!(format!("t {}", if r.chance(1, 2) { 150 } else { 5 })),
            }
        }
        // ---- drain: resolve every attempt (two rounds), poll everyone, release everything, probe every origin
        emit!("mark".to_string());
        for round in 0..2u64 {
            for q in issued.clone() { emit!(format!("d {q} {}", if (q + round) % 3 == 0 { "fc" } else { "ok0" })); }
            emit!("run".to_string());
            for q in issued.clone() { emit!(format!("p {q}")); }
        }
        emit!("run".to_string());
        emit!("mark".to_string());
        for q in issued.clone() { emit!(format!("p {q}")); }
        for q in issued.clone() { emit!(format!("f {q}")); }
        let nconn = sess.w.lock().unwrap().conns.len();
        for c in 0..nconn { emit!(format!("cr {c}")); }
        emit!("run".to_string());
        emit!("mark".to_string());
        for (j, k) in keyset.iter().enumerate() {
            let q = 100 + j as u64;
            emit!(format!("i {q} {k} {}", (h2_bias == 2) as u8));
            emit!(format!("p {q}"));
            emit!(format!("d {q} ok0"));
            emit!(format!("p {q}"));
        }
        ops
    });
    format!("{cfg} ; {}", ops.join(" ; "))
}
