//! Stream `pool` (C02–C06, C14, C15, clean-up half of C19): the real `ConnectionPoolService` driven
//! through its public API, one poll / drop / environment event at a time, with a scripted
//! `Transport`, `Protocol`, `PoolableConnection` and inner service. Spawned tasks (`WhenReady`,
//! delayed-drop checkouts) only run at the `run` op (current-thread runtime, paused clock).
//!
//! line: `pool <idleTimeoutMs|-> <maxIdle> <cap 0|1> ; <op> ; <op> …`
//!   op: `i r k mux` issue | `p r` poll | `c r` cancel | `d r ok0|ok1|fc|fh` dial outcome | `f r` finish
//!       | `cr c` connection ready again | `cc c` peer closes connection | `run` | `t ms` (real sleep) | `mark`
//! obs per op: `<res> <connecting> <waiting> <idle> <h1drops> <dials>`, ops separated by ` ; `
//!   res: D done | N no-op | P pending | G<c>.<reused>.<originKey>.<h2> | E<k> | X panic, `w` appended when the
//!        request's waker fired since its previous poll
use crate::rng::Rng;
use hyperdriver::client::conn::connection::ConnectionError;
use hyperdriver::client::conn::{Connection, ProtocolRequest, Transport};
use hyperdriver::client::pool::{PoolableConnection, PoolableStream, Pooled};
use hyperdriver::client::ConnectionPoolService;
use hyperdriver::info::{ConnectionInfo, HasConnectionInfo};
use hyperdriver::service::ExecuteRequest;
use hyperdriver::stream::duplex::DuplexAddr;
use hyperdriver::Body;
use std::collections::{HashMap, HashSet};
use std::future::Future;
use std::pin::Pin;
use std::sync::atomic::{AtomicBool, Ordering};
use std::sync::{Arc, Mutex};
use std::task::{Context, Poll, Wake, Waker};
use tower::Service;

/// (scheme, authority) of the origins used; spelling variants map to the same pool key.
pub const KEYS: &[&[&str]] = &[
    &["http://a.example", "http://A.Example", "HTTP://a.example"],
    &["https://a.example", "https://A.EXAMPLE"],
    &["http://a.example:8080", "http://A.example:8080"],
    &["http://b.example", "http://B.example"],
];

fn key_of_uri(uri: &http::Uri) -> usize {
    let s = format!("{}://{}", uri.scheme_str().unwrap_or("").to_ascii_lowercase(), uri.authority().map(|a| a.as_str().to_ascii_lowercase()).unwrap_or_default());
    KEYS.iter().position(|vs| vs[0] == s).unwrap_or(99)
}

#[derive(Clone, Copy, PartialEq, Debug)]
enum Outcome { Ok(bool), FailConnect, FailHandshake }

#[derive(Default)]
struct DialSlot { started: bool, outcome: Option<Outcome>, waker: Option<Waker> }

struct ConnState {
    h2: bool,
    origin: usize,
    open: AtomicBool,
    busy: AtomicBool,
    wakers: Mutex<Vec<Waker>>,
}

#[derive(Default)]
struct World {
    dials: HashMap<usize, DialSlot>,
    dial_count: usize,
    conns: Vec<Arc<ConnState>>,
    execs: Vec<(usize, usize, bool)>, // (req, conn, is_reused)
    finished: HashSet<usize>,
    exec_wakers: HashMap<usize, Waker>,
    h1_drops: usize,
}
type W = Arc<Mutex<World>>;

fn req_of(h: &http::HeaderMap) -> usize { h.get("x-req").and_then(|v| v.to_str().ok()).and_then(|s| s.parse().ok()).unwrap_or(9999) }

// ---- transport
#[derive(Debug)]
struct SErr(&'static str);
impl std::fmt::Display for SErr { fn fmt(&self, f: &mut std::fmt::Formatter<'_>) -> std::fmt::Result { write!(f, "{}", self.0) } }
impl std::error::Error for SErr {}

struct SIo { req: usize, origin: usize, alpn: bool, handshake_fails: bool }
impl HasConnectionInfo for SIo {
    type Addr = DuplexAddr;
    fn info(&self) -> ConnectionInfo<DuplexAddr> { ConnectionInfo { local_addr: DuplexAddr::new(), remote_addr: DuplexAddr::new() } }
}
impl PoolableStream for SIo { fn can_share(&self) -> bool { false } }

#[derive(Clone)]
struct STransport(W);
struct SDial { w: W, req: usize, origin: usize }
impl Future for SDial {
    type Output = Result<SIo, SErr>;
    fn poll(self: Pin<&mut Self>, cx: &mut Context<'_>) -> Poll<Self::Output> {
        let mut w = self.w.lock().unwrap();
        let slot = w.dials.entry(self.req).or_default();
        match slot.outcome {
            None => { slot.waker = Some(cx.waker().clone()); Poll::Pending }
            Some(Outcome::FailConnect) => Poll::Ready(Err(SErr("connect"))),
            Some(Outcome::Ok(alpn)) => Poll::Ready(Ok(SIo { req: self.req, origin: self.origin, alpn, handshake_fails: false })),
            Some(Outcome::FailHandshake) => Poll::Ready(Ok(SIo { req: self.req, origin: self.origin, alpn: false, handshake_fails: true })),
        }
    }
}
impl Transport for STransport {
    type IO = SIo;
    type Error = SErr;
    type Future = SDial;
    fn connect(&mut self, parts: http::request::Parts) -> SDial {
        let req = req_of(&parts.headers);
        let mut w = self.0.lock().unwrap();
        w.dial_count += 1;
        w.dials.entry(req).or_default().started = true;
        SDial { w: self.0.clone(), req, origin: key_of_uri(&parts.uri) }
    }
    fn poll_ready(&mut self, _: &mut Context<'_>) -> Poll<Result<(), SErr>> { Poll::Ready(Ok(())) }
}

// ---- connection
struct SConn { id: usize, st: Arc<ConnState>, w: W }
impl Drop for SConn {
    fn drop(&mut self) { if !self.st.h2 { self.w.lock().unwrap().h1_drops += 1; } }
}
impl Connection<Body> for SConn {
    type ResBody = Body;
    type Error = SErr;
    type Future = std::future::Ready<Result<http::Response<Body>, SErr>>;
    fn send_request(&mut self, _: http::Request<Body>) -> Self::Future { std::future::ready(Err(SErr("unused"))) }
    fn poll_ready(&mut self, cx: &mut Context<'_>) -> Poll<Result<(), SErr>> {
        if !self.st.open.load(Ordering::SeqCst) { return Poll::Ready(Err(SErr("closed"))); }
        if self.st.busy.load(Ordering::SeqCst) { self.st.wakers.lock().unwrap().push(cx.waker().clone()); return Poll::Pending; }
        Poll::Ready(Ok(()))
    }
    fn version(&self) -> http::Version { if self.st.h2 { http::Version::HTTP_2 } else { http::Version::HTTP_11 } }
}
impl PoolableConnection<Body> for SConn {
    fn is_open(&self) -> bool { self.st.open.load(Ordering::SeqCst) && !self.st.busy.load(Ordering::SeqCst) }
    fn can_share(&self) -> bool { self.st.h2 }
    fn reuse(&mut self) -> Option<Self> { if self.st.h2 { Some(SConn { id: self.id, st: self.st.clone(), w: self.w.clone() }) } else { None } }
}

// ---- protocol
#[derive(Clone)]
struct SProtocol(W);
impl Service<ProtocolRequest<SIo, Body>> for SProtocol {
    type Response = SConn;
    type Error = ConnectionError;
    type Future = std::future::Ready<Result<SConn, ConnectionError>>;
    fn poll_ready(&mut self, _: &mut Context<'_>) -> Poll<Result<(), ConnectionError>> { Poll::Ready(Ok(())) }
    fn call(&mut self, req: ProtocolRequest<SIo, Body>) -> Self::Future {
        let io = req.transport;
        if io.handshake_fails { return std::future::ready(Err(ConnectionError::Handshake(Box::new(SErr("handshake"))))); }
        let h2 = req.version.multiplex() || io.alpn;
        let mut w = self.0.lock().unwrap();
        let st = Arc::new(ConnState { h2, origin: io.origin, open: AtomicBool::new(true), busy: AtomicBool::new(false), wakers: Mutex::new(vec![]) });
        let id = w.conns.len();
        w.conns.push(st.clone());
        let _ = io.req;
        std::future::ready(Ok(SConn { id, st, w: self.0.clone() }))
    }
}

// ---- inner service: holds the pooled connection until `finish`
#[derive(Clone)]
struct SExec(W);
struct SExecFut { w: W, req: usize, pooled: Option<Pooled<SConn, Body>> }
impl Future for SExecFut {
    type Output = Result<http::Response<Body>, hyperdriver::client::Error>;
    fn poll(mut self: Pin<&mut Self>, cx: &mut Context<'_>) -> Poll<Self::Output> {
        let done = { let mut w = self.w.lock().unwrap(); let d = w.finished.contains(&self.req); if !d { w.exec_wakers.insert(self.req, cx.waker().clone()); } d };
        if done { self.pooled.take(); Poll::Ready(Ok(http::Response::new(Body::empty()))) } else { Poll::Pending }
    }
}
impl Service<ExecuteRequest<Pooled<SConn, Body>, Body>> for SExec {
    type Response = http::Response<Body>;
    type Error = hyperdriver::client::Error;
    type Future = SExecFut;
    fn poll_ready(&mut self, _: &mut Context<'_>) -> Poll<Result<(), Self::Error>> { Poll::Ready(Ok(())) }
    fn call(&mut self, er: ExecuteRequest<Pooled<SConn, Body>, Body>) -> SExecFut {
        let (pooled, request) = er.into_parts();
        let req = req_of(request.headers());
        let reused = pooled.is_reused();
        let (id, h2) = (pooled.id, pooled.st.h2);
        if !h2 { pooled.st.busy.store(true, Ordering::SeqCst); }
        self.0.lock().unwrap().execs.push((req, id, reused));
        SExecFut { w: self.0.clone(), req, pooled: Some(pooled) }
    }
}

struct WakeFlag(AtomicBool);
impl Wake for WakeFlag { fn wake(self: Arc<Self>) { self.0.store(true, Ordering::SeqCst); } }

#[derive(PartialEq)]
enum Status { Checkout, Exec, Done }
type Svc = ConnectionPoolService<STransport, SProtocol, SExec, Body>;
type Fut = Pin<Box<dyn Future<Output = Result<http::Response<Body>, hyperdriver::client::Error>>>>;
struct Req { fut: Option<Fut>, status: Status, flag: Arc<WakeFlag> }

fn snapshot(svc: &Svc, w: &W) -> String {
    let snap = svc.verif_snapshot(|c| c.id as u64).unwrap_or_default();
    let j = |v: Vec<String>, sep: &str| if v.is_empty() { "-".to_string() } else { v.join(sep) };
    let conn = j(snap.connecting.iter().map(|t| t.to_string()).collect(), ",");
    let wait = j(snap.waiting.iter().filter(|(_, n, _)| *n > 0).map(|(t, n, l)| format!("{t}:{n}:{l}")).collect(), ",");
    let idle = j(snap.idle.iter().filter(|(_, l)| !l.is_empty()).map(|(t, l)| format!("{t}:{}", l.iter().map(|c| c.to_string()).collect::<Vec<_>>().join("."))).collect(), ",");
    let w = w.lock().unwrap();
    format!("{conn} {wait} {idle} {} {}", w.h1_drops, w.dial_count)
}

fn classify_err(e: &hyperdriver::client::Error) -> &'static str {
    use std::error::Error as _;
    match e {
        hyperdriver::client::Error::Transport(_) => "E2",
        hyperdriver::client::Error::Connection(inner) => if inner.downcast_ref::<SErr>().is_some() || inner.source().map(|s| s.is::<SErr>()).unwrap_or(false) { "E1" } else { "E0" },
        _ => "E9",
    }
}

async fn run_case(cfg: &[&str], ops: &[Vec<&str>]) -> String {
    let w: W = Default::default();
    let mut pc = hyperdriver::client::pool::Config::default();
    pc.idle_timeout = cfg[0].parse::<u64>().ok().map(std::time::Duration::from_millis);
    pc.max_idle_per_host = cfg[1].parse().unwrap_or(32);
    pc.continue_after_preemption = cfg[2] == "1";
    let mut svc: Svc = ConnectionPoolService::new(STransport(w.clone()), SProtocol(w.clone()), SExec(w.clone()), pc);
    let mut reqs: HashMap<usize, Req> = HashMap::new();
    let mut out: Vec<String> = Vec::new();
    for op in ops {
        let n = |i: usize| op.get(i).and_then(|s| s.parse::<usize>().ok()).unwrap_or(9999);
        let res: String = match op.first().copied().unwrap_or("") {
            "i" => {
                let (r, k, mux) = (n(1), n(2), op.get(3) == Some(&"1"));
                if reqs.contains_key(&r) || k >= KEYS.len() { "N".into() } else {
                    let variants = KEYS[k];
                    let uri = format!("{}/r{}", variants[r % variants.len()], r);
                    let request = http::Request::builder().uri(uri).version(if mux { http::Version::HTTP_2 } else { http::Version::HTTP_11 })
                        .header("x-req", r.to_string()).body(Body::empty()).unwrap();
                    let fut: Fut = Box::pin(svc.call(request));
                    reqs.insert(r, Req { fut: Some(fut), status: Status::Checkout, flag: Arc::new(WakeFlag(AtomicBool::new(false))) });
                    "D".into()
                }
            }
            "p" => {
                let r = n(1);
                match reqs.get_mut(&r) {
                    Some(rq) if rq.status == Status::Checkout => {
                        let woke = rq.flag.0.swap(false, Ordering::SeqCst);
                        let waker = Waker::from(rq.flag.clone());
                        let mut cx = Context::from_waker(&waker);
                        let before = w.lock().unwrap().execs.len();
                        let fut = rq.fut.as_mut().unwrap();
                        let polled = std::panic::catch_unwind(std::panic::AssertUnwindSafe(|| fut.as_mut().poll(&mut cx)));
                        let mut s = match polled {
                            Err(_) => { rq.fut.take().map(std::mem::forget); rq.status = Status::Done; "X".to_string() }
                            Ok(Poll::Pending) => {
                                let ex = { let w = w.lock().unwrap(); if w.execs.len() > before { Some(w.execs[before]) } else { None } };
                                match ex {
                                    Some((_, c, reused)) => {
                                        rq.status = Status::Exec;
                                        let st = w.lock().unwrap().conns[c].clone();
                                        format!("G{c}.{}.{}.{}", reused as u8, st.origin, st.h2 as u8)
                                    }
                                    None => "P".to_string(),
                                }
                            }
                            Ok(Poll::Ready(Ok(_))) => { rq.fut = None; rq.status = Status::Done; "R".to_string() }
                            Ok(Poll::Ready(Err(e))) => { rq.fut = None; rq.status = Status::Done; classify_err(&e).to_string() }
                        };
                        if woke { s.push('w'); }
                        s
                    }
                    _ => "N".into(),
                }
            }
            "c" => {
                let r = n(1);
                match reqs.get_mut(&r) {
                    Some(rq) if rq.status != Status::Done => { rq.fut = None; rq.status = Status::Done; "D".into() }
                    _ => "N".into(),
                }
            }
            "f" => {
                let r = n(1);
                match reqs.get_mut(&r) {
                    Some(rq) if rq.status == Status::Exec => {
                        w.lock().unwrap().finished.insert(r);
                        let waker = Waker::from(rq.flag.clone());
                        let mut cx = Context::from_waker(&waker);
                        let _ = rq.fut.as_mut().unwrap().as_mut().poll(&mut cx);
                        rq.fut = None;
                        rq.status = Status::Done;
                        "D".into()
                    }
                    _ => "N".into(),
                }
            }
            "d" => {
                let r = n(1);
                let o = match op.get(2).copied() { Some("ok0") => Some(Outcome::Ok(false)), Some("ok1") => Some(Outcome::Ok(true)), Some("fc") => Some(Outcome::FailConnect), Some("fh") => Some(Outcome::FailHandshake), _ => None };
                let waker = {
                    let mut wl = w.lock().unwrap();
                    match (wl.dials.get_mut(&r), o) {
                        (Some(slot), Some(o)) if slot.started && slot.outcome.is_none() => { slot.outcome = Some(o); Some(slot.waker.take()) }
                        _ => None,
                    }
                };
                match waker { Some(wk) => { if let Some(wk) = wk { wk.wake(); } "D".into() } None => "N".into() }
            }
            "cr" | "cc" => {
                let c = n(1);
                let st = w.lock().unwrap().conns.get(c).cloned();
                match st {
                    Some(st) => {
                        if op[0] == "cr" { st.busy.store(false, Ordering::SeqCst); } else { st.open.store(false, Ordering::SeqCst); }
                        let ws: Vec<Waker> = st.wakers.lock().unwrap().drain(..).collect();
                        for wk in ws { wk.wake(); }
                        "D".into()
                    }
                    None => "N".into(),
                }
            }
            "run" => { tokio::time::sleep(std::time::Duration::from_millis(1)).await; "D".into() }
            "t" => { std::thread::sleep(std::time::Duration::from_millis(n(1) as u64)); "D".into() }
            "mark" => "D".into(),
            _ => "N".into(),
        };
        out.push(format!("{res} {}", snapshot(&svc, &w)));
    }
    drop(reqs);
    out.join(" ; ")
}

pub fn run(toks: &[&str]) -> String {
    let mut parts: Vec<Vec<&str>> = vec![vec![]];
    for t in toks { if *t == ";" { parts.push(vec![]); } else { parts.last_mut().unwrap().push(*t); } }
    if parts[0].len() != 3 { return "bad-input".into(); }
    let cfg = parts[0].clone();
    let ops: Vec<Vec<&str>> = parts[1..].to_vec();
    let rt = tokio::runtime::Builder::new_current_thread().enable_time().start_paused(true).build().unwrap();
    rt.block_on(run_case(&cfg, &ops))
}

// ------------------------------------------------------------------------------------------
pub fn gen(r: &mut Rng, i: u64) -> String {
    let timed = i % 40 == 7; // a few cases exercise real idle expiry (slow: real sleeps)
    let idle = if timed { "50".to_string() } else if r.chance(1, 4) { "0".to_string() } else if r.chance(1, 3) { "600000".to_string() } else { "-".to_string() };
    let max_idle = *r.pick(&[0u64, 1, 1, 2, 3, 32, 32]);
    let cap = r.chance(1, 2) as u8;
    let nkeys = r.range(1, 3);
    let keyset: Vec<u64> = { let mut ks: Vec<u64> = (0..4).collect(); for j in 0..4 { let x = r.below(4) as usize; ks.swap(j, x); } ks.truncate(nkeys as usize); ks };
    let h2_bias = r.below(3); // 0: all h1, 1: mixed, 2: mostly h2
    let mut ops: Vec<String> = Vec::new();
    let mut issued: Vec<u64> = Vec::new();
    let mut next_req = 0u64;
    let nops = r.range(6, 34);
    let mut dials_guess = 0u64;
    for step in 0..nops {
        if step == 0 || (step == 1 && r.chance(1, 2)) {
            let k = *r.pick(&keyset);
            let mux = match h2_bias { 0 => false, 1 => r.chance(1, 2), _ => r.chance(4, 5) };
            ops.push(format!("i {next_req} {k} {}", mux as u8));
            issued.push(next_req);
            next_req += 1;
            continue;
        }
        let pick_req = |r: &mut Rng, issued: &Vec<u64>| if issued.is_empty() { 0 } else { *r.pick(issued) };
        let wsel = r.weighted(&[if next_req < 8 { 18 } else { 2 }, 30, 5, 16, 10, 6, 3, 10, if timed { 3 } else { 0 }]);
        match wsel {
            0 => {
                let k = *r.pick(&keyset);
                let mux = match h2_bias { 0 => false, 1 => r.chance(1, 2), _ => r.chance(4, 5) };
                ops.push(format!("i {next_req} {k} {}", mux as u8));
                issued.push(next_req);
                next_req += 1;
            }
            1 => ops.push(format!("p {}", pick_req(r, &issued))),
            2 => ops.push(format!("c {}", pick_req(r, &issued))),
            3 => { dials_guess += 1; ops.push(format!("d {} {}", pick_req(r, &issued), r.pick(&["ok0", "ok0", "ok0", "ok1", "fc", "fh"]))) }
            4 => ops.push(format!("f {}", pick_req(r, &issued))),
            5 => ops.push(format!("cr {}", r.below(dials_guess.max(1)))),
            6 => ops.push(format!("cc {}", r.below(dials_guess.max(1)))),
            7 => ops.push("run".to_string()),
            _ => ops.push(format!("t {}", if r.chance(1, 2) { 150 } else { 5 })),
        }
    }
    // ---- drain: resolve every attempt, run tasks, poll everyone (twice), release everything, probe
    ops.push("mark".into());
    for round in 0..2 {
        for q in &issued { ops.push(format!("d {q} {}", if (q + round) % 3 == 0 { "fc" } else { "ok0" })); }
        ops.push("run".into());
        for q in &issued { ops.push(format!("p {q}")); }
    }
    ops.push("run".into());
    // from here on every attempt has terminated and everybody has been polled since: no checkout may still be pending
    ops.push("mark".into());
    for q in &issued { ops.push(format!("p {q}")); }
    // release everything, then probe every origin with a fresh request (third mark: probe phase)
    for q in &issued { ops.push(format!("f {q}")); }
    for c in 0..(issued.len() as u64 + 1) { ops.push(format!("cr {c}")); }
    ops.push("run".into());
    ops.push("mark".into());
    for (j, k) in keyset.iter().enumerate() {
        let q = 100 + j as u64;
        ops.push(format!("i {q} {k} {}", (h2_bias == 2) as u8));
        ops.push(format!("p {q}"));
        ops.push(format!("d {q} ok0"));
        ops.push(format!("p {q}"));
    }
    format!("{idle} {max_idle} {cap} ; {}", ops.join(" ; "))
}
