//! Stream `toc` (C19, the timeout as `Client::builder` installs it): a client over in-memory connections to a real
//! hyperdriver server whose handler answers `/hop/<k>` after a scripted delay - with a redirect to `/hop/<k+1>`, the last
//! one with 200 - under tokio's paused clock. The request timeout is handed to the builder in one of several ways and must
//! bound the whole request, redirects included; afterwards a probe request goes to the same origin.
//!
//! line: `toc <timeout ms|-> <via 0 with_timeout / without_timeout | 1 with_optional_timeout | 2 set, then set again>
//!            <redirects 0 without_redirects | 1 with_standard_redirect_policy | 2 Builder::default()> <pool 0|1> ; <delay ms>*`
//! obs : `<ok-STATUS | timeout | err | hang> <virtual ms until it resolved> <probe ok|timeout|err|hang>`
use crate::rng::Rng;
use http_body_util::BodyExt;
use hyperdriver::client::conn::transport::duplex::DuplexTransport;
use hyperdriver::server::conn::Acceptor;
use hyperdriver::stream::duplex;
use hyperdriver::{Body, Client, Server};
use std::sync::Arc;
use std::time::Duration;
use tower::ServiceExt;

type BoxError = Box<dyn std::error::Error + Send + Sync + 'static>;

pub fn gen(r: &mut Rng, _i: u64) -> String {
    let timeout = *r.pick(&["-", "0", "1", "50", "300", "300", "1000"]);
    let via = r.below(3);
    let redirects = r.below(3);
    let pool = r.chance(2, 3) as u8;
    let n = r.range(1, 4);
    let d: Option<u64> = timeout.parse().ok();
    let mut delays: Vec<u64> = (0..n).map(|_| *r.pick(&[0u64, 1, 20, 120, 200, 400])).collect();
    // no ties: a response that arrives in the very millisecond of the deadline may go either way
    let total: u64 = delays.iter().sum();
    if Some(total) == d || Some(delays[0]) == d { delays[0] += 7; }
    format!("{timeout} {via} {redirects} {pool} ; {}", delays.iter().map(|d| d.to_string()).collect::<Vec<_>>().join(" "))
}

pub fn run(toks: &[&str]) -> String {
    if toks.len() < 6 || toks[4] != ";" { return "bad-line".into(); }
    let timeout = toks[0].parse::<u64>().ok().map(Duration::from_millis);
    let (via, redirects, pool) = (toks[1], toks[2], toks[3] == "1");
    let delays: Vec<u64> = toks[5..].iter().filter_map(|t| t.parse().ok()).collect();
    if delays.is_empty() || delays.len() != toks.len() - 5 { return "bad-line".into(); }
    let delays = Arc::new(delays);
    let rt = tokio::runtime::Builder::new_current_thread().enable_all().start_paused(true).build().unwrap();
    rt.block_on(async move {
        let (client_end, incoming) = duplex::pair();
        let acceptor = Acceptor::from(incoming);
        let ds = delays.clone();
        let make = hyperdriver::service::make_service_fn(move |_io: &hyperdriver::server::conn::Stream| {
            let ds = ds.clone();
            async move {
                Ok::<_, BoxError>(tower::service_fn(move |req: http::Request<Body>| {
                    let ds = ds.clone();
                    async move {
                        let path = req.uri().path().to_string();
                        let Some(k) = path.strip_prefix("/hop/").and_then(|k| k.parse::<usize>().ok()) else {
                            return Ok::<_, BoxError>(http::Response::new(Body::from("probe")));
                        };
                        tokio::time::sleep(Duration::from_millis(*ds.get(k).unwrap_or(&0))).await;
                        if k + 1 < ds.len() {
                            Ok(http::Response::builder().status(302).header("location", format!("/hop/{}", k + 1)).body(Body::empty()).unwrap())
                        } else {
                            Ok(http::Response::new(Body::from("done")))
                        }
                    }
                }))
            }
        });
        let server = tokio::spawn(std::future::IntoFuture::into_future(Server::builder().with_acceptor(acceptor).with_make_service(make).with_auto_http().with_tokio()));
        let transport = DuplexTransport::new(64 * 1024, client_end);
        let other = Duration::from_millis(77_000);
        macro_rules! finish { ($b:expr) => {{
            let b = $b.with_auto_http().without_tls();
            let b = if pool { b.with_default_pool() } else { b.without_pool() };
            let b = match (via, timeout) {
                ("0", Some(d)) => b.with_timeout(d),
                ("0", None) => b.without_timeout(),
                ("1", t) => b.with_optional_timeout(t),
                (_, Some(d)) => b.with_timeout(other).with_timeout(d),
                (_, None) => b.with_timeout(other).without_timeout(),
            };
            b.build().into_inner().boxed_clone()
        }} }
        let svc = match redirects {
            "0" => finish!(Client::builder().with_transport(transport).without_redirects()),
            "1" => finish!(Client::builder().with_transport(transport).with_standard_redirect_policy()),
            _ => finish!(hyperdriver::client::Builder::default().with_transport(transport)),
        };
        let request = |path: &str| http::Request::builder().uri(format!("http://origin.test{path}")).body(Body::empty()).unwrap();
        let classify = |r: Result<Result<http::Response<Body>, hyperdriver::client::Error>, tokio::time::error::Elapsed>| match r {
            Err(_) => "hang".to_string(),
            Ok(Ok(resp)) => format!("ok-{}", resp.status().as_u16()),
            Ok(Err(hyperdriver::client::Error::RequestTimeout)) => "timeout".to_string(),
            Ok(Err(_)) => "err".to_string(),
        };
        let t0 = tokio::time::Instant::now();
        let out = classify(tokio::time::timeout(Duration::from_secs(600), svc.clone().oneshot(request("/hop/0"))).await);
        let elapsed = t0.elapsed().as_millis();
        // whatever the first request left behind, the origin can still be served
        let probe = match tokio::time::timeout(Duration::from_secs(600), svc.clone().oneshot(request("/probe"))).await {
            Err(_) => "hang".to_string(),
            Ok(Ok(resp)) => if resp.into_body().collect().await.is_ok() { "ok".to_string() } else { "err".to_string() },
            Ok(Err(hyperdriver::client::Error::RequestTimeout)) => "timeout".to_string(),
            Ok(Err(_)) => "err".to_string(),
        };
        server.abort();
        format!("{out} {elapsed} {probe}")
    })
}
