//! SplitMix64: every random choice of the harness derives from one state.
#[derive(Clone)]
pub struct Rng(pub u64);

impl Rng {
    pub fn new(seed: u64) -> Self {
        Rng(seed.wrapping_mul(0x9E3779B97F4A7C15).wrapping_add(0x1234_5678_9ABC_DEF1))
    }
    pub fn next(&mut self) -> u64 {
        self.0 = self.0.wrapping_add(0x9E3779B97F4A7C15);
        let mut z = self.0;
        z = (z ^ (z >> 30)).wrapping_mul(0xBF58476D1CE4E5B9);
        z = (z ^ (z >> 27)).wrapping_mul(0x94D049BB133111EB);
        z ^ (z >> 31)
    }
    /// uniform in 0..n (n > 0)
    pub fn below(&mut self, n: u64) -> u64 {
        self.next() % n
    }
    pub fn range(&mut self, lo: u64, hi: u64) -> u64 {
        lo + self.below(hi - lo + 1)
    }
    pub fn chance(&mut self, num: u64, den: u64) -> bool {
        self.below(den) < num
    }
    pub fn pick<'a, T>(&mut self, xs: &'a [T]) -> &'a T {
        &xs[self.below(xs.len() as u64) as usize]
    }
    /// weighted index
    pub fn weighted(&mut self, ws: &[u64]) -> usize {
        let total: u64 = ws.iter().sum();
        let mut x = self.below(total.max(1));
        for (i, w) in ws.iter().enumerate() {
            if x < *w {
                return i;
            }
            x -= *w;
        }
        ws.len() - 1
    }
    pub fn fork(&mut self) -> Rng {
        Rng(self.next())
    }
}
