//! Stream `np` (C17): requests from a grammar through the real client stacks
//!   client     `Client` built by `Client::builder()` (pool on)
//!   clientnp   the same without a pool
//!   pool       `ConnectionPoolLayer` (pool on) over the builder's inner layer stack
//!   nopool     the same with the pool off
//!   connector  `ConnectorLayer` over the same inner layer stack
//! over a transport that (optionally, `tcpcheck`) validates the URI exactly like the TCP transport
//! (`get_host_and_port`) and then connects through an in-memory duplex to a real hyperdriver `Server`
//! (auto HTTP/1 + HTTP/2; behind a TLS acceptor when `tls` = 1) answering every request with 200.
//! Panics are observed in the caller's task (catch_unwind) and in every task spawned meanwhile
//! (process-wide panic hook counter).
//!
//! line: `np <svc> <tls 0|1|2 (2: ALPN negotiates h2)> <tcpcheck 0|1> <method> <scheme|-> <host|-> <port|-> <path|-> <query|-> <ver> <hdr=val>*`
//!       (`path` may also be `*`)
//! obs : `<ok-STATUS | err-CLASS | panic | bad-request> <task panics> <rustls accepts the host as a server name 0|1>`
use crate::rng::Rng;
use futures_util::FutureExt;
use hyperdriver::client::conn::protocol::auto::HttpConnectionBuilder;
use hyperdriver::client::conn::transport::duplex::DuplexTransport;
use hyperdriver::client::conn::transport::{TransportExt, TlsTransport};
use hyperdriver::client::conn::connector::ConnectorLayer;
use hyperdriver::client::pool::{Config as PoolConfig, UriKey};
use hyperdriver::client::ConnectionPoolLayer;
use hyperdriver::server::conn::Acceptor;
use hyperdriver::service::{Http1ChecksLayer, Http2ChecksLayer, RequestExecutor, SetHostHeaderLayer};
use hyperdriver::stream::duplex::{self, DuplexStream};
use hyperdriver::{Body, Client, Server};
use std::sync::atomic::{AtomicUsize, Ordering};
use std::sync::Arc;
use std::task::{Context, Poll};
use tower::ServiceExt;

pub static PANICS: AtomicUsize = AtomicUsize::new(0);

type BoxError = Box<dyn std::error::Error + Send + Sync + 'static>;

const SVCS: &[&str] = &["client", "clientnp", "pool", "nopool", "connector", "connector"];
const HOSTS: &[&str] = &["example.com", "www.example.com", "localhost", "127.0.0.1", "10.1.2.3", "[::1]", "[2001:db8::7]", "x", "exa$mple.com", "a..b",
    "other.test", "EXAMPLE.com", "xn--nxasmq6b.example.com", "1.2.3", "my_host", "[fe80::1%25eth0]", "[1:2]",
    // an empty host (`http://:80/`), user information, both
    "^", "user@example.com", "user:pw@example.com", "user@^", "[]"];
/// ports the URI grammar lets through although they are no port numbers: empty (`host:`), out of range, not a number
const ODD_PORTS: &[&str] = &["e", "99999", "8a", "65536", "080"];
const SCHEMES: &[&str] = &["http", "https", "ws", "wss", "http", "https", "foo", "Wss", "h2c"];
const METHODS: &[&str] = &["GET", "POST", "PUT", "DELETE", "HEAD", "OPTIONS", "PATCH", "CONNECT", "CONNECT", "TRACE", "PURGE", "GET", "GET"];
const PATHS: &[&str] = &["-", "/", "/a", "/a/b/c", "/a%20b", "/~user/x;y=1", "//double", "*"];
const QUERIES: &[&str] = &["-", "-", "q=1", "a=b&c=d", "redirect=http://other.example/p?z"];
const HEADERS: &[&str] = &["connection=%ff", "x-bin=%80%fe", "te=%c3%28", "accept=*/*", "connection=keep-alive", "connection=close", "transfer-encoding=chunked", "upgrade=websocket", "te=trailers", "x-custom=1",
    "host=other.example", "host=", "content-length=0", "expect=100-continue", "user-agent=hdverif"];
pub const VERSIONS: &[&str] = &["09", "10", "11", "11", "11", "2", "2", "3"];

pub fn gen(r: &mut Rng, _i: u64) -> String {
    let svc = *r.pick(SVCS);
    let tls = match r.below(6) { 0 => 1, 1 | 2 => 2, _ => 0 };
    let tcpcheck = r.chance(1, 2) as u8;
    let method = *r.pick(METHODS);
    // URI forms: absolute (most), origin, authority, asterisk
    let (scheme, host, port, path, query) = match r.below(10) {
        0 => ("-", "-", "-".to_string(), *r.pick(&["/", "/a", "/rel/path"]), *r.pick(QUERIES)),            // origin-form
        1 => ("-", *r.pick(HOSTS), r.pick(&["-", "80", "443", "8080"]).to_string(), "-", "-"),            // authority-form
        2 => ("-", "-", "-".to_string(), "*", "-"),                                                         // asterisk-form
        _ => (*r.pick(SCHEMES), *r.pick(HOSTS), match r.below(7) { 0 | 1 => "-".to_string(), 2 => "80".into(), 3 => "443".into(), 4 => "0".into(), 5 => r.pick(ODD_PORTS).to_string(), _ => r.range(1, 65535).to_string() },
              *r.pick(PATHS), *r.pick(QUERIES)),
    };
    let path = if path == "*" && scheme != "-" { "/" } else { path };
    let ver = *r.pick(VERSIONS);
    let hs: Vec<&str> = (0..r.below(4)).map(|_| *r.pick(HEADERS)).collect();
    format!("{svc} {tls} {tcpcheck} {method} {scheme} {host} {port} {path} {query} {ver} {}", hs.join(" ")).trim_end().to_string()
}

/// every service x version x URI form x {GET, CONNECT} x tls x tcpcheck
pub fn exhaustive() -> Vec<String> {
    let mut out = vec![];
    let forms = ["http example.com - / -", "https example.com 443 /a q=1", "https [::1] - / -", "https exa$mple.com - / -", "wss example.com - /ws -", "foo example.com - / -", "foo example.com 99 / -",
        "- - - /rel -", "- example.com 443 - -", "- - - * -", "http example.com - - -", "https other.test - / -", "http 127.0.0.1 8080 /a -",
        "http ^ 80 / -", "https user@^ - / -", "http example.com e / -", "https example.com 99999 / -", "http [::1] 8a /a -", "http user:pw@example.com - / -"];
    for svc in ["client", "clientnp", "pool", "nopool", "connector"] {
        for tls in [0, 1, 2] {
            for tc in [0, 1] {
                for m in ["GET", "CONNECT", "OPTIONS", "POST"] {
                    for v in ["09", "10", "11", "2", "3"] {
                        for f in forms {
                            out.push(format!("np {svc} {tls} {tc} {m} {f} {v}"));
                            if m == "GET" && (v == "11" || v == "2") && f.starts_with("http") {
                                out.push(format!("np {svc} {tls} {tc} {m} {f} {v} connection=%ff"));
                                out.push(format!("np {svc} {tls} {tc} {m} {f} {v} x-bin=%80%fe te=%c3%28"));
                            }
                        }
                    }
                }
            }
        }
    }
    out
}

async fn handler(_: http::Request<Body>) -> Result<http::Response<Body>, BoxError> {
    Ok(http::Response::new(Body::from("ok")))
}

/// Transport: the TCP transport's URI validation (optionally) and then an in-memory connection.
#[derive(Clone)]
struct NpTransport { inner: DuplexTransport, tcpcheck: bool }
impl tower::Service<http::request::Parts> for NpTransport {
    type Response = DuplexStream;
    type Error = std::io::Error;
    type Future = std::pin::Pin<Box<dyn std::future::Future<Output = Result<DuplexStream, std::io::Error>> + Send + 'static>>;
    fn poll_ready(&mut self, cx: &mut Context<'_>) -> Poll<Result<(), Self::Error>> { self.inner.poll_ready(cx) }
    fn call(&mut self, req: http::request::Parts) -> Self::Future {
        if self.tcpcheck {
            if let Err(e) = hyperdriver::verif_hooks::tcp_get_host_and_port(&req.uri) {
                let msg = format!("tcp: {e}");
                return Box::pin(async move { Err(std::io::Error::new(std::io::ErrorKind::InvalidInput, msg)) });
            }
        }
        self.inner.call(req)
    }
}

/// `%XX` in a header value token is that byte (opaque, non-ASCII header values are legal)
fn unpercent(v: &str) -> Vec<u8> {
    let b = v.as_bytes();
    let mut out = vec![];
    let mut i = 0;
    while i < b.len() {
        if b[i] == b'%' && i + 3 <= b.len() {
            if let Some(x) = std::str::from_utf8(&b[i + 1..i + 3]).ok().and_then(|h| u8::from_str_radix(h, 16).ok()) { out.push(x); i += 3; continue; }
        }
        out.push(b[i]);
        i += 1;
    }
    out
}

fn build_request(toks: &[&str]) -> Option<http::Request<Body>> {
    let (method, scheme, host, port, path, query, ver) = (toks[0], toks[1], toks[2], toks[3], toks[4], toks[5], toks[6]);
    let mut uri = String::new();
    if scheme != "-" { uri.push_str(scheme); uri.push_str("://"); }
    if host != "-" { uri.push_str(&host.replace('^', "")); if port != "-" { uri.push(':'); if port != "e" { uri.push_str(port); } } }
    if path != "-" { uri.push_str(path); }
    if query != "-" { uri.push('?'); uri.push_str(query); }
    let version = match ver { "09" => http::Version::HTTP_09, "10" => http::Version::HTTP_10, "11" => http::Version::HTTP_11, "2" => http::Version::HTTP_2, _ => http::Version::HTTP_3 };
    let mut b = http::Request::builder().method(method).uri(uri).version(version);
    for h in &toks[7..] {
        let (n, v) = h.split_once('=')?;
        b = b.header(n, http::HeaderValue::from_bytes(&unpercent(v)).ok()?);
    }
    let body = if method == "POST" || method == "PUT" { Body::from("payload") } else { Body::empty() };
    b.body(body).ok()
}

fn classify(e: &hyperdriver::client::Error) -> String {
    use hyperdriver::client::Error as E;
    let detail = |b: &BoxError| {
        let s = format!("{b} {b:?}").to_ascii_lowercase();
        if s.contains("invaliddomain") || s.contains("invalid tls server name") { "tlsname" }
        else if s.contains("tls handshake") || s.contains("invalidcertificate") || s.contains("certificate") { "tlshandshake" }
        else if s.contains("tcp:") || s.contains("missing host") || s.contains("missing port") { "hostport" }
        else if s.contains("invalid uri") || s.contains("invaliduri") { "uri" }
        else if s.contains("unsupported") { "version" }
        else { "other" }
    };
    match e {
        E::Connection(b) => format!("err-connection-{}", detail(b)),
        E::Transport(b) => format!("err-transport-{}", detail(b)),
        E::Protocol(b) => format!("err-protocol-{}", detail(b)),
        E::Service(b) => format!("err-service-{}", detail(b)),
        E::User(_) => "err-user".into(),
        E::InvalidMethod(_) => "err-invalid-method".into(),
        E::UnsupportedProtocol => "err-unsupported-protocol".into(),
        E::RequestTimeout => "err-timeout".into(),
        _ => "err-unknown".into(),
    }
}

async fn run_case(toks: &[&str]) -> String {
    crate::tls::install();
    // tls: 0 = none; 1 = TLS, the client offers no ALPN; 2 = TLS, both sides offer h2 + http/1.1 (HTTP/2 is negotiated whatever
    // version the request names)
    let (svc, tls, tcpcheck) = (toks[0], toks[1] != "0", toks[2] == "1");
    let alpn = if toks[1] == "2" { "both" } else { "-" };
    let Some(req) = build_request(&toks[3..]) else { return "bad-request 0 1".into() };
    let before = PANICS.load(Ordering::SeqCst);

    // the server
    let (client, incoming) = duplex::pair();
    let acceptor = Acceptor::from(incoming);
    let acceptor = if tls { acceptor.with_tls(Arc::new(crate::tls::server_config("good", "both"))) } else { acceptor };
    let make = hyperdriver::service::make_service_fn(|_io: &hyperdriver::server::conn::Stream| async { Ok::<_, BoxError>(tower::service_fn(handler)) });
    let server = tokio::spawn(std::future::IntoFuture::into_future(Server::builder().with_acceptor(acceptor).with_make_service(make).with_auto_http().with_tokio()));

    let transport = NpTransport { inner: DuplexTransport::new(64 * 1024, client), tcpcheck };
    let tls_cfg = if tls { Some(crate::tls::client_config(alpn)) } else { None };

    let fut = async move {
        macro_rules! inner { () => { tower::ServiceBuilder::new()
            .layer(SetHostHeaderLayer::new())
            .layer(Http2ChecksLayer::new())
            .layer(Http1ChecksLayer::new())
            .service(RequestExecutor::new()) } }
        let res: Result<http::StatusCode, hyperdriver::client::Error> = match svc {
            "client" | "clientnp" => {
                let b = Client::builder().with_transport(transport).with_auto_http().without_redirects().with_timeout(std::time::Duration::from_secs(5));
                let b = if let Some(c) = tls_cfg { b.with_tls(c) } else { b.without_tls() };
                let b = if svc == "client" { b.with_default_pool() } else { b.without_pool() };
                let client = b.build();
                client.into_inner().oneshot(req).await.map(|r| r.status())
            }
            "pool" | "nopool" => {
                let t = transport.with_optional_tls(tls_cfg.map(Arc::new));
                let layer = ConnectionPoolLayer::<_, _, _, UriKey>::new(t, HttpConnectionBuilder::<Body>::default())
                    .with_optional_pool(if svc == "pool" { Some(PoolConfig::default()) } else { None });
                let s = tower::ServiceBuilder::new().layer(layer).service(inner!());
                tokio::time::timeout(std::time::Duration::from_secs(5), s.oneshot(req)).await.unwrap_or(Err(hyperdriver::client::Error::RequestTimeout)).map(|r| r.status())
            }
            _ => {
                let t: TlsTransport<NpTransport> = transport.with_optional_tls(tls_cfg.map(Arc::new));
                let s = tower::ServiceBuilder::new().layer(ConnectorLayer::new(t, HttpConnectionBuilder::<Body>::default())).service(inner!());
                tokio::time::timeout(std::time::Duration::from_secs(5), s.oneshot(req)).await.unwrap_or(Err(hyperdriver::client::Error::RequestTimeout)).map(|r| r.status())
            }
        };
        match res { Ok(s) => format!("ok-{}", s.as_u16()), Err(e) => classify(&e) }
    };
    let out = match std::panic::AssertUnwindSafe(fut).catch_unwind().await { Ok(s) => s, Err(_) => "panic".to_string() };
    // let every task spawned for this request run to its end
    for _ in 0..3 { tokio::time::sleep(std::time::Duration::from_millis(10)).await; }
    server.abort();
    let _ = server.await;
    tokio::time::sleep(std::time::Duration::from_millis(10)).await;
    let after = PANICS.load(Ordering::SeqCst);
    let caller = (out == "panic") as usize;
    // the host as `Uri::host` sees it: `^` stands for the empty host, user information is not part of it
    let host_tok = toks[5].replace('^', "");
    let host = host_tok.rsplit('@').next().unwrap_or("");
    let stripped = host.strip_prefix('[').and_then(|h| h.strip_suffix(']')).unwrap_or(host);
    let nv = (toks[5] == "-" || rustls::pki_types::ServerName::try_from(stripped).is_ok()) as u8;
    format!("{out} {} {nv}", (after - before).saturating_sub(caller))
}

pub fn run(toks: &[&str]) -> String {
    if toks.len() < 10 { return "bad-input".into(); }
    let rt = tokio::runtime::Builder::new_current_thread().enable_all().start_paused(true).build().unwrap();
    let r = rt.block_on(run_case(toks));
    drop(rt);
    r
}
