//! Stream `tlsp` (C12): a sequence of requests to ONE authority, differing in scheme, through the real
//! pooled `Client` (`Client::builder()` with TLS configured and the default pool) over a scripted inner
//! transport. Every connection the client opens ends at a peer of its own that records the raw bytes it
//! receives, answers a TLS handshake if the first byte starts one (real rustls, the `good` certificate)
//! and then serves `HTTP/1.1 200` to every request head it sees, keeping the connection open - so that
//! the pool can reuse it. The head of an https/wss request must never be readable in the raw bytes of
//! any connection.
//!
//! line: `tlsp <host> <port|-> [<builder order 0-5>] ; <scheme> ; <scheme> ; …`     (requests are sent one after the other)
//!   builder order: where `with_tls` comes among the builder calls - last (0), first (1), first and followed by pool, transport,
//!   protocol, redirect policy, timeout (2), between transport and protocol (3), on `Builder::default()` before the transport (4),
//!   before `with_protocol` and the transport (5)
//! obs : `<result>.<leak 0|1> … ; <wire of connection 0> <wire of connection 1> …`
//!   result: ok | err-<class> | panic;  wire: tls | ascii | other | none
use crate::rng::Rng;
use crate::tls::{client_config, install, server_config, TIo, Tap};
use futures_util::FutureExt;
use hyperdriver::{Body, Client};
use std::pin::Pin;
use std::sync::{Arc, Mutex};
use std::task::{Context, Poll};
use tokio::io::{AsyncRead, AsyncReadExt, AsyncWrite, AsyncWriteExt, ReadBuf};
use tower::ServiceExt;

const SCHEMES: &[&str] = &["http", "https", "ws", "wss"];
const HOSTS: &[&str] = &["example.com", "www.example.com", "localhost", "127.0.0.1", "[::1]"];

pub fn gen(r: &mut Rng, _i: u64) -> String {
    let n = r.range(2, 5);
    let port = *r.pick(&["-", "-", "8443", "443", "80", "8080"]);
    let reqs: Vec<&str> = (0..n).map(|_| *r.pick(SCHEMES)).collect();
    format!("{} {port} {} ; {}", r.pick(HOSTS), r.below(6), reqs.join(" ; "))
}

/// every ordered pair and triple of schemes (80 cases) on two authorities
pub fn exhaustive() -> Vec<String> {
    let mut out = vec![];
    for (h, p) in [("example.com", "-"), ("localhost", "8080")] {
        for a in SCHEMES { for b in SCHEMES {
            out.push(format!("tlsp {h} {p} ; {a} ; {b}"));
            for c in SCHEMES { out.push(format!("tlsp {h} {p} ; {a} ; {b} ; {c}")); }
            // … and the pair once more for every order of the builder calls
            for o in 1..6 { out.push(format!("tlsp {h} {p} {o} ; {a} ; {b}")); }
        } }
    }
    out
}

/// reader that yields one already-consumed byte first
struct Prefixed<S> { pre: Option<u8>, io: S }
impl<S: AsyncRead + Unpin> AsyncRead for Prefixed<S> {
    fn poll_read(mut self: Pin<&mut Self>, cx: &mut Context<'_>, buf: &mut ReadBuf<'_>) -> Poll<std::io::Result<()>> {
        if buf.remaining() > 0 { if let Some(b) = self.pre.take() { buf.put_slice(&[b]); return Poll::Ready(Ok(())); } }
        Pin::new(&mut self.io).poll_read(cx, buf)
    }
}
impl<S: AsyncWrite + Unpin> AsyncWrite for Prefixed<S> {
    fn poll_write(mut self: Pin<&mut Self>, cx: &mut Context<'_>, buf: &[u8]) -> Poll<std::io::Result<usize>> { Pin::new(&mut self.io).poll_write(cx, buf) }
    fn poll_flush(mut self: Pin<&mut Self>, cx: &mut Context<'_>) -> Poll<std::io::Result<()>> { Pin::new(&mut self.io).poll_flush(cx) }
    fn poll_shutdown(mut self: Pin<&mut Self>, cx: &mut Context<'_>) -> Poll<std::io::Result<()>> { Pin::new(&mut self.io).poll_shutdown(cx) }
}

async fn serve_http<S: AsyncRead + AsyncWrite + Unpin>(mut s: S) {
    let mut buf: Vec<u8> = vec![];
    let mut chunk = [0u8; 4096];
    loop {
        match s.read(&mut chunk).await { Ok(0) | Err(_) => return, Ok(n) => buf.extend_from_slice(&chunk[..n]) }
        while let Some(pos) = buf.windows(4).position(|w| w == b"\r\n\r\n") {
            buf.drain(..pos + 4);
            if s.write_all(b"HTTP/1.1 200 OK\r\ncontent-length: 0\r\n\r\n").await.is_err() { return; }
            let _ = s.flush().await;
        }
    }
}

async fn peer(mut tap: Tap) {
    let mut first = [0u8; 1];
    if tap.read(&mut first).await.unwrap_or(0) == 0 { return; }
    let io = Prefixed { pre: Some(first[0]), io: tap };
    if first[0] == 0x16 {
        let acc = tokio_rustls::TlsAcceptor::from(Arc::new(server_config("good", "-")));
        if let Ok(s) = acc.accept(io).await { serve_http(s).await; }
    } else {
        serve_http(io).await;
    }
}

type Raws = Arc<Mutex<Vec<Arc<Mutex<Vec<u8>>>>>>;

#[derive(Clone)]
struct PeerPerConn(Raws);
impl tower::Service<http::request::Parts> for PeerPerConn {
    type Response = TIo;
    type Error = std::io::Error;
    type Future = std::future::Ready<Result<TIo, std::io::Error>>;
    fn poll_ready(&mut self, _: &mut Context<'_>) -> Poll<Result<(), Self::Error>> { Poll::Ready(Ok(())) }
    fn call(&mut self, _: http::request::Parts) -> Self::Future {
        let (c, s) = tokio::io::duplex(1 << 16);
        let raw = Arc::new(Mutex::new(Vec::new()));
        self.0.lock().unwrap().push(raw.clone());
        tokio::spawn(peer(Tap::new(s, raw)));
        std::future::ready(Ok(TIo::new(c)))
    }
}

fn classify(e: &hyperdriver::client::Error) -> &'static str {
    use hyperdriver::client::Error as E;
    match e { E::Connection(_) => "err-connection", E::Transport(_) => "err-transport", E::Protocol(_) => "err-protocol", E::RequestTimeout => "err-timeout", _ => "err-other" }
}

fn contains(h: &[u8], n: &[u8]) -> bool { h.windows(n.len()).any(|w| w == n) }

pub fn run(toks: &[&str]) -> String {
    let mut parts: Vec<Vec<&str>> = vec![vec![]];
    for t in toks { if *t == ";" { parts.push(vec![]); } else { parts.last_mut().unwrap().push(*t); } }
    if !(parts[0].len() == 2 || parts[0].len() == 3) || parts.len() < 2 || parts[1..].iter().any(|p| p.len() != 1) { return "bad-line".into(); }
    let order = parts[0].get(2).and_then(|t| t.parse::<u64>().ok()).unwrap_or(0);
    install();
    let (host, port) = (parts[0][0].to_string(), parts[0][1].to_string());
    let schemes: Vec<String> = parts[1..].iter().map(|p| p[0].to_string()).collect();
    let rt = tokio::runtime::Builder::new_current_thread().enable_all().start_paused(true).build().unwrap();
    rt.block_on(async move {
        let raws: Raws = Default::default();
        let t5 = std::time::Duration::from_secs(5);
        let tr = PeerPerConn(raws.clone());
        let client = match order {
            1 => Client::builder().with_tls(client_config("-")).with_transport(tr).with_auto_http().without_redirects().with_timeout(t5).with_default_pool().build(),
            2 => Client::builder().with_tls(client_config("-")).with_default_pool().with_transport(tr).with_auto_http().with_standard_redirect_policy().with_timeout(t5).build(),
            3 => Client::builder().with_transport(tr).with_tls(client_config("-")).with_auto_http().without_redirects().with_timeout(t5).with_default_pool().build(),
            4 => hyperdriver::client::Builder::default().with_tls(client_config("-")).with_transport(tr).with_auto_http().without_redirects().with_timeout(t5).build(),
            5 => Client::builder().with_tls(client_config("-")).with_protocol(hyperdriver::client::conn::protocol::auto::HttpConnectionBuilder::<Body>::default()).with_transport(tr)
                    .without_redirects().with_timeout(t5).with_default_pool().build(),
            _ => Client::builder().with_transport(tr).with_auto_http().without_redirects().with_timeout(t5).with_tls(client_config("-")).with_default_pool().build(),
        };
        let svc = client.into_inner();
        let mut results = vec![];
        for (i, scheme) in schemes.iter().enumerate() {
            let auth = if port == "-" { host.clone() } else { format!("{host}:{port}") };
            let uri = format!("{scheme}://{auth}/secret-r{i}");
            let Ok(req) = http::Request::builder().uri(uri).body(Body::empty()) else { results.push("bad-uri".to_string()); continue };
            let fut = svc.clone().oneshot(req);
            let res = match std::panic::AssertUnwindSafe(fut).catch_unwind().await {
                Ok(Ok(r)) => if r.status() == 200 { "ok" } else { "err-status" },
                Ok(Err(e)) => classify(&e),
                Err(_) => "panic",
            };
            results.push(res.to_string());
            // let the connection report ready again and go back to the pool
            for _ in 0..3 { tokio::time::sleep(std::time::Duration::from_millis(5)).await; }
        }
        let raws: Vec<Vec<u8>> = raws.lock().unwrap().iter().map(|r| r.lock().unwrap().clone()).collect();
        let obs: Vec<String> = results.iter().enumerate().map(|(i, r)| {
            let needle = format!("/secret-r{i} ");
            let leak = raws.iter().any(|raw| contains(raw, needle.as_bytes()));
            format!("{r}.{}", leak as u8)
        }).collect();
        let wires: Vec<&str> = raws.iter().map(|raw| match raw.first() {
            None => "none",
            Some(0x16) if raw.get(1) == Some(&0x03) => "tls",
            Some(b) if b.is_ascii_graphic() => "ascii",
            Some(_) => "other",
        }).collect();
        format!("{} ; {}", obs.join(" "), if wires.is_empty() { "-".to_string() } else { wires.join(" ") })
    })
}
