//! Stream `srv` (C07, C09): the real `Server` (HTTP/1 or auto-detecting) on a duplex acceptor with
//! scripted raw clients and a gated handler. After every op all spawned tasks run until stalled
//! (paused clock), so each op is atomic and deterministic.
//!
//! line: `srv <h1|auto> <graceful 0|1|2 (2: the completed serving future is kept alive)> <acc raw|wrapped|tls> <makefail k|-> ; <op> ; …`
//!   acc `tls`: the wrapped acceptor with TLS; a client connects the transport at `conn` and performs the TLS handshake with its
//!   first `send` (so it can be connected without having said anything yet); its `eof` is 1 when the server closed the TLS session
//!   properly (close_notify) and 2 when the transport just ended
//!   op: `conn i` | `connx i` (connect request queued, then the client gives up before it is accepted)
//!       | `send i full|half|rest|garbage|prihalf|pri` | `gate i` | `close i` | `signal` | `droplistener`
//!       | `sigconn i` / `sigdrop`: the signal resolves and a connect request / loss of the listener become ready before the server runs again
//! obs per op: `<P|OK|EA|EM> <client>*` with client = `<n|o|x|r>.<complete 200 responses>.<eof 0|1>.<handler calls>`;
//!   the last op's observation ends with `mk=<make-service calls not preceded by a poll_ready that answered ready>`
use crate::rng::Rng;
use hyperdriver::server::conn::Acceptor;
use hyperdriver::service::make_service_fn;
use hyperdriver::stream::duplex::{self, DuplexStream};
use hyperdriver::{Body, Server};
use std::collections::HashMap;
use std::future::Future;
use std::pin::Pin;
use std::sync::atomic::{AtomicUsize, Ordering};
use std::sync::{Arc, Mutex};
use std::task::{Context, Poll};
use tokio::io::{AsyncRead, AsyncWriteExt, ReadBuf};
use tokio::sync::Semaphore;

type BoxError = Box<dyn std::error::Error + Send + Sync + 'static>;
type ServeFut = Pin<Box<dyn Future<Output = Result<(), hyperdriver::server::ServerError>> + Send>>;

#[derive(Default)]
struct Shared {
    gates: Mutex<HashMap<usize, Arc<Semaphore>>>,
    calls: Mutex<HashMap<usize, usize>>,
    made: AtomicUsize,
    /// make-service calls that were not preceded by a `poll_ready` answering ready (tower's contract; a make-service that
    /// limits concurrent connections, say, relies on it)
    unready_calls: AtomicUsize,
}

/// watches that the server asks the make-service whether it is ready before every call
struct ReadyWatch<M> { inner: M, ready: bool, sh: Arc<Shared> }
impl<'a, IO, M> tower::Service<&'a IO> for ReadyWatch<M>
where
    M: tower::Service<&'a IO>,
{
    type Response = M::Response;
    type Error = M::Error;
    type Future = M::Future;
    fn poll_ready(&mut self, cx: &mut Context<'_>) -> Poll<Result<(), Self::Error>> {
        let r = self.inner.poll_ready(cx);
        if matches!(r, Poll::Ready(Ok(()))) { self.ready = true; }
        r
    }
    fn call(&mut self, io: &'a IO) -> Self::Future {
        if !self.ready { self.sh.unready_calls.fetch_add(1, Ordering::SeqCst); }
        self.ready = false;
        self.inner.call(io)
    }
}

fn gate(sh: &Shared, i: usize) -> Arc<Semaphore> {
    sh.gates.lock().unwrap().entry(i).or_insert_with(|| Arc::new(Semaphore::new(0))).clone()
}

async fn handler(sh: Arc<Shared>, req: http::Request<Body>) -> Result<http::Response<Body>, BoxError> {
    let i: usize = req.headers().get("x-c").and_then(|v| v.to_str().ok()).and_then(|s| s.parse().ok()).unwrap_or(99);
    *sh.calls.lock().unwrap().entry(i).or_insert(0) += 1;
    let g = gate(&sh, i);
    let permit = g.acquire().await?;
    permit.forget();
    Ok(http::Response::new(Body::from("ok")))
}

enum CIo { Plain(DuplexStream), PreTls(DuplexStream), Tls(Box<tokio_rustls::client::TlsStream<DuplexStream>>), Gone }
/// eof: 0 no, 1 the server closed the connection, 2 (TLS) the transport ended without the session having been closed
enum Client { None, Open { io: CIo, buf: Vec<u8>, eof: u8 }, Closed { buf: Vec<u8>, eof: u8 }, Refused }

const HALF: &str = "GET /x HT";
fn full(i: usize) -> String { format!("GET /x HTTP/1.1\r\nhost: example.com\r\nx-c: {i}\r\n\r\n") }
fn rest(i: usize) -> String { full(i)[HALF.len()..].to_string() }

fn drain(c: &mut Client) {
    if let Client::Open { io, buf, eof } = c {
        let waker = futures_util::task::noop_waker();
        let mut cx = Context::from_waker(&waker);
        loop {
            let mut tmp = [0u8; 4096];
            let mut rb = ReadBuf::new(&mut tmp);
            let (res, tls) = match io {
                CIo::Plain(io) | CIo::PreTls(io) => (Pin::new(&mut *io).poll_read(&mut cx, &mut rb), false),
                CIo::Tls(io) => (Pin::new(&mut **io).poll_read(&mut cx, &mut rb), true),
                CIo::Gone => break,
            };
            match res {
                Poll::Ready(Ok(())) => { if rb.filled().is_empty() { if *eof == 0 { *eof = 1; } break; } buf.extend_from_slice(rb.filled()); }
                Poll::Ready(Err(e)) => { if *eof == 0 { *eof = if tls && e.kind() == std::io::ErrorKind::UnexpectedEof { 2 } else { 1 }; } break; }
                Poll::Pending => break,
            }
        }
    }
}

#[derive(Debug)]
struct AnyCert(Arc<rustls::crypto::CryptoProvider>);
impl rustls::client::danger::ServerCertVerifier for AnyCert {
    fn verify_server_cert(&self, _: &rustls::pki_types::CertificateDer<'_>, _: &[rustls::pki_types::CertificateDer<'_>], _: &rustls::pki_types::ServerName<'_>, _: &[u8], _: rustls::pki_types::UnixTime) -> Result<rustls::client::danger::ServerCertVerified, rustls::Error> { Ok(rustls::client::danger::ServerCertVerified::assertion()) }
    fn verify_tls12_signature(&self, m: &[u8], c: &rustls::pki_types::CertificateDer<'_>, d: &rustls::DigitallySignedStruct) -> Result<rustls::client::danger::HandshakeSignatureValid, rustls::Error> { rustls::crypto::verify_tls12_signature(m, c, d, &self.0.signature_verification_algorithms) }
    fn verify_tls13_signature(&self, m: &[u8], c: &rustls::pki_types::CertificateDer<'_>, d: &rustls::DigitallySignedStruct) -> Result<rustls::client::danger::HandshakeSignatureValid, rustls::Error> { rustls::crypto::verify_tls13_signature(m, c, d, &self.0.signature_verification_algorithms) }
    fn supported_verify_schemes(&self) -> Vec<rustls::SignatureScheme> { self.0.signature_verification_algorithms.supported_schemes() }
}

/// the client's side of the TLS handshake (the server runs meanwhile); `Err(true)` if the server has closed the connection,
/// `Err(false)` if nobody answers
async fn tls_handshake(io: DuplexStream) -> Result<Box<tokio_rustls::client::TlsStream<DuplexStream>>, bool> {
    let provider = Arc::new(rustls::crypto::ring::default_provider());
    let cfg = rustls::ClientConfig::builder().dangerous().with_custom_certificate_verifier(Arc::new(AnyCert(provider))).with_no_client_auth();
    let name = rustls::pki_types::ServerName::try_from("example.com").unwrap();
    match tokio::time::timeout(std::time::Duration::from_millis(50), tokio_rustls::TlsConnector::from(Arc::new(cfg)).connect(name, io)).await {
        Ok(Ok(s)) => Ok(Box::new(s)),
        Ok(Err(_)) => Err(true),
        Err(_) => Err(false),
    }
}

fn count_ok(buf: &[u8]) -> usize {
    let s = String::from_utf8_lossy(buf);
    s.matches("HTTP/1.1 200 OK").count().min(s.matches("\r\n\r\nok").count())
}

async fn settle() { tokio::time::sleep(std::time::Duration::from_millis(1)).await; }

async fn run_case(cfg: &[&str], ops: &[Vec<&str>]) -> String {
    let sh: Arc<Shared> = Default::default();
    let (client, incoming) = duplex::pair();
    let mut client = Some(client);
    let makefail: Option<usize> = cfg[3].parse().ok();
    macro_rules! make {
        ($io:ty) => {{
            let sh2 = sh.clone();
            ReadyWatch { ready: false, sh: sh.clone(), inner: make_service_fn(move |_io: &$io| {
                let sh = sh2.clone();
                let k = sh.made.fetch_add(1, Ordering::SeqCst);
                let fail = makefail == Some(k);
                async move {
                    if fail { return Err::<_, BoxError>("make-service failed".into()); }
                    let sh = sh.clone();
                    Ok(tower::service_fn(move |req| handler(sh.clone(), req)))
                }
            }) }
        }};
    }
    let (sig_tx, sig_rx) = tokio::sync::oneshot::channel::<()>();
    let mut sig_tx = Some(sig_tx);
    // graceful: 0 = plain `Serving`; 1 = with_graceful_shutdown, the future is awaited by value (dropped when it completes);
    // 2 = with_graceful_shutdown, the completed future is kept alive (nothing may depend on it being dropped)
    let graceful = cfg[1] != "0";
    let hold = cfg[1] == "2";
    let tls = cfg[2] == "tls";
    macro_rules! finish {
        ($srv:expr) => {{
            let srv = $srv;
            let f: ServeFut = if graceful { Box::pin(srv.with_graceful_shutdown(async move { let _ = sig_rx.await; })) } else { Box::pin(std::future::IntoFuture::into_future(srv)) };
            f
        }};
    }
    let serve: ServeFut = match (cfg[0], cfg[2]) {
        ("h1", "tls") => { crate::tls::install(); finish!(Server::builder().with_acceptor(Acceptor::from(incoming).with_tls(Arc::new(crate::tls::server_config("good", "-")))).with_make_service(make!(hyperdriver::server::conn::Stream)).with_http1().with_tokio()) }
        (_, "tls") => { crate::tls::install(); finish!(Server::builder().with_acceptor(Acceptor::from(incoming).with_tls(Arc::new(crate::tls::server_config("good", "-")))).with_make_service(make!(hyperdriver::server::conn::Stream)).with_auto_http().with_tokio()) }
        ("h1", "raw") => finish!(Server::builder().with_acceptor(incoming).with_make_service(make!(DuplexStream)).with_http1().with_tokio()),
        ("h1", "wrapped") => finish!(Server::builder().with_acceptor(Acceptor::from(incoming)).with_make_service(make!(hyperdriver::server::conn::Stream)).with_http1().with_tokio()),
        (_, "raw") => finish!(Server::builder().with_acceptor(incoming).with_make_service(make!(DuplexStream)).with_auto_http().with_tokio()),
        (_, "wrapped") => finish!(Server::builder().with_acceptor(Acceptor::from(incoming)).with_make_service(make!(hyperdriver::server::conn::Stream)).with_auto_http().with_tokio()),
        (_, _) => unreachable!(),
    };
    let result: Arc<Mutex<Option<String>>> = Default::default();
    let r2 = result.clone();
    let server_task = tokio::spawn(async move {
        let mut serve = serve;
        let r = (&mut serve).await;
        *r2.lock().unwrap() = Some(match r { Ok(()) => "OK".into(), Err(hyperdriver::server::ServerError::Accept(_)) => "EA".into(),
            Err(hyperdriver::server::ServerError::MakeService(_)) => "EM".into(), Err(_) => "EO".into() });
        if hold { std::future::pending::<()>().await; }
        drop(serve);
    });
    settle().await;
    let nclients = 4;
    let mut clients: Vec<Client> = (0..nclients).map(|_| Client::None).collect();
    let mut out = Vec::new();
    for op in ops {
        let i: usize = op.get(1).and_then(|s| s.parse().ok()).unwrap_or(0).min(nclients - 1);
        match op.first().copied().unwrap_or("") {
            "conn" => {
                if matches!(clients[i], Client::None) {
                    if let Some(cl) = client.clone() {
                        let h = tokio::spawn(async move { cl.connect(64 * 1024).await });
                        settle().await;
                        if h.is_finished() {
                            clients[i] = match h.await { Ok(Ok(io)) => Client::Open { io: if tls { CIo::PreTls(io) } else { CIo::Plain(io) }, buf: vec![], eof: 0 }, _ => Client::Refused };
                        } else {
                            // nobody accepts any more (server gone or not polling): give up
                            h.abort();
                            clients[i] = Client::Refused;
                        }
                    } else { clients[i] = Client::Refused; }
                }
            }
            "connx" => {
                if let Some(cl) = client.clone() {
                    // queue a connection request, then walk away before it is accepted
                    let mut fut = Box::pin(async move { cl.connect(1024).await });
                    let waker = futures_util::task::noop_waker();
                    let mut cx = Context::from_waker(&waker);
                    let _ = fut.as_mut().poll(&mut cx);
                    drop(fut);
                }
            }
            "send" => {
                if let Client::Open { io, eof, .. } = &mut clients[i] {
                    // TLS: the first thing a client sends is preceded by its handshake
                    if matches!(io, CIo::PreTls(_)) {
                        let CIo::PreTls(raw) = std::mem::replace(io, CIo::Gone) else { unreachable!() };
                        match tls_handshake(raw).await { Ok(s) => *io = CIo::Tls(s), Err(closed) => { if closed && *eof == 0 { *eof = 1; } } }
                    }
                    let bytes: Vec<u8> = match op.get(2).copied().unwrap_or("") {
                        "full" => full(i).into_bytes(),
                        "half" => HALF.as_bytes().to_vec(),
                        "rest" => rest(i).into_bytes(),
                        "garbage" => b"\x00\x01garbage\r\n\r\n".to_vec(),
                        "prihalf" => crate::sniff::PREFACE[..10].to_vec(),
                        "pri" => crate::sniff::PREFACE.to_vec(),
                        _ => vec![],
                    };
                    match io {
                        CIo::Plain(io) | CIo::PreTls(io) => { let _ = io.write_all(&bytes).await; let _ = io.flush().await; }
                        CIo::Tls(io) => { let _ = io.write_all(&bytes).await; let _ = io.flush().await; }
                        CIo::Gone => {}
                    }
                }
            }
            "gate" => gate(&sh, i).add_permits(1),
            "close" => {
                let old = std::mem::replace(&mut clients[i], Client::None);
                clients[i] = match old { Client::Open { io, buf, eof } => { drop(io); Client::Closed { buf, eof } } other => other };
            }
            "signal" => { if let Some(tx) = sig_tx.take() { let _ = tx.send(()); } }
            "droplistener" => { client = None; }
            // the signal resolves and, before the server is polled again, something else becomes ready too
            "sigdrop" => { if let Some(tx) = sig_tx.take() { let _ = tx.send(()); } client = None; }
            "sigconn" => {
                if let Some(tx) = sig_tx.take() { let _ = tx.send(()); }
                if matches!(clients[i], Client::None) {
                    if let Some(cl) = client.clone() {
                        let mut fut = Box::pin(async move { cl.connect(64 * 1024).await });
                        let waker = futures_util::task::noop_waker();
                        let mut cx = Context::from_waker(&waker);
                        let first = fut.as_mut().poll(&mut cx); // queues the request; the server has not run yet
                        let h = tokio::spawn(async move { match first { Poll::Ready(r) => r, Poll::Pending => fut.await } });
                        settle().await;
                        if h.is_finished() {
                            clients[i] = match h.await { Ok(Ok(io)) => Client::Open { io: if tls { CIo::PreTls(io) } else { CIo::Plain(io) }, buf: vec![], eof: 0 }, _ => Client::Refused };
                        } else { h.abort(); clients[i] = Client::Refused; }
                    } else { clients[i] = Client::Refused; }
                }
            }
            _ => {}
        }
        settle().await;
        for c in clients.iter_mut() { drain(c); }
        let srv = result.lock().unwrap().clone().unwrap_or("P".into());
        let calls = sh.calls.lock().unwrap().clone();
        let cs: Vec<String> = clients.iter().enumerate().map(|(i, c)| {
            let hc = calls.get(&i).copied().unwrap_or(0);
            match c {
                Client::None => format!("n.0.0.{hc}"),
                Client::Refused => format!("r.0.0.{hc}"),
                Client::Open { buf, eof, .. } => format!("o.{}.{}.{hc}", count_ok(buf), *eof),
                Client::Closed { buf, eof } => format!("x.{}.{}.{hc}", count_ok(buf), *eof),
            }
        }).collect();
        out.push(format!("{srv} {}", cs.join(" ")));
    }
    server_task.abort();
    // (not a client: the driver reads it off the last op's observation)
    let unready = sh.unready_calls.load(Ordering::SeqCst);
    if let Some(last) = out.last_mut() { last.push_str(&format!(" mk={unready}")); }
    out.join(" ; ")
}

pub fn run(toks: &[&str]) -> String {
    let mut parts: Vec<Vec<&str>> = vec![vec![]];
    for t in toks { if *t == ";" { parts.push(vec![]); } else { parts.last_mut().unwrap().push(*t); } }
    if parts[0].len() != 4 { return "bad-input".into(); }
    let cfg = parts[0].clone();
    let ops: Vec<Vec<&str>> = parts[1..].to_vec();
    let rt = tokio::runtime::Builder::new_current_thread().enable_all().start_paused(true).build().unwrap();
    rt.block_on(run_case(&cfg, &ops))
}

pub fn gen(r: &mut Rng, _i: u64) -> String {
    let proto = if r.chance(1, 2) { "h1" } else { "auto" };
    let graceful = match r.below(8) { 0 | 1 => 0, 2 | 3 | 4 => 1, _ => 2 };
    let acc = match r.below(3) { 0 => "raw", 1 => "wrapped", _ => "tls" };
    let makefail = if r.chance(1, 8) { r.below(3).to_string() } else { "-".to_string() };
    // the generator tracks the obvious client state so that most ops are meaningful
    #[derive(Clone, Copy, PartialEq)]
    enum St { None, Idle, Partial, InHandler, Dead }
    let mut st = [St::None; 4];
    let mut ops: Vec<String> = Vec::new();
    let mut signalled = false;
    for _ in 0..r.range(4, 16) {
        let i = r.below(4) as usize;
        let op = match r.below(14) {
            0..=2 => { if st[i] == St::None { st[i] = St::Idle; } format!("conn {i}") }
            3 => "connx 0".to_string(),
            4..=6 => match st[i] {
                St::Idle => match r.below(6) {
                    0 => { st[i] = St::Partial; format!("send {i} half") }
                    1 => { st[i] = St::Dead; format!("send {i} garbage") }
                    2 if proto == "auto" => { st[i] = St::Dead; format!("send {i} prihalf") }
                    _ => { st[i] = St::InHandler; format!("send {i} full") }
                },
                St::Partial => { st[i] = St::InHandler; format!("send {i} rest") }
                _ => format!("gate {i}"),
            },
            7..=8 => { if st[i] == St::InHandler { st[i] = St::Idle; } format!("gate {i}") }
            9 => { if st[i] != St::None { st[i] = St::Dead; } format!("close {i}") }
            10..=11 if !signalled => {
                signalled = true;
                match r.below(4) { 0 => { if st[i] == St::None { st[i] = St::Dead; } format!("sigconn {i}") } 1 if r.chance(1, 3) => "sigdrop".to_string(), _ => "signal".to_string() }
            }
            12 if r.chance(1, 4) => "droplistener".to_string(),
            _ => format!("gate {i}"),
        };
        ops.push(op);
    }
    // finally a well-behaved probe client (C09: the server must still serve unless it legitimately ended)
    ops.push("conn 3".into());
    ops.push("send 3 full".into());
    ops.push("gate 3".into());
    format!("{proto} {graceful} {acc} {makefail} ; {}", ops.join(" ; "))
}
