//! Stream `tcpc` (C10, C11): hyperdriver's own `TcpTransport::connect_to_addrs` - `TcpConnecting::connect`, the glue
//! between the transport configuration and the happy-eyeballs set, and the per-address socket set-up - over real
//! loopback sockets in real time. Candidates are, in order, addresses that
//!   ok / ok6      accept at once (IPv4 / IPv6 loopback listener; the harness counts what each listener accepts)
//!   refuse / refuse6   refuse at once (a port nobody listens on)
//!   hang          never answer (a listener whose accept queue has been filled: further SYNs are dropped)
//! Local addresses: `<b4><b6>` with b4 in - (none) s (127.0.0.1) w (0.0.0.0) and b6 in - s (::1) w (::) x (an address
//! this host does not have, so every IPv6 candidate fails while it is being set up); `0` = `--`, `1` = `-x`.
//! Which families are bound decides the preferred family and with it the order of the attempts (C16).
//!
//! `via` (optional fifth token): `a` = `connect_to_addrs` with the candidates' addresses (each its own port on loopback); `c` = the
//! transport as a service - `call` with a URI, a resolver that answers with the candidates (all on the URI's port: 127.0.1.x for
//! IPv4 candidates, the black hole on 127.0.0.1, ::1 for the at most one IPv6 candidate), i.e. `TcpTransport::connect(host, port)`.
//!
//! line: `tcpc <happy_eyeballs_timeout ms|-> <concurrency|-> <connect_timeout ms|-> <local addresses> [<via a|c>] ; <cand> ; …`
//! obs : `<ok|timeout|err> <winner index | error kind refused|ctimeout|bind|other | -> <elapsed ms> ; <connections accepted per candidate, - if not a listener>…`
//!       or `unreliable` when the machine stalled during the case (a 5 ms heartbeat saw a gap of more than 40 ms)
use crate::rng::Rng;
use hyperdriver::client::conn::transport::tcp::{TcpTransport, TcpTransportConfig};
use hyperdriver::info::HasConnectionInfo as _;
use hyperdriver::stream::tcp::TcpStream;
use std::net::SocketAddr;
use std::sync::atomic::{AtomicBool, AtomicU64, AtomicUsize, Ordering};
use std::sync::{Arc, OnceLock};
use std::time::{Duration, Instant};

pub fn gen(r: &mut Rng, i: u64) -> String {
    if i % 15 == 4 {
        // always there, whatever the seed: through the resolver, a single candidate that never answers, and an overall deadline
        // that is the only bound (or far shorter than the per-attempt timeout)
        let ct = if (i / 15) % 2 == 0 { "2000" } else { "-" };
        let conc = *r.pick(&["1", "2", "-"]);
        return format!("300 {conc} {ct} 0 c ; hang");
    }
    let t = *r.pick(&["300", "600", "600", "-"]);
    let ct = *r.pick(&["-", "-", "120"]);
    let conc = *r.pick(&["1", "1", "1", "2", "-"]);
    if r.chance(1, 6) {
        // no overall deadline: only the per-attempt timeout gets the run past a candidate that never answers
        let conc = *r.pick(&["1", "1", "2", "-"]);
        let mut cands: Vec<&str> = vec!["hang"];
        if r.chance(1, 2) { cands.insert(r.below(2) as usize, *r.pick(&["refuse", "hang", "refuse6"])); }
        cands.push(*r.pick(&["ok", "ok", "ok6"]));
        // (through the resolver all candidates share the URI's port, and there is one IPv6 loopback address: at most one IPv6 candidate)
        let via = if r.chance(1, 2) || cands.iter().filter(|c| c.ends_with('6')).count() > 1 { "a" } else { "c" };
        return format!("- {conc} 120 0 {via} ; {}", cands.join(" ; "));
    }
    if r.chance(1, 5) {
        // through the resolver: few candidates (often a single one) that answer, refuse or hang, a deadline that is shorter than
        // the per-attempt timeout or the only bound there is
        let t = *r.pick(&["300", "300", "600"]);
        let ct = *r.pick(&["-", "-", "2000"]);
        let conc = *r.pick(&["1", "2", "-"]);
        let n = *r.pick(&[1u64, 1, 2, 3]);
        let mut cands: Vec<&str> = (0..n).map(|_| *r.pick(&["hang", "hang", "ok", "refuse"])).collect();
        if r.chance(1, 4) { cands.push("ok6"); }
        return format!("{t} {conc} {ct} 0 c ; {}", cands.join(" ; "));
    }
    let order_case = r.chance(1, 3);
    let bind6 = if order_case { *r.pick(&["s-", "w-", "-s", "-w", "sw", "ws", "ww", "ss", "wx", "sx"]) } else if r.chance(1, 4) { "1" } else { "0" };
    let n = r.range(1, 4);
    let kinds: &[&str] = if t == "-" && ct == "-" { &["ok", "refuse", "refuse", "ok6", "refuse6"] } else { &["ok", "refuse", "hang", "hang", "ok6", "refuse6"] };
    let mut cands: Vec<&str> = (0..n).map(|_| *r.pick(kinds)).collect();
    if order_case {
        // both families answer: who wins is a matter of the order of the attempts alone
        let t = if t == "-" && r.chance(3, 4) { "600" } else { t };
        let mut cands: Vec<&str> = (0..r.range(2, 5)).map(|_| *r.pick(&["ok", "ok6", "ok", "ok6", "refuse", "refuse6"])).collect();
        if !cands.contains(&"ok") { cands.push("ok"); }
        if !cands.contains(&"ok6") { cands.push("ok6"); }
        return format!("{t} 1 {ct} {bind6} ; {}", cands.join(" ; "));
    }
    // most cases end with somebody who answers, so that the order and pacing of the attempts decide the outcome
    if r.chance(2, 3) { cands.push(*r.pick(&["ok", "ok", "ok6"])); }
    format!("{t} {conc} {ct} {bind6} ; {}", cands.join(" ; "))
}

/// a listener whose accept queue is full: it answers nobody any more (built once per process, kept for good)
fn blackhole() -> SocketAddr {
    static HOLE: OnceLock<(std::net::TcpListener, Vec<std::net::TcpStream>, SocketAddr)> = OnceLock::new();
    HOLE.get_or_init(|| {
        let sock = socket2_listener();
        let addr = sock.local_addr().unwrap();
        let mut held = vec![];
        for _ in 0..256 {
            match std::net::TcpStream::connect_timeout(&addr, Duration::from_millis(250)) {
                Ok(s) => held.push(s),
                Err(_) => break,
            }
        }
        (sock, held, addr)
    }).2
}

fn socket2_listener() -> std::net::TcpListener {
    // backlog 1 through tokio's TcpSocket (std has no way to choose the backlog)
    let rt = tokio::runtime::Builder::new_current_thread().enable_all().build().unwrap();
    rt.block_on(async {
        let s = tokio::net::TcpSocket::new_v4().unwrap();
        s.bind("127.0.0.1:0".parse().unwrap()).unwrap();
        let l = s.listen(1).unwrap();
        l.into_std().unwrap()
    })
}

fn closed_port(v6: bool) -> SocketAddr {
    let l = std::net::TcpListener::bind(if v6 { "[::1]:0" } else { "127.0.0.1:0" }).unwrap();
    l.local_addr().unwrap()
}

/// a resolver that answers every name with the candidates of the case
#[derive(Clone)]
struct Fixed(Vec<SocketAddr>);
impl tower::Service<Box<str>> for Fixed {
    type Response = hyperdriver::client::conn::dns::SocketAddrs;
    type Error = std::io::Error;
    type Future = std::future::Ready<Result<Self::Response, std::io::Error>>;
    fn poll_ready(&mut self, _: &mut std::task::Context<'_>) -> std::task::Poll<Result<(), std::io::Error>> { std::task::Poll::Ready(Ok(())) }
    fn call(&mut self, _: Box<str>) -> Self::Future { std::future::ready(Ok(self.0.iter().copied().collect())) }
}

pub fn run(toks: &[&str]) -> String {
    let mut parts: Vec<Vec<&str>> = vec![vec![]];
    for t in toks { if *t == ";" { parts.push(vec![]); } else { parts.last_mut().unwrap().push(*t); } }
    if !(parts[0].len() == 4 || parts[0].len() == 5) || parts[1..].iter().any(|p| p.len() != 1) { return "bad-line".into(); }
    let via_call = parts[0].get(4) == Some(&"c");
    let opt = |s: &str| s.parse::<u64>().ok().map(Duration::from_millis);
    let mut config = TcpTransportConfig::default();
    config.happy_eyeballs_timeout = opt(parts[0][0]);
    config.happy_eyeballs_concurrency = parts[0][1].parse::<usize>().ok();
    config.connect_timeout = opt(parts[0][2]);
    let local = match parts[0][3] { "0" => "--", "1" => "-x", l => l };
    if local.len() != 2 { return "bad-line".into(); }
    config.local_address_ipv4 = match &local[0..1] { "-" => None, "s" => Some(std::net::Ipv4Addr::LOCALHOST), "w" => Some(std::net::Ipv4Addr::UNSPECIFIED), _ => return "bad-line".into() };
    config.local_address_ipv6 = match &local[1..2] { "-" => None, "s" => Some(std::net::Ipv6Addr::LOCALHOST), "w" => Some(std::net::Ipv6Addr::UNSPECIFIED), "x" => Some("2001:db8::1".parse().unwrap()), _ => return "bad-line".into() };
    let kinds: Vec<String> = parts[1..].iter().map(|p| p[0].to_string()).collect();
    let hole = if via_call || kinds.iter().any(|k| k == "hang") { Some(blackhole()) } else { None };
    if via_call && kinds.iter().filter(|k| k.ends_with('6')).count() > 1 { return "bad-line".into(); }

    // heartbeat: was the machine too busy for the timing of this case to mean anything?
    let stop = Arc::new(AtomicBool::new(false));
    let worst = Arc::new(AtomicU64::new(0));
    let hb = { let (stop, worst) = (stop.clone(), worst.clone()); std::thread::spawn(move || {
        let mut last = Instant::now();
        while !stop.load(Ordering::Relaxed) {
            std::thread::sleep(Duration::from_millis(5));
            let now = Instant::now();
            worst.fetch_max(now.duration_since(last).as_millis() as u64, Ordering::Relaxed);
            last = now;
        }
    }) };

    let rt = tokio::runtime::Builder::new_current_thread().enable_all().build().unwrap();
    let out = rt.block_on(async {
        let mut addrs = vec![];
        let mut counters: Vec<Option<Arc<AtomicUsize>>> = vec![];
        let mut tasks = vec![];
        // through the resolver every candidate gets the URI's port: candidates differ in their address
        let port = hole.map(|h| h.port()).unwrap_or(0);
        for (ci, k) in kinds.iter().enumerate() {
            let at = |v6: bool| -> SocketAddr { if !via_call { if v6 { "[::1]:0".parse().unwrap() } else { "127.0.0.1:0".parse().unwrap() } }
                                                 else if v6 { SocketAddr::new("::1".parse().unwrap(), port) } else { SocketAddr::new(std::net::Ipv4Addr::new(127, 0, 1, ci as u8 + 1).into(), port) } };
            match k.as_str() {
                "ok" | "ok6" => {
                    let Ok(l) = tokio::net::TcpListener::bind(at(k == "ok6")).await else { return "unreliable".to_string() };
                    addrs.push(l.local_addr().unwrap());
                    let c = Arc::new(AtomicUsize::new(0));
                    counters.push(Some(c.clone()));
                    tasks.push(tokio::spawn(async move { let mut keep = vec![]; while let Ok((s, _)) = l.accept().await { c.fetch_add(1, Ordering::SeqCst); keep.push(s); } }));
                }
                "refuse" | "refuse6" => { addrs.push(if via_call { at(k == "refuse6") } else { closed_port(k == "refuse6") }); counters.push(None); }
                "hang" => { addrs.push(hole.unwrap()); counters.push(None); }
                _ => return "bad-line".to_string(),
            }
        }
        let t0;
        let res = if via_call {
            // (the configuration before or after the resolver: both orders of the builder calls)
            // the resolver reports the addresses with a port of its own (0, or some other one): the port is the URI's to say
            let rport = [0u16, 1, port.wrapping_add(1)][kinds.len() % 3];
            let answers: Vec<SocketAddr> = addrs.iter().map(|a| SocketAddr::new(a.ip(), rport)).collect();
            let transport = if kinds.len() % 2 == 0 { TcpTransport::builder().with_config(config).with_resolver(Fixed(answers.clone())).build::<TcpStream>() }
                            else { TcpTransport::builder().with_resolver(Fixed(answers.clone())).with_config(config).build::<TcpStream>() };
            let parts = http::Request::get(format!("http://tcpc.test:{port}/")).body(()).unwrap().into_parts().0;
            t0 = Instant::now();
            tokio::time::timeout(Duration::from_secs(20), tower::ServiceExt::oneshot(transport, parts)).await
        } else {
            let transport = if kinds.len() % 2 == 0 { TcpTransport::builder().with_config(config).with_gai_resolver().build::<TcpStream>() }
                            else { TcpTransport::builder().with_gai_resolver().with_config(config).build::<TcpStream>() };
            t0 = Instant::now();
            tokio::time::timeout(Duration::from_secs(20), transport.connect_to_addrs(addrs.clone())).await
        };
        let elapsed = t0.elapsed().as_millis();
        let head = match res {
            Err(_) => "hang - 20000".to_string(),
            Ok(Ok(stream)) => {
                let peer = *stream.info().remote_addr();
                let idx = addrs.iter().position(|a| *a == peer).map(|i| i.to_string()).unwrap_or("-".into());
                format!("ok {idx} {elapsed}")
            }
            Ok(Err(e)) => {
                let msg = { let mut m = e.to_string().to_lowercase(); let mut src: Option<&dyn std::error::Error> = std::error::Error::source(&e); while let Some(s) = src { m.push_str(" / "); m.push_str(&s.to_string().to_lowercase()); src = s.source(); } m };
                if msg.contains("attempts timed out") { format!("timeout - {elapsed}") }
                else {
                    let kind = if msg.contains("refused") { "refused" } else if msg.contains("assign") || msg.contains("bind") { "bind" } else if msg.contains("timed out") || msg.contains("elapsed") { "ctimeout" } else { "other" };
                    format!("err {kind} {elapsed}")
                }
            }
        };
        // let the listeners take what was still on its way
        tokio::time::sleep(Duration::from_millis(15)).await;
        for t in tasks { t.abort(); }
        let acc: Vec<String> = counters.iter().map(|c| c.as_ref().map(|c| c.load(Ordering::SeqCst).to_string()).unwrap_or("-".into())).collect();
        format!("{head} ; {}", acc.join(" "))
    });
    stop.store(true, Ordering::SeqCst);
    let _ = hb.join();
    if worst.load(Ordering::Relaxed) > 40 { return "unreliable".into(); }
    out
}
