//! Stream `sni` (C20): the public `ValidateSNI` layer around a recording service.
//!
//! line: `sni <h2 0|1> <hostHdr|-> <hostHdrPort|-> <authority|-> <authPort|-> <tls 0|1> <serverName|->`
use crate::rng::Rng;
use hyperdriver::info::TlsConnectionInfo;
use hyperdriver::server::conn::tls::sni::{SNIMiddlewareError, ValidateSNI, ValidateSNIError};
use std::convert::Infallible;
use std::sync::{Arc, Mutex};
use tower::{Layer, Service};

const NAMES: &[&str] = &[
    "example.com", "example.org", "a.example.com", "xn--bcher-kva.example", "localhost", "h",
    "127.0.0.1", "10.0.0.1", "[::1]", "[2001:db8::1]", "my-host.internal", "example.co",
];

fn vary_case(r: &mut Rng, s: &str) -> String {
    match r.below(4) {
        0 => s.to_string(),
        1 => s.to_uppercase(),
        2 => {
            let mut out = String::new();
            for (i, c) in s.chars().enumerate() {
                if i == 0 { out.extend(c.to_uppercase()) } else { out.push(c) }
            }
            out
        }
        _ => s.chars().map(|c| if r.chance(1, 2) { c.to_ascii_uppercase() } else { c }).collect(),
    }
}

fn gen_host(r: &mut Rng, base: &str, p_present: u64) -> (String, String) {
    if !r.chance(p_present, 10) {
        return ("-".into(), "-".into());
    }
    // mostly the same base name (so that equal/unequal are both common), sometimes another
    let name = if r.chance(7, 10) { base } else { *r.pick(NAMES) };
    let name = if r.chance(1, 2) { vary_case(r, name) } else { name.to_string() };
    let port = if r.chance(1, 3) { r.pick(&[80u64, 443, 8443, 1, 65535]).to_string() } else { "-".into() };
    (name, port)
}

pub fn gen(r: &mut Rng, _i: u64) -> String {
    let base = *r.pick(NAMES);
    let h2 = r.chance(1, 2);
    let (hh, hp) = gen_host(r, base, 7);
    let (ah, ap) = gen_host(r, base, if h2 { 6 } else { 3 });
    let tls = r.chance(9, 10);
    let (sni, _) = if tls { gen_host(r, base, 9) } else { ("-".into(), "-".into()) };
    // (HTTP/1.0 and 0.9 requests name their host the way HTTP/1.1 ones do)
    let ver = if h2 { "1" } else if r.chance(1, 5) { *r.pick(&["10", "09"]) } else { "0" };
    format!("{ver} {hh} {hp} {ah} {ap} {} {sni}", tls as u8)
}

#[derive(Clone)]
struct Recorder(Arc<Mutex<Option<bool>>>);

impl Service<http::Request<()>> for Recorder {
    type Response = http::Response<()>;
    type Error = Infallible;
    type Future = std::future::Ready<Result<Self::Response, Self::Error>>;
    fn poll_ready(&mut self, _: &mut std::task::Context<'_>) -> std::task::Poll<Result<(), Self::Error>> {
        std::task::Poll::Ready(Ok(()))
    }
    fn call(&mut self, req: http::Request<()>) -> Self::Future {
        let validated = req
            .extensions()
            .get::<TlsConnectionInfo>()
            .map(|t| t.validated_server_name)
            .unwrap_or(false);
        *self.0.lock().unwrap() = Some(validated);
        std::future::ready(Ok(http::Response::new(())))
    }
}

pub fn run(toks: &[&str]) -> String {
    if toks.len() != 7 {
        return "bad-input".into();
    }
    let h2 = toks[0] == "1";
    let join = |h: &str, p: &str| if p == "-" { h.to_string() } else { format!("{h}:{p}") };
    let mut b = http::Request::builder().version(match toks[0] { "1" => http::Version::HTTP_2, "10" => http::Version::HTTP_10, "09" => http::Version::HTTP_09, _ => http::Version::HTTP_11 });
    if toks[3] != "-" {
        b = b.uri(format!("https://{}/path?q=1", join(toks[3], toks[4])));
    } else {
        b = b.uri("/path?q=1");
    }
    if toks[1] != "-" {
        b = b.header(http::header::HOST, join(toks[1], toks[2]));
    }
    let mut req = match b.body(()) {
        Ok(r) => r,
        Err(_) => return "bad-request".into(),
    };
    if toks[5] == "1" {
        req.extensions_mut().insert(TlsConnectionInfo {
            server_name: (toks[6] != "-").then(|| toks[6].to_string()),
            validated_server_name: false,
            alpn: None,
        });
    }
    let rec = Recorder(Arc::new(Mutex::new(None)));
    let mut svc = ValidateSNI.layer(rec.clone());
    let fut = svc.call(req);
    let res = futures_util::FutureExt::now_or_never(fut);
    match res {
        Some(Ok(_)) => match *rec.0.lock().unwrap() {
            Some(v) => format!("fwd {}", v as u8),
            None => "ok-without-forward".into(),
        },
        Some(Err(SNIMiddlewareError::SNI(ValidateSNIError::InvalidSNI { .. }))) => "rej invalid".into(),
        Some(Err(SNIMiddlewareError::SNI(ValidateSNIError::MissingSNI { .. }))) => "rej missing".into(),
        Some(Err(_)) => "rej other".into(),
        None => "pending".into(),
    }
}
