#!/bin/bash
# seed_reverify.sh <seed-id>... : confirm kept seeds against /repo's current HEAD in a scratch worktree
# (suite passes with the mutation; the demo fails with it and passes without it). Used after a seed was rebased.
for S in "$@"; do
  P=${S%%-*}; A=${S#*-}
  rm -rf /tmp/seed/$P /tmp/seed/out-$P; git -C /repo worktree prune
  git -C /repo worktree add --detach /tmp/seed/$P HEAD >/dev/null 2>&1 || { echo "$S worktree-failed"; continue; }
  mkdir -p /tmp/seed/out-$P
  cp /verif/seeded/$S/patch.diff /tmp/seed/out-$P/$A.patch; cp /verif/seeded/$S/demo.patch /tmp/seed/out-$P/$A.demo.patch
  DEMO=$(python3 -c "import json;print(json.load(open('/verif/seeded/$S/meta.json'))['demo_command'])")
  /verif/tools/seed_verify.sh $P $A "$DEMO"
  git -C /repo worktree remove --force /tmp/seed/$P; rm -rf /tmp/seed/out-$P /tmp/seed/$P-*.log
done
