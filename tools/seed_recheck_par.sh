#!/bin/bash
# seed_recheck_par.sh <workers> [Pid...] : like seed_recheck.sh, but in parallel: every worker gets a private copy of /repo's
# HEAD (git worktree) and of /verif (harness path dependency and Cargo.lock source re-pointed at its own tree) under
# /root/rc/<k>, applies the kept mutations of its share of the seeds in turn, runs that property's quick check, undoes the
# mutation. One line per seed in /root/rc/result.log. The copies are removed at the end. /repo itself is not touched.
W=${1:-6}; shift
PROPS="$@"
RC=${RCDIR:-/root/rc}      # RCDIR / RCLOG: a second instance next to a running one
rm -rf $RC; mkdir -p $RC
git -C /repo worktree prune
ALL=()
for D in /verif/seeded/*/; do
  S=$(basename $D); P=${S%%-*}
  if [ -n "$PROPS" ] && ! echo " $PROPS " | grep -q " $P "; then continue; fi
  if grep -q '"retired"' $D/meta.json 2>/dev/null; then continue; fi
  ALL+=($S)
done
: > $RC/result.log
worker() {
  k=$1
  R=$RC/$k
  mkdir -p $R
  git -C /repo worktree add --detach $R/repo HEAD -q
  rsync -a --exclude replays --exclude .git --exclude evidence /verif/ $R/verif/
  mkdir -p $R/verif/evidence $R/verif/replays
  sed -i "s|path = \"/repo\"|path = \"$R/repo\"|" $R/verif/harness/Cargo.toml
  sed -i "s|\"/repo/Cargo.lock\"|\"$R/repo/Cargo.lock\"|" $R/verif/check
  i=0
  for S in "${ALL[@]}"; do
    if [ $((i % W)) -eq $k ]; then
      P=${S%%-*}
      if git -C $R/repo apply /verif/seeded/$S/patch.diff 2>/dev/null; then
        OUT=$(cd $R/verif && ./check $P 2>&1 | grep -E "VIOLATION|OK property" | head -1)
        git -C $R/repo checkout -- .
        case "$OUT" in VIOLATION*) echo "$S caught: ${OUT#VIOLATION }";; *) echo "$S MISSED: $OUT";; esac >> $RC/result.log
      else
        echo "$S patch-does-not-apply" >> $RC/result.log
      fi
    fi
    i=$((i + 1))
  done
  git -C /repo worktree remove --force $R/repo
  rm -rf $R
}
for k in $(seq 0 $((W - 1))); do worker $k & done
wait
git -C /repo worktree prune
LOG=${RCLOG:-/root/recheck.log}
sort $RC/result.log > $LOG
echo "caught: $(grep -c caught $LOG)  of ${#ALL[@]}"
grep -v caught $LOG
