#!/bin/bash
# seed_recheck.sh [Pid...] : apply every kept seeded mutation of the given properties (default: all) to /repo in turn,
# run that property's quick check, undo; prints one line per seed. /repo must be clean.
cd /repo && git diff --quiet || { echo "/repo dirty"; exit 2; }
PROPS="$@"
for D in /verif/seeded/*/; do
  S=$(basename $D); P=${S%%-*}
  if [ -n "$PROPS" ] && ! echo " $PROPS " | grep -q " $P "; then continue; fi
  if grep -q '"retired"' $D/meta.json 2>/dev/null; then continue; fi
  git -C /repo apply $D/patch.diff || { echo "$S patch-does-not-apply"; continue; }
  R=$(cd /verif && ./check $P 2>&1 | grep -E "VIOLATION|OK property" | head -1)
  git -C /repo checkout -- .
  case "$R" in VIOLATION*) echo "$S caught: ${R#VIOLATION }";; *) echo "$S MISSED: $R";; esac
done
