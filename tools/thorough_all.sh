#!/bin/bash
# thorough_all.sh <workers> [Pid...] : run the thorough tier of every property in private copies of /repo's HEAD and of
# /verif (so that /repo and /verif stay free meanwhile); one line per property in /root/thorough.log
W=${1:-3}; shift
PROPS=${@:-C01 C02 C03 C04 C05 C06 C07 C08 C09 C10 C11 C12 C13 C14 C15 C16 C17 C18 C19 C20}
TH=/root/th
rm -rf $TH; mkdir -p $TH
git -C /repo worktree prune
: > $TH/result.log
ALL=($PROPS)
worker() {
  k=$1; R=$TH/$k; mkdir -p $R
  git -C /repo worktree add --detach $R/repo HEAD -q
  rsync -a --exclude replays --exclude .git --exclude evidence /verif/ $R/verif/
  mkdir -p $R/verif/evidence $R/verif/replays
  sed -i "s|path = \"/repo\"|path = \"$R/repo\"|" $R/verif/harness/Cargo.toml
  sed -i "s|\"/repo/Cargo.lock\"|\"$R/repo/Cargo.lock\"|" $R/verif/check
  i=0
  for P in "${ALL[@]}"; do
    if [ $((i % W)) -eq $k ]; then
      T0=$(date +%s)
      OUT=$(cd $R/verif && ./check $P --tier thorough 2>&1 | grep -E "VIOLATION|OK property|KNOWN" | head -3 | tr '\n' ' ')
      echo "$P $(( $(date +%s) - T0 ))s: $OUT" >> $TH/result.log
      cp $R/verif/replays/$P-* /root/ 2>/dev/null
    fi
    i=$((i + 1))
  done
  git -C /repo worktree remove --force $R/repo; rm -rf $R
}
for k in $(seq 0 $((W - 1))); do worker $k & done
wait
git -C /repo worktree prune
sort $TH/result.log > /root/thorough.log; cat /root/thorough.log
