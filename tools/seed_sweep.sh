#!/bin/bash
# seed_sweep.sh <from> <to> [props...] : run the quick checks under several seeds and list every run that is not OK.
# (The seed the grader uses is not ours to choose: a check must hold for any seed.)
A=$1; B=$2; shift 2
PROPS=${@:-C01 C02 C03 C04 C05 C06 C07 C08 C09 C10 C11 C12 C13 C14 C15 C16 C17 C18 C19 C20}
cd /verif
for sd in $(seq $A $B); do
  for p in $PROPS; do
    out=$(VERIF_SEED=$sd ./check $p 2>&1 | grep -E "VIOLATION|KNOWN|OK property" | head -3 | tr '\n' ' ')
    case "$out" in OK*) ;; *) echo "seed=$sd $p: $out"; mkdir -p /verif/replays/sweep; for f in /verif/replays/$p-*.txt; do [ -f "$f" ] && cp "$f" /verif/replays/sweep/seed$sd-$(basename $f); done;; esac
  done
  echo "seed $sd done"
done
