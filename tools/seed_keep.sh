#!/bin/bash
# seed_keep.sh <Pid> <aN> "<demo command>" "<needs>" "<caught-by summary>"
P=$1; A=$2; DEMO=$3; NEEDS=$4; CAUGHT=$5
D=/verif/seeded/$P-$A; mkdir -p $D
cp /tmp/seed/out-$P/$A.patch $D/patch.diff
cp /tmp/seed/out-$P/$A.demo.patch $D/demo.patch
cp /tmp/seed/out-$P/$A.md $D/notes.md
python3 - "$P" "$A" "$DEMO" "$NEEDS" "$CAUGHT" <<'PY'
import json,sys
p,a,demo,needs,caught=sys.argv[1:]
json.dump({"property":p,"id":p+"-"+a,"breaks":p,"needs_to_manifest":needs,
 "demo_command":demo,
 "confirmed":"tools/seed_verify.sh %s %s: existing suite passes with the mutation; demo fails with it and passes without it"%(p,a),
 "checks_result":caught}, open("/verif/seeded/%s-%s/meta.json"%(p,a),"w"), indent=1)
PY
echo kept $D
