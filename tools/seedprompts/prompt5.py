import sys, json, glob, os, subprocess, collections
pid=sys.argv[1]
base=subprocess.run(['python3','/tmp/seed/prompt.py',pid],capture_output=True,text=True).stdout
prop=[json.loads(l) for l in open('/verif/properties.jsonl') if json.loads(l)['id']==pid][0]
files=prop['anchors']['files']
ideas=[]
for d in sorted(glob.glob(f'/verif/seeded/{pid}-a*')):
    n=open(os.path.join(d,'notes.md')).read().strip().splitlines()
    head=' '.join(x.strip() for x in n[:3])[:330]
    touched=set()
    for l in open(os.path.join(d,'patch.diff')):
        if l.startswith('+++ b/'): touched.add(l[6:].strip())
    ideas.append(f"  - [{', '.join(sorted(touched))}] {head}")
# how often any earlier mutation (of any property) touched each source file
cnt=collections.Counter()
for d in glob.glob('/verif/seeded/*'):
    for l in open(os.path.join(d,'patch.diff')):
        if l.startswith('+++ b/'): cnt[l[6:].strip()]+=1
allsrc=subprocess.run(['git','-C','/repo','ls-files','src'],capture_output=True,text=True).stdout.split()
untouched=[f for f in allsrc if cnt[f]==0 and f.endswith('.rs') and 'verif' not in f and 'fixtures' not in f]
print(base)
print(f"""

This is a FIFTH ROUND. The following ideas have already been explored and must NOT be repeated or trivially varied:
{chr(10).join(ideas)}

The property is anchored in: {', '.join(files)} - but the change does NOT have to be there. Angles that earlier rounds used little or not at all:
  * a boundary condition (`<` / `<=`, `>` / `>=`, `==` against a length, an off-by-one in an index, a count or a slice bound) that only matters at the boundary;
  * which end of a queue or list is used (push_front / push_back, pop_front / pop_back, first / last, iteration order, swap_remove vs remove, retain vs drain);
  * a waker or readiness slip in a hand-written `Future` / `poll_*` implementation (returning Pending without having arranged a wake-up, polling the wrong inner future first, not re-polling after a state change, `ready!` used where an error must still be handled);
  * an `Eq` / `Hash` / `Ord` / `Clone` / `Default` implementation whose meaning shifts (a clone that copies where it must share or shares where it must copy; a comparison that ignores or adds a field);
  * an `Option` / `Result` combinator swapped for a similar one (`unwrap_or` / `unwrap_or_default`, `ok()` swallowing an error, `map_or`, `and_then` / `or_else`, `take()` vs `clone()`, `is_some_and`);
  * arithmetic on durations, instants, counters or lengths (saturating / checked / wrapping, division, unit mix-ups);
  * a state machine that moves to the wrong next state in one rarely taken transition;
  * the variant of a piece of code that is compiled only WITHOUT the `tls` feature (`#[cfg(not(feature = "tls"))]`) - the crate's default features do not include `tls`, so the default test suite exercises exactly those variants.
Source files that no earlier mutation of ANY property has touched so far (prefer these if one of them can break the property):
  {' '.join(untouched)}
The change must still break the property above in a way a user of the crate's public API could observe (say in the .md how).
If a demo needs non-default cargo features, say so in the .md file and gate the demo with #![cfg(...)] so the default suite is unaffected.
Never use `git stash` (worktrees share one stash stack); check `git diff` for foreign hunks before writing patches.""")
