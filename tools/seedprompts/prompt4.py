import sys, json, glob, os, subprocess, collections
pid=sys.argv[1]
base=subprocess.run(['python3','/tmp/seed/prompt.py',pid],capture_output=True,text=True).stdout
prop=[json.loads(l) for l in open('/verif/properties.jsonl') if json.loads(l)['id']==pid][0]
files=prop['anchors']['files']
ideas=[]
for d in sorted(glob.glob(f'/verif/seeded/{pid}-a*')):
    n=open(os.path.join(d,'notes.md')).read().strip().splitlines()
    head=' '.join(x.strip() for x in n[:3])[:330]
    touched=set()
    for l in open(os.path.join(d,'patch.diff')):
        if l.startswith('+++ b/'): touched.add(l[6:].strip())
    ideas.append(f"  - [{', '.join(sorted(touched))}] {head}")
# how often any earlier mutation (of any property) touched each source file
cnt=collections.Counter()
for d in glob.glob('/verif/seeded/*'):
    for l in open(os.path.join(d,'patch.diff')):
        if l.startswith('+++ b/'): cnt[l[6:].strip()]+=1
allsrc=subprocess.run(['git','-C','/repo','ls-files','src'],capture_output=True,text=True).stdout.split()
untouched=[f for f in allsrc if cnt[f]==0 and f.endswith('.rs') and 'verif' not in f and 'fixtures' not in f]
print(base)
print(f"""

This is a FOURTH ROUND. The following ideas have already been explored and must NOT be repeated or trivially varied:
{chr(10).join(ideas)}

The property is anchored in: {', '.join(files)} - but the change does NOT have to be there. This round, look for the
property's dependencies elsewhere: code the anchored code calls or is configured by. Angles that earlier rounds did not use:
  * a Drop impl, a cancellation path or an error path (what happens when a future is dropped half-way, when an inner call fails);
  * a default value, a Default/From/Clone impl or a builder method that silently changes what the anchored code is configured with;
  * a feature-gated variant of the same mechanism (tls / sni / unix-socket / duplex variants of a stream, acceptor or transport);
  * a trait impl that forwards to an inner value (poll_ready, is_open, can_share, size_hint, is_end_stream, info(), Clone) and forwards the wrong thing;
  * ordering of two steps that looks harmless to swap.
Source files that no earlier mutation of ANY property has touched so far (prefer these if one of them can break the property):
  {' '.join(untouched)}
The change must still break the property above in a way a user of the crate's public API could observe (say in the .md how).
If a demo needs non-default cargo features, say so in the .md file and gate the demo with #![cfg(...)] so the default suite is unaffected.
Never use `git stash` (worktrees share one stash stack); check `git diff` for foreign hunks before writing patches.""")
