import sys, json, glob, os, subprocess
pid=sys.argv[1]
base=subprocess.run(['python3','/tmp/seed/prompt.py',pid],capture_output=True,text=True).stdout
prop=[json.loads(l) for l in open('/verif/properties.jsonl') if json.loads(l)['id']==pid][0]
files=prop['anchors']['files']
mech=[m['name']+' ('+m['where']+')' for m in prop['anchors'].get('mechanism',[])]
ideas=[]
for d in sorted(glob.glob(f'/verif/seeded/{pid}-a*')):
    n=open(os.path.join(d,'notes.md')).read().strip().splitlines()
    head=' '.join(x.strip() for x in n[:4])[:420]
    touched=set()
    for l in open(os.path.join(d,'patch.diff')):
        if l.startswith('+++ b/'): touched.add(l[6:].strip())
    ideas.append(f"  - [{', '.join(sorted(touched))}] {head}")
print(base)
print(f"""

This is a THIRD ROUND. The following ideas have already been explored and must NOT be repeated or trivially varied:
{chr(10).join(ideas)}

The property rests on these source files: {', '.join(files)}
and on these mechanisms: {'; '.join(mech)}.
Pick sites and mechanisms that the earlier rounds did NOT touch - preferably in files of the list above that no earlier idea changed, or in the glue between two of them (argument passing, option handling, conversions, builder defaults, error mapping) - as long as the change still breaks the property above in a way a user of the crate's public API could observe. If a demo needs non-default cargo features, say so in the .md file and gate the demo with #![cfg(...)] so the default suite is unaffected.""")
