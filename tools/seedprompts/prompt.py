import sys
pid=sys.argv[1]
prop=open('/tmp/seed/prop-%s.txt'%pid).read()
print(f"""You are helping test a verification effort by playing the role of a developer who introduces a subtle regression.

You have a scratch git worktree of the Rust crate `hyperdriver` (a library layered on hyper: HTTP client with connection pool, happy-eyeballs TCP connect, TLS transports, server with protocol sniffing and graceful shutdown) at: /tmp/seed/{pid}
Work ONLY inside that directory and /tmp/seed/out-{pid}. Do not read or touch /repo, /verif, or any other /tmp/seed/* directory. The sandbox is offline: always pass --offline to cargo (CARGO_NET_OFFLINE=true).

Here is a semantic property the crate is supposed to satisfy:

{prop}

Your task: produce TWO independent, different source changes (mutations) to the crate's `src/` code, each of which BREAKS this property, while:
 1. the crate still compiles (`cargo build --offline --all-features` need not work; `cargo test --workspace --no-run --offline` must), and
 2. the existing test suite still passes entirely with the change: run `cargo test --workspace --no-fail-fast --offline` in the worktree (takes a minute or two; code under non-default features such as `tls`, `sni` is NOT compiled by that command, so for such code, and for anything under src/client/pool, ALSO run `cargo test --offline --features mocks --lib` (the pool unit tests need the `mocks` feature) and, for tls code, `cargo test --offline --features tls,tls-ring,sni --lib` and make sure no test that passed before now fails - some TLS tests already fail on the unmodified tree because the bundled test certificates have expired) and confirm nothing fails, and
 3. the breakage needs something specific to manifest — a particular interleaving, a fault at a particular point, a multi-step sequence of operations, an unusual input, or two cooperating sites that each look fine alone. NOT something ordinary use would expose at once. Make them realistic: the kind of slip a maintainer could make in a refactor or an 'optimisation' (off-by-one, wrong branch order, dropped re-check, swapped arguments, missing wake-up, an early return, wrong comparison, stale state), not sabotage comments or dead obvious panics. Do not touch tests, Cargo.toml features, or anything under `src/verif_hooks.rs`/cfg(feature = "verif-hooks") code (those are add-only test hooks; leave them compiling).
 4. For each change write a demonstration: a Rust test (integration test file under tests/, or a #[cfg(test)] unit test if private access is needed) or a small program that FAILS with the change applied and PASSES on the unmodified worktree. Verify both directions yourself.

Deliverables, written to /tmp/seed/out-{pid}/ :
  - a1.patch : `git diff` of ONLY the src/ mutation #1 (no demo in it)
  - a1.demo.patch : a patch (git diff, including new files via `git add -N` or `git diff --no-index`) adding ONLY the demonstration for mutation #1; it must apply to the unmodified worktree too
  - a1.md : 5-15 lines: what the change is, why it breaks the property, what specific condition it needs to manifest, the exact commands you ran (test suite result, demo with/without)
  - a2.patch, a2.demo.patch, a2.md : same for mutation #2 (touch a different mechanism/site than #1)
Never use `git stash` (the worktrees of all agents share one stash stack; use `git diff > file` / `git apply -R file` to set a change aside). At the end leave the worktree clean (`git checkout -- . && git clean -fd -e target`), but keep the `target` directory for build caching while you work. Keep each patch small (a few lines). Report back a short summary of the two mutations.""")
