#!/bin/bash
# seed_verify.sh <Pid> <aN> "<demo command>"  : confirm a seeded mutation in its scratch worktree
#  (1) with the mutation the existing suite passes, (2) the demo fails with it and (3) passes without it.
set -u
P=$1; A=$2; DEMO=$3
W=/tmp/seed/$P; O=/tmp/seed/out-$P
export CARGO_NET_OFFLINE=true
cd $W || exit 2
git checkout -q -- . && git clean -fdq -e target
git apply $O/$A.patch || { echo "APPLY-FAIL"; exit 2; }
if cargo test --workspace --no-fail-fast --offline > /tmp/seed/$P-$A.suite.log 2>&1; then S=pass; else S=FAIL; fi
git apply $O/$A.demo.patch || { echo "DEMO-APPLY-FAIL"; exit 2; }
if bash -c "$DEMO" > /tmp/seed/$P-$A.demo-with.log 2>&1; then D1=pass; else D1=fail; fi
git apply -R $O/$A.patch
if bash -c "$DEMO" > /tmp/seed/$P-$A.demo-without.log 2>&1; then D0=pass; else D0=fail; fi
git checkout -q -- . && git clean -fdq -e target
echo "$P $A suite-with-mutation=$S demo-with=$D1 demo-without=$D0"
[ $S = pass ] && [ $D1 = fail ] && [ $D0 = pass ]
