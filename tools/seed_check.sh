#!/bin/bash
# seed_check.sh <patch> <Pid>... : apply a seeded mutation to /repo, run the checks, undo it.
PATCH=$1; shift
cd /repo && git diff --quiet || { echo "/repo dirty"; exit 2; }
git -C /repo apply $PATCH || { echo "patch does not apply"; exit 2; }
for P in "$@"; do
  echo "== $P with $(basename $(dirname $PATCH))/$(basename $PATCH)"
  (cd /verif && ./check $P 2>&1 | grep -E "VIOLATION|KNOWN|OK property" | head -5)
done
git -C /repo checkout -- .
