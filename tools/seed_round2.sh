#!/bin/bash
# seed_round2.sh <Pid> : rename a1/a2 of a later round to the next free aN names in /tmp/seed/out-<Pid>
P=$1; O=/tmp/seed/out-$P
rm -rf $O/round1 $O/*.log $O/round2-logs 2>/dev/null
n=$(ls -d /verif/seeded/$P-a* 2>/dev/null | wc -l)
for f in a1 a2; do
  n=$((n+1))
  for e in patch demo.patch md; do mv $O/$f.$e $O/a$n.tmp.$e; done
done
for f in $O/*.tmp.*; do mv $f ${f/.tmp/}; done
ls $O
