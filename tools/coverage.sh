#!/bin/bash
# coverage.sh : line coverage of /repo/src by the correspondence harness (quick-tier sized inputs of every stream).
# Instrumented build in /root/cov/target (nightly toolchain's llvm tools); report in /root/cov/report.txt
set -e
COV=/root/cov; mkdir -p $COV; rm -f $COV/*.profraw $COV/in-*.txt
cd /verif/harness
CARGO_TARGET_DIR=$COV/target RUSTFLAGS="-C instrument-coverage" cargo +nightly build --offline 2>&1 | tail -1
BIN=$COV/target/debug/hdverif
TOOLS=$(dirname $(find $(rustc +nightly --print sysroot) -name llvm-profdata | head -1))
cd $COV
for s in dns:3000 sni:3000 sniff:3000 sniff-exhaustive:0 eb:3000 tcpc:30 to:3000 toc:300 wire:3000 st:6000 pool:3000 poolt:30 poolt-exhaustive:0 poolmt:20 conn:300 cfgp:48 srv:2000 srvk:100 srvk-exhaustive:0 tls:2000 tls-exhaustive:0 tlsp:60 tlsp-exhaustive:0 tlsch:2000 snie:300 np:2000 np-exhaustive:0 e2e:600 e2es:200; do
  name=${s%%:*}; n=${s##*:}
  $BIN gen $name 7 $n > in-$name.txt 2>/dev/null || continue
  LLVM_PROFILE_FILE="$COV/in-$name-%p.profraw" $BIN run < in-$name.txt > /dev/null 2>&1 || true
done
$TOOLS/llvm-profdata merge -sparse $COV/*.profraw -o $COV/all.profdata
$TOOLS/llvm-cov report $BIN -instr-profile=$COV/all.profdata --ignore-filename-regex='(\.cargo|rustc|/verif/)' > $COV/report.txt 2>/dev/null
$TOOLS/llvm-cov show $BIN -instr-profile=$COV/all.profdata --ignore-filename-regex='(\.cargo|rustc|/verif/)' --show-line-counts-or-regions > $COV/show.txt 2>/dev/null
rm -f /repo/default_*.profraw /verif/harness/default_*.profraw $COV/*.profraw
tail -1 $COV/report.txt
