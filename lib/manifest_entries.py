HOOK_COMMITS = ["91ffc11"]
NOT_APPLICABLE = {}
ENTRIES = {
    "C16": {
        "text": "Theorems for every address list, preference and port: the model of sort_preferred equals the specification "
                "(first preferred-family address, first other-family address, rest in order), is a permutation, carries the "
                "request port, prefers IPv6 unless only IPv4 is bound; model tied to the code by differential runs through "
                "the verif hook and through TcpTransport::connecting.",
        "note": "Trusted: Lean kernel (axioms propext, Quot.sound); hand model of SocketAddrs (VecDeque semantics assumed); "
                "correspondence is sampled (6k/300k lists). Start order of attempts is the C11 model's concern.",
        "design_ref": "DESIGN.md §5 C16",
    },
}
