HOOK_COMMITS = ["91ffc11", "afaa7f8", "1038992", "591b094"]
NOT_APPLICABLE = {}
ENTRIES = {
    "C07": {
        "text": "Theorems for every server state: a resolved signal completes the serving future with Ok before anything further is "
                "accepted, the future stays completed, later connects are refused (no service made, no handler run), every live "
                "connection is told to shut down, idle and still-sniffing connections close, a connection with an exchange in "
                "flight (even a partial head) is kept until the response has been delivered and then closes. Model tied to the "
                "real Server (HTTP/1 and auto, duplex acceptor, raw clients, gated handlers) by differential runs with the signal "
                "at every stage. Also theorems over every continuation after the signal (completed for good; a client not yet accepted is never served), and end-to-end scenarios (HTTP/1.1 and HTTP/2, streamed bodies, TLS) with the signal in the middle of the traffic: every request whose handler had been entered gets its complete response, every serving future completes Ok.",
        "note": "Partial: hyper's side of graceful shutdown is an assumption encoded as per-connection rules and validated by the "
                "correspondence; HTTP/2 connections only up to the preface; ops are atomic (tasks run to quiescence after each).",
        "design_ref": "DESIGN.md §5 C07",
    },
    "C09": {
        "text": "Invariant theorem for every operation sequence: the serving future ends only after the shutdown signal, loss of the "
                "listener, or a make-service failure; a fault on one connection (cancelled connect, disconnect, garbage, partial "
                "request) changes no other connection's state. Model tied to the real Server on duplex acceptors (raw and "
                "Acceptor-wrapped) with fault injection and a final probe client. Defect (cancelled duplex connect killed the "
                "server) found and fixed.",
        "note": "Partial: OS-level accept errors (EMFILE, ECONNABORTED) and TLS handshake faults are not exhibited by this stream "
                "(TLS faults: see C12); hyper's per-connection behaviour is assumed.",
        "design_ref": "DESIGN.md §5 C09",
    },
    "C02": {
        "text": "Invariant theorems over all reachable states of the pool model (every configuration, every operation sequence): "
                "(1) linear ownership - a connection that cannot be multiplexed is in at most one place: one idle list (once), one "
                "waiter's channel, one checkout, one request's hands, or one hand-back task; hence it is held by at most one request and "
                "while held it is nowhere the pool hands out from (C02_one_holder, C02_held_out_of_pool, C02_pooled_once); (2) readiness "
                "- a non-multiplexed connection that is available for hand-out (idle, in a channel, popped into a checkout) is not busy, "
                "so a connection that is still busy - response not consumed, or taken over by an upgrade and never ready again - is not "
                "available, and whatever a poll hands out is not busy at that moment (C02_available_means_ready, C02_busy_not_available, "
                "C02_handout_ready). Plus step-level lemmas. The trace monitor checks double use and busy hand-out on every delivery by "
                "the real pool.",
        "note": 'Trusted: Lean kernel; hand-written pool model tied to the real ConnectionPoolService by per-op differential runs (result, marker set, waiter queues, idle lists, dial and drop counters); tokio oneshot/scheduler semantics assumed; busy/ready is the model\'s abstraction of hyper\'s poll_ready.',
        "design_ref": "DESIGN.md §4",
    },
    "C03": {
        "text": "Invariant theorem over all reachable states of the pool model: a live checkout that only waits for another request's connection attempt and whose channel is still empty is queued for its origin and the origin's attempt-in-progress marker is set - so whenever the marker goes away (attempt succeeded, failed, cancelled or abandoned at any point of any history) no waiter is left with an empty channel; with a delivered connection its next poll takes it, with a closed channel it gets an error (C03_waiter_only_while_attempt_in_flight, C03_waiter_poll). Step-level theorems for every state: the marker's owner going away releases every queued waiter (sender dropped = wake-up), a released pure waiter resolves with an error, a released dialer carries on, a checkout whose attempts have terminated never polls Pending. Second invariant over all reachable states (marker owner): whenever an origin's marker is in place, exactly the checkout that placed it (same attempt id) still runs - alive, or continued by a delayed-drop task - so a waiting request always waits for an attempt that exists (C03_marker_has_running_owner, C03_waiter_waits_for_running_attempt); nobody else cancels the marker (C03_only_owner_cancels). Proving it exposed a third defect (a stale marker holder cancelled a later attempt's marker), fixed in 2d583d3. Third invariant (a live pure waiter's channel is never receiver-gone or absent) and the composition C03_pending_waiter_waits_for_running_attempt: in every reachable state a pure waiter that polls Pending has an empty channel, is queued, the marker is in place and its owner runs; in every other case its poll resolves. Not proved: fairness of the runtime, i.e. that the running owner is eventually polled to completion (the drain phase of the runs checks it). Trace monitors: lost wake-up, stranded waiter (marker gone), waiter failed while its attempt is in flight, resolved dial not consumed, drain + probe phase. Three stranding defects found and fixed.",
        "note": 'Trusted: Lean kernel; hand-written pool model tied to the real ConnectionPoolService by per-op differential runs (result, marker set, waiter queues, idle lists, dial and drop counters); tokio oneshot/scheduler semantics assumed; step-level theorems hold for every state; the reachable-state invariants are listed in DESIGN.md §4 together with what is not a theorem (runtime fairness, dial-count minimality).',
        "design_ref": "DESIGN.md §4",
    },
    "C04": {
        "text": 'Invariant theorem over all reachable states (marker owner): while an origin\'s attempt-in-progress marker is in place exactly one checkout is the attempt the others wait for, and attempt ids are never reused (C04_one_attempt_per_origin, C04_attempt_ids_distinct). Step-level theorems: a request issued while an open idle connection exists is equipped with it and dials nothing; a shareable connection stays pooled while checked out; with the marker set a new request becomes a pure waiter that never dials and owns no marker. Dial-count minimality over whole histories is not a theorem: trace monitors compare dial and drop counters with the model (extra dial, destroyed connection, shared connection unavailable). Four defects found and fixed (the last one by the invariant proof).',
        "note": 'Trusted: Lean kernel; hand-written pool model tied to the real ConnectionPoolService by per-op differential runs (result, marker set, waiter queues, idle lists, dial and drop counters); tokio oneshot/scheduler semantics assumed; step-level theorems hold for every state; the reachable-state invariants are listed in DESIGN.md §4 together with what is not a theorem (runtime fairness, dial-count minimality).',
        "design_ref": "DESIGN.md §4",
    },
    "C05": {
        "text": 'Theorems for every idle list, clock and timeout: pop returns only an open, ready, unexpired connection, clears the list at the first expired entry, keeps order; none/zero timeout never expires; issue equips a checkout only with such a connection. Trace monitor for closed hand-outs; timed cases use the real clock.',
        "note": 'Trusted: Lean kernel; hand-written pool model tied to the real ConnectionPoolService by per-op differential runs (result, marker set, waiter queues, idle lists, dial and drop counters); tokio oneshot/scheduler semantics assumed; step-level theorems hold for every state; the reachable-state invariants are listed in DESIGN.md §4 together with what is not a theorem (runtime fairness, dial-count minimality).',
        "design_ref": "DESIGN.md §4",
    },
    "C06": {
        "text": "Invariant theorem over all reachable states of the pool model: for every configuration and every operation sequence "
                "(any interleaving of requests for any origins, polls, cancellations, dial results, releases, readiness and close "
                "events, task runs, clock ticks), every connection in an idle list, in a waiter's channel, popped into a checkout, held "
                "by a request or waiting in a WhenReady task belongs to the origin of the token it is filed under; hence whatever "
                "happened before and happens after request r is issued for origin k, a connection r is ever given belongs to k "
                "(C06_request_gets_own_origin). The token table stays injective under insert. The trace monitor checks on every "
                "delivery by the real pool that the connection was dialled for the request's own scheme+authority (origins differing "
                "only in scheme, port, host or letter case).",
        "note": 'Trusted: Lean kernel; hand-written pool model tied to the real ConnectionPoolService by per-op differential runs (result, marker set, waiter queues, idle lists, dial and drop counters); tokio oneshot/scheduler semantics assumed. Token counter wrap-around at usize::MAX is out of the model.',
        "design_ref": "DESIGN.md §4",
    },
    "C14": {
        "text": 'Invariant theorem over all reachable states (listeners queued): a checkout whose channel is still empty - it waits for its own dial or for somebody else\'s - is in the waiter queue of its own origin, so a non-shareable connection released for that origin while anybody is listening is put into a listening request\'s channel and not into the idle list (C14_listener_is_queued, C14_release_serves_a_listener). Step-level theorems for every state: push delivers to the first live waiter; a checkout whose channel holds a connection takes it at its next poll whatever its dial is doing; a not-ready dialing checkout keeps listening; with continue_after_preemption the abandoned dial carries on in a background task, without it the channel is closed and the marker cleared. Defect (receiver dropped at first poll) found and fixed. The op stream includes mutex contention (another thread holds the pool lock while a dial completes, a connection is released or a request is cancelled): for the model nothing happens, so any shortcut taken under contention is a departure.',
        "note": 'Trusted: Lean kernel; hand-written pool model tied to the real ConnectionPoolService by per-op differential runs (result, marker set, waiter queues, idle lists, dial and drop counters); tokio oneshot/scheduler semantics assumed; step-level theorems hold for every state; the reachable-state invariants are listed in DESIGN.md §4 together with what is not a theorem (runtime fairness, dial-count minimality).',
        "design_ref": "DESIGN.md §4",
    },
    "C15": {
        "text": 'Invariant theorem: for every configuration, every operation sequence of any length and every origin, the idle list never exceeds max_idle_per_host, at every point of the history (proved through all 10 ops and every pool primitive). Implementation snapshots are checked against the limit after every op. Defect (limit never enforced) found and fixed. C15_per_origin: per origin, not only per idle list - an origin\'s idle connections all sit under the one token its key was given, in every reachable state; the monitor counts per origin across lists, on histories with up to 2000 origins. The configuration\'s way through Client::builder (seven builder sequences) is covered by the cfgp stream against a real server counting connections.',
        "note": 'Trusted: Lean kernel; hand-written pool model tied to the real ConnectionPoolService by per-op differential runs (result, marker set, waiter queues, idle lists, dial and drop counters); tokio oneshot/scheduler semantics assumed; step-level theorems hold for every state; the reachable-state invariants are listed in DESIGN.md §4 together with what is not a theorem (runtime fairness, dial-count minimality).',
        "design_ref": "DESIGN.md §4",
    },

    "C18": {
        "text": "Theorems for every adapter stack, inner read/write script and operation sequence: reads deliver, in order and "
                "within the caller's capacity, exactly replay-prefix ++ inner stream (nothing lost, duplicated, invented); what "
                "reaches the inner writer is exactly what plain/vectored writes reported accepted; flush/shutdown are forwarded; the "
                "in-process pipe is FIFO in both directions and propagates data and end-of-stream. Model tied to the real adapters "
                "(run-time composed stacks, real duplex/unix/tcp pipes) by differential runs. Two-task programs (transfers up to 40 KB in either direction, chunked writes, flush, shutdown, read to the end) run over the same pipes and over the client and server TLS streams on a DuplexStream, held to the verdicts of the same programs on the pipe model.",
        "note": "Partial: memory safety of the three unsafe blocks is not expressible in the model; tokio's duplex and the kernel "
                "sockets are assumed; rustls record framing is not modelled (TLS kinds are judged by the pipe model's verdicts).",
        "design_ref": "DESIGN.md §5 C18",
    },
    "C01": {
        "text": "Theorems for every request list and every schedule (any interleaving of issuing on any eligible pooled or new "
                "connection, server reads, handler completions in any order on HTTP/2, client reads, cancellations): in the "
                "message-level model of client + pool + server whatever a caller receives is the handler's answer to that caller's own "
                "request, every request the server handles is one that was sent, as sent, and no issued request is ever lost: it is "
                "answered, cancelled by its caller, or still in flight on an open connection, so at rest every uncancelled request has "
                "its own response (invariants proved by induction over the schedule); with a pool that hands out a busy HTTP/1 connection the model does cross-talk (witness). The real "
                "Client/Server pair is run on generated concurrent scenarios with ids, digests and origin echoes checked at both ends "
                "and compared with the model's outcome.",
        "note": "Trusted: Lean kernel; hyper's framing is an assumption of the connection rules; the tie to the code is "
                "differential (concurrent scenarios, virtual time); message level: bytes are C08/C18, rewriting C13; completion is proved "
                "as no-loss + delivery at quiescence (fair scheduling itself is the runtime's), and checked on the runs.",
        "design_ref": "DESIGN.md §5 C01",
    },
    "C12": {
        "text": "Theorems for every scheme string, host string, peer behaviour, ALPN offer and TLS configuration: with a TLS "
                "configuration and an https/wss scheme in any spelling the model of TlsTransport::call + TlsTransportWrapper::call + "
                "TlsConnectionFuture never returns an unwrapped stream, never lets anything but TLS records reach the wire, returns a "
                "stream only after a handshake with a trusted certificate covering the URI host with that host as SNI, turns every "
                "handshake/verification failure and every host rustls rejects as a server name into an error, leaves other schemes "
                "unwrapped, never panics. Tied to the real TlsTransport with real rustls on both ends of a duplex, raw bytes inspected "
                "at the peer, on an exhaustive scheme x host x peer grid plus random cases every run.",
        "note": "Trusted: Lean kernel; rustls' handshake and name validation are assumptions of the model (its verdict on the host "
                "string is an input); certificate name coverage modelled for the harness' own certificates. Two defects found and "
                "fixed (panic on bracketed IPv6 / non-DNS hosts; Wss:// sent in clear).",
        "design_ref": "DESIGN.md §5 C12",
    },
    "C17": {
        "text": "Theorem for every request (any service entry point, TLS or not, any http::Version constant, CONNECT or not, any "
                "combination of scheme/host/port present, any host string whatever rustls thinks of it): the model of the request path "
                "(pool key, version -> protocol, TCP URI validation, TLS server name, request checks) - which keeps each panic!/expect/"
                "unreachable! site of the real code as a panic outcome of its helper - never reaches one, because the services' guards "
                "exclude it. Tied to the real Client / ConnectionPoolService / ConnectorService by differential runs over a request "
                "grammar and an exhaustive grid every run, with panics observed in the caller and in spawned tasks. The grammar includes the empty host, user information, [] and ports that are URI-legal but no port numbers.",
        "note": "Trusted: Lean kernel; http/hyper/rustls behaviour assumed; TCP connect replaced by a duplex after the real URI "
                "validation. Four panic defects found and fixed (HTTP/0.9 and HTTP/3 version constants; relative URI / CONNECT "
                "without authority in the HTTP/1 checks; TLS server name - shared with C12).",
        "design_ref": "DESIGN.md §5 C17",
    },
    "C13": {
        "text": "Theorems for every request (any method, scheme, host, port, path, query, version, header list): on an HTTP/1 "
                "connection the target is origin-form with path/query preserved and '/' for an empty path (authority-form for "
                "CONNECT), a Host header host[:non-default-port] is added unless the caller supplied one, other headers untouched; on "
                "HTTP/2 the five connection headers and Host are removed, the rest preserved, CONNECT rejected; h2 iff requested or "
                "ALPN h2. Model tied to the real layers + HttpConnection by differential runs observing the bytes on the wire. The client as Client::builder assembles it (layer order, pooled HTTP/1 connections handed to requests of any version) is covered by end-to-end scenarios whose server handler checks the Host header and request target it receives.",
        "note": "Trusted: Lean kernel; http crate parsers/printers and hyper's encoders are assumed; HTTP/2 side observed at the "
                "Connection::send_request boundary (stub), HTTP/1 side on the wire.",
        "design_ref": "DESIGN.md §5 C13",
    },
    "C19": {
        "text": "Theorems for every duration, inner completion time and poll schedule: the model of TimeoutFuture::poll yields the "
                "inner result unchanged iff the inner future resolved no later than the deadline (inner wins a tie), else the timeout "
                "error exactly at the deadline, never earlier; tied to the public service::Timeout by hand-polled runs under the "
                "paused clock. Clean-up after expiry is dropping the inner future, i.e. the pool model's cancel. The timeout as Client::builder installs it (three ways of handing it over, redirects followed or not, pool on/off) is covered by the toc stream: redirect hops with scripted delays under the paused clock, the whole request being one inner future for the model.",
        "note": "Trusted: Lean kernel; tokio Sleep semantics; the pooled clean-up part rests on the pool model (C03/C14) and its stream.",
        "design_ref": "DESIGN.md §5 C19",
    },
    "C10": {
        "text": "Theorems about the event-driven model of EyeballSet::finish for every attempt list and configuration (result "
                "correctness: first success wins, failure only after all candidates failed with the first error, timeout only at the "
                "deadline, no-progress iff no candidates); the model is tied to the real EyeballSet under tokio's paused clock by "
                "differential runs (random + full grid n<=3), and a decidable C10 specification is evaluated on every implementation trace.",
        "note": "Trusted: Lean kernel; tokio timer/FuturesUnordered semantics as listed in DESIGN.md §C10 (validated by the "
                "correspondence, not proved); exact ties between attempts are compared by specification only.",
        "design_ref": "DESIGN.md §5 C10",
    },
    "C11": {
        "text": "Theorems for every attempt list and configuration: attempts start in the given order, each at most once (prefix of "
                "the candidate list), the run finishes no later than the overall deadline, nothing starts after the end, pacing "
                "invariants; the start/finish trace of the real EyeballSet (paused clock) is compared with the model's on every case, "
                "and the TcpConnecting delay = timeout/n glue is observed through its trace event.",
        "note": "Trusted: Lean kernel; tokio timer/FuturesUnordered semantics (validated by correspondence); attempts are 'started' "
                "when first polled.",
        "design_ref": "DESIGN.md §5 C11",
    },
    "C08": {
        "text": "Theorems for every script of read events (every byte stream, every fragmentation, pendings anywhere): the model of "
                "ReadVersion::poll answers HTTP/2 iff the stream begins with the 24-byte preface; the Rewind replays buffer++rest so "
                "the handler sees exactly the client's bytes for every sequence of read capacities; pendings are irrelevant. Tied to the "
                "real ReadVersion (hook) and Rewind by differential runs on scripted io. One genuine defect found and fixed.",
        "note": "Trusted: Lean kernel (propext, Quot.sound, Classical.choice at most); hyper's http1/http2 server connections and "
                "ReadBuf are assumed; memory safety of the unsafe blocks is not modelled; correspondence is sampled plus a small exhaustive sweep.",
        "design_ref": "DESIGN.md §5 C08",
    },
    "C20": {
        "text": "Theorems for every request (version, Host header, authority, TLS info, server name over arbitrary strings): "
                "the model of sni::handle forwards a TLS request naming a host iff the server name equals that host "
                "case-insensitively ignoring the port, marks it validated, rejects mismatches and missing SNI, never rejects a "
                "match; model tied to the public ValidateSNI layer by differential runs. Two genuine defects found and fixed. How the TLS information reaches the requests is part of it: the acceptor-to-service channel is modelled (state machine per recv future over a fair lock) and C20_tls_request_never_told_plain proves that under every interleaving of requests asking, being polled, being cancelled and the send, no request of a TLS connection is told that there is no TLS; tied to the real channel through a hook (every poll compared), and end to end through a real TLS server with the ValidateSNI layer (snie).",
        "note": "Trusted: Lean kernel (propext, Quot.sound, Classical.choice at most); http crate's Authority parser (host/port split) "
                "is assumed; correspondence is sampled.",
        "design_ref": "DESIGN.md §5 C20",
    },
    "C16": {
        "text": "Theorems for every address list, preference and port: the model of sort_preferred equals the specification "
                "(first preferred-family address, first other-family address, rest in order), is a permutation, carries the "
                "request port, prefers IPv6 unless only IPv4 is bound; model tied to the code by differential runs through "
                "the verif hook and through TcpTransport::connecting. Also through the public connect_to_addrs on loopback listeners of both families with local addresses none / loopback / wildcard (the winner, with one attempt at a time and candidates that all answer, is decided by the order alone).",
        "note": "Trusted: Lean kernel (axioms propext, Quot.sound); hand model of SocketAddrs (VecDeque semantics assumed); "
                "correspondence is sampled (6k/300k lists). Start order of attempts is the C11 model's concern.",
        "design_ref": "DESIGN.md §5 C16",
    },
}
