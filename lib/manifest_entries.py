HOOK_COMMITS = ["91ffc11"]
NOT_APPLICABLE = {}
ENTRIES = {
    "C08": {
        "text": "Theorems for every script of read events (every byte stream, every fragmentation, pendings anywhere): the model of "
                "ReadVersion::poll answers HTTP/2 iff the stream begins with the 24-byte preface; the Rewind replays buffer++rest so "
                "the handler sees exactly the client's bytes for every sequence of read capacities; pendings are irrelevant. Tied to the "
                "real ReadVersion (hook) and Rewind by differential runs on scripted io. One genuine defect found and fixed.",
        "note": "Trusted: Lean kernel (propext, Quot.sound, Classical.choice at most); hyper's http1/http2 server connections and "
                "ReadBuf are assumed; memory safety of the unsafe blocks is not modelled; correspondence is sampled plus a small exhaustive sweep.",
        "design_ref": "DESIGN.md §5 C08",
    },
    "C20": {
        "text": "Theorems for every request (version, Host header, authority, TLS info, server name over arbitrary strings): "
                "the model of sni::handle forwards a TLS request naming a host iff the server name equals that host "
                "case-insensitively ignoring the port, marks it validated, rejects mismatches and missing SNI, never rejects a "
                "match; model tied to the public ValidateSNI layer by differential runs. Two genuine defects found and fixed.",
        "note": "Trusted: Lean kernel (propext, Quot.sound, Classical.choice at most); http crate's Authority parser (host/port split) "
                "is assumed; correspondence is sampled.",
        "design_ref": "DESIGN.md §5 C20",
    },
    "C16": {
        "text": "Theorems for every address list, preference and port: the model of sort_preferred equals the specification "
                "(first preferred-family address, first other-family address, rest in order), is a permutation, carries the "
                "request port, prefers IPv6 unless only IPv4 is bound; model tied to the code by differential runs through "
                "the verif hook and through TcpTransport::connecting.",
        "note": "Trusted: Lean kernel (axioms propext, Quot.sound); hand model of SocketAddrs (VecDeque semantics assumed); "
                "correspondence is sampled (6k/300k lists). Start order of attempts is the C11 model's concern.",
        "design_ref": "DESIGN.md §5 C16",
    },
}
