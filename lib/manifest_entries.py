HOOK_COMMITS = ["91ffc11"]
NOT_APPLICABLE = {}
ENTRIES = {
    "C20": {
        "text": "Theorems for every request (version, Host header, authority, TLS info, server name over arbitrary strings): "
                "the model of sni::handle forwards a TLS request naming a host iff the server name equals that host "
                "case-insensitively ignoring the port, marks it validated, rejects mismatches and missing SNI, never rejects a "
                "match; model tied to the public ValidateSNI layer by differential runs. Two genuine defects found and fixed.",
        "note": "Trusted: Lean kernel (propext, Quot.sound, Classical.choice at most); http crate's Authority parser (host/port split) "
                "is assumed; correspondence is sampled.",
        "design_ref": "DESIGN.md §5 C20",
    },
    "C16": {
        "text": "Theorems for every address list, preference and port: the model of sort_preferred equals the specification "
                "(first preferred-family address, first other-family address, rest in order), is a permutation, carries the "
                "request port, prefers IPv6 unless only IPv4 is bound; model tied to the code by differential runs through "
                "the verif hook and through TcpTransport::connecting.",
        "note": "Trusted: Lean kernel (axioms propext, Quot.sound); hand model of SocketAddrs (VecDeque semantics assumed); "
                "correspondence is sampled (6k/300k lists). Start order of attempts is the C11 model's concern.",
        "design_ref": "DESIGN.md §5 C16",
    },
}
