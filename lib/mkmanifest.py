#!/usr/bin/env python3
"""Regenerates MANIFEST.json from lib/manifest_entries.py (kept valid at all times)."""
import json, os, sys
sys.dont_write_bytecode = True
ROOT = os.path.dirname(os.path.dirname(os.path.abspath(__file__)))
sys.path.insert(0, os.path.join(ROOT, "lib"))
from manifest_entries import ENTRIES, NOT_APPLICABLE, HOOK_COMMITS
ALL = ["C%02d" % i for i in range(1, 21)]
checks = []
for pid in ALL:
    if pid not in ENTRIES:
        continue
    e = ENTRIES[pid]
    checks.append({
        "property_id": pid,
        "quick_cmd": "./check %s --tier quick" % pid,
        "thorough_cmd": "./check %s --tier thorough" % pid,
        "evidence_file": "/verif/evidence/%s.json" % pid,
        "replay_cmd_template": "./check %s --replay {path}" % pid,
        "engine": "lean4-model+correspondence",
        "level_claimed": {"category": "proof", "text": e["text"], "design_ref": e.get("design_ref", "DESIGN.md §5")},
        "level_note": e["note"],
        "technique": e.get("technique", "Lean 4 theorems about a hand-written executable model + differential correspondence check of the model against the real code"),
    })
na = [{"property_id": p, "reason": NOT_APPLICABLE.get(p, "not yet claimed: model and correspondence stream under construction (see DESIGN.md §10)")}
      for p in ALL if p not in ENTRIES]
m = {
    "version": 1,
    "setup_cmd": "./setup.sh",
    "hooks": {
        "guard": "cargo feature verif-hooks",
        "enable": "the harness crate /verif/harness depends on /repo by path with features client,server,stream,tls,tls-ring,sni,verif-hooks",
        "baseline_off_cmd": "cd /repo && cargo test --workspace --no-fail-fast --offline",
        "source_commits": HOOK_COMMITS,
        "add_only": True,
    },
    "engines": [
        {"name": "lean4-model+correspondence", "path": "/verif/check",
         "serves_properties": [c["property_id"] for c in checks],
         "kind_free_text": "Lean 4 property theorems (lake build + #print axioms audit) about executable models in /verif/lean; "
                           "Rust harness /verif/harness drives the real hyperdriver code; compiled Lean driver replays the same inputs; "
                           "python ./check diffs, evaluates the Lean spec on implementation observations, shrinks, writes evidence"},
    ],
    "checks": checks,
    "not_applicable": na,
    "notes": "See DESIGN.md. Known genuine defects are in known_findings.json.",
}
json.dump(m, open(os.path.join(ROOT, "MANIFEST.json"), "w"), indent=1)
print("claimed:", [c["property_id"] for c in checks])
