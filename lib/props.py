"""Per-property configuration of ./check: Lean module + obligations, correspondence streams."""

def _units(r):
    return len(r["input"].split())

def dns_nontrivial(r):
    # non-trivial: sorted, and both families present in the input
    t = r["input"].split()
    fams = set(t[i] for i in range(5, len(t), 3))
    return len(fams) == 2

def dns_dist(rs):
    d = {"hook": 0, "glue": 0, "empty": 0, "single_family": 0, "mixed": 0, "len>=6": 0, "with_port": 0}
    for r in rs:
        t = r["input"].split()
        d[t[1]] = d.get(t[1], 0) + 1
        fams = set(t[i] for i in range(5, len(t), 3))
        n = (len(t) - 5) // 3
        d["empty" if n == 0 else "single_family" if len(fams) == 1 else "mixed"] += 1
        d["len>=6"] += n >= 6
        d["with_port"] += t[1] == "hook" and t[4] != "-"
    return d

def sni_nontrivial(r):
    t = r["input"].split()
    # TLS info present and a host named
    return t[6] == "1" and (t[2] != "-" or t[4] != "-")

def sni_dist(rs):
    d = {"h2": 0, "no_tls": 0, "no_sni": 0, "h2_no_authority_with_host": 0, "fwd": 0, "rej_invalid": 0, "rej_missing": 0,
         "case_differs_only": 0, "with_port": 0}
    for r in rs:
        t = r["input"].split()
        d["h2"] += t[1] == "1"
        d["no_tls"] += t[6] == "0"
        d["no_sni"] += t[6] == "1" and t[7] == "-"
        d["h2_no_authority_with_host"] += t[1] == "1" and t[4] == "-" and t[2] != "-"
        d["with_port"] += t[3] != "-" or t[5] != "-"
        named = (t[4] if (t[1] == "1" and t[4] != "-") else t[2])
        d["case_differs_only"] += named != "-" and t[7] != "-" and named != t[7] and named.lower() == t[7].lower()
        o = r["obs"]
        d["fwd"] += o.startswith("fwd")
        d["rej_invalid"] += o == "rej invalid"
        d["rej_missing"] += o == "rej missing"
    return d

PROPS = {
    "C20": {
        "props_module": "HdModel.Props.C20",
        "theorems": ["Hd.Sni.C20_decision", "Hd.Sni.C20_forward_only_if", "Hd.Sni.C20_match_forwarded",
                     "Hd.Sni.C20_rejects", "Hd.Sni.C20_port_irrelevant"],
        "streams": [
            {"name": "sni", "quick": 6000, "thorough": 300000, "head": 8, "unit": 1,
             "nontrivial": sni_nontrivial, "distribution": sni_dist},
        ],
        "rule": "requests from a grammar (HTTP/1.1|2, Host header / authority present or absent, 12 base names incl. IPv4/IPv6 "
                "literals and punycode, 4 letter-case variants, ports, TLS info present/absent, server name present/absent/"
                "different/differently cased) through the public ValidateSNI layer; non-trivial = TLS info present and a host named",
        "assumes": ["http::uri::Authority parsing splits host and port (inputs are rendered host[:port]; the model receives them split)",
                    "ASCII case folding: Rust eq_ignore_ascii_case = Lean String.toLower equality on ASCII host names"],
    },
    "C16": {
        "props_module": "HdModel.Props.C16",
        "theorems": ["Hd.Dns.C16_eq_spec", "Hd.Dns.C16_perm", "Hd.Dns.C16_both", "Hd.Dns.C16_no_preferred",
                     "Hd.Dns.C16_no_other", "Hd.Dns.C16_port", "Hd.Dns.C16_preference", "Hd.Dns.C16_connecting"],
        "streams": [
            {"name": "dns", "quick": 6000, "thorough": 300000, "head": 5, "unit": 3,
             "nontrivial": dns_nontrivial, "distribution": dns_dist},
        ],
        "rule": "random address lists (len 0..12, both families, duplicate ids) x preference x port through the verif hook "
                "and through TcpTransport::connecting; non-trivial = both families present; distinct by input line",
        "assumes": ["std VecDeque::remove/push_front/pop_front semantics (modelled as list erase/cons)",
                    "order of connection attempts = order popped from SocketAddrs (TcpConnecting::connect loop) - see C11"],
    },
}
