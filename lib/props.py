"""Per-property configuration of ./check: Lean module + obligations, correspondence streams."""

def _units(r):
    return len(r["input"].split())

def dns_nontrivial(r):
    # non-trivial: sorted, and both families present in the input
    t = r["input"].split()
    fams = set(t[i] for i in range(5, len(t), 3))
    return len(fams) == 2

def dns_dist(rs):
    d = {"hook": 0, "glue": 0, "empty": 0, "single_family": 0, "mixed": 0, "len>=6": 0, "with_port": 0}
    for r in rs:
        t = r["input"].split()
        d[t[1]] = d.get(t[1], 0) + 1
        fams = set(t[i] for i in range(5, len(t), 3))
        n = (len(t) - 5) // 3
        d["empty" if n == 0 else "single_family" if len(fams) == 1 else "mixed"] += 1
        d["len>=6"] += n >= 6
        d["with_port"] += t[1] == "hook" and t[4] != "-"
    return d

def sni_nontrivial(r):
    t = r["input"].split()
    # TLS info present and a host named
    return t[6] == "1" and (t[2] != "-" or t[4] != "-")

def sni_dist(rs):
    d = {"h2": 0, "no_tls": 0, "no_sni": 0, "h2_no_authority_with_host": 0, "fwd": 0, "rej_invalid": 0, "rej_missing": 0,
         "case_differs_only": 0, "with_port": 0}
    for r in rs:
        t = r["input"].split()
        d["h2"] += t[1] == "1"
        d["no_tls"] += t[6] == "0"
        d["no_sni"] += t[6] == "1" and t[7] == "-"
        d["h2_no_authority_with_host"] += t[1] == "1" and t[4] == "-" and t[2] != "-"
        d["with_port"] += t[3] != "-" or t[5] != "-"
        named = (t[4] if (t[1] == "1" and t[4] != "-") else t[2])
        d["case_differs_only"] += named != "-" and t[7] != "-" and named != t[7] and named.lower() == t[7].lower()
        o = r["obs"]
        d["fwd"] += o.startswith("fwd")
        d["rej_invalid"] += o == "rej invalid"
        d["rej_missing"] += o == "rej missing"
    return d

PREFACE_HEX = "505249202a20485454502f322e300d0a0d0a534d0d0a0d0a"

def _sniff_stream(r):
    t = r["input"].split()
    evs = t[1:t.index(";")] if ";" in t else t[1:]
    data = [e[1:] for e in evs if e.startswith("d")]
    return evs, data

def sniff_nontrivial(r):
    # shares a prefix with the preface and the first 24 bytes arrive in >= 2 reads
    evs, data = _sniff_stream(r)
    s = "".join(data)
    if not s or s[:2] != PREFACE_HEX[:2]:
        return False
    first = len(data[0]) // 2 if data else 0
    return first < 24 and len(data) >= 2

def sniff_dist(rs):
    d = {"h2": 0, "h1": 0, "err": 0, "full_preface": 0, "preface_fragmented": 0, "strict_prefix_then_end": 0,
         "one_byte_chunks": 0, "with_pending": 0, "ends_in_error": 0, "zero_cap_reads": 0}
    for r in rs:
        evs, data = _sniff_stream(r)
        s = "".join(data)
        d[r["obs"].split()[0]] = d.get(r["obs"].split()[0], 0) + 1
        fp = s.startswith(PREFACE_HEX)
        d["full_preface"] += fp
        d["preface_fragmented"] += fp and len(data) >= 2 and len(data[0]) < 48
        d["strict_prefix_then_end"] += (not fp) and PREFACE_HEX.startswith(s) and len(s) > 0
        d["one_byte_chunks"] += len(data) >= 3 and all(len(x) == 2 for x in data)
        d["with_pending"] += "p" in evs
        d["ends_in_error"] += "x" in evs
        t = r["input"].split()
        d["zero_cap_reads"] += ";" in t and "0" in t[t.index(";"):]
    return d

def eb_nontrivial(r):
    t = r["input"].split()
    return t[1] == "set" and (len(t) - 5) // 2 >= 2

def eb_dist(rs):
    d = {"n0": 0, "n1": 0, "n2": 0, "n3+": 0, "ok": 0, "err": 0, "timeout": 0, "noprogress": 0, "hang": 0,
         "delay_none": 0, "delay_zero": 0, "timeout_none": 0, "timeout_zero": 0, "conc_none": 0, "conc_zero": 0,
         "never_completing_attempt": 0, "tcpdelay": 0, "not_all_started": 0}
    for r in rs:
        t = r["input"].split()
        if t[1] != "set":
            d["tcpdelay"] += 1
            continue
        n = (len(t) - 5) // 2
        d["n0" if n == 0 else "n1" if n == 1 else "n2" if n == 2 else "n3+"] += 1
        o = r["obs"].split()
        d[o[0]] = d.get(o[0], 0) + 1
        d["delay_none"] += t[2] == "-"; d["delay_zero"] += t[2] == "0"
        d["timeout_none"] += t[3] == "-"; d["timeout_zero"] += t[3] == "0"
        d["conc_none"] += t[4] == "-"; d["conc_zero"] += t[4] == "0"
        d["never_completing_attempt"] += "-" in t[5::2]
        d["not_all_started"] += (len(o) - 3) // 2 < n
    return d

def tcpc_dist(rs):
    d = {"cases": len(rs), "skipped_unreliable": 0, "candidates": {}, "outcomes": {}, "with_hang_candidate": 0, "bind6": 0,
         "through_the_resolver": 0, "single_candidate": 0, "no_overall_deadline": 0}
    for r in rs:
        parts = [p.split() for p in r["input"].split(";")]
        if r["obs"] == "unreliable":
            d["skipped_unreliable"] += 1
            continue
        head = parts[0][1:] if parts[0] and parts[0][0] == "tcpc" else parts[0]
        via = head[4] if len(head) > 4 else "a"
        t, conc, ct, loc = head[0], head[1], head[2], head[3]
        d["through_the_resolver"] += via == "c"
        d["no_overall_deadline"] += t == "-"
        d["bind6"] += loc in ("1", "wx", "sx")
        ks = [p[0] for p in parts[1:] if p]
        d["single_candidate"] += len(ks) == 1
        d["with_hang_candidate"] += "hang" in ks
        loc = {"0": "--", "1": "-x"}.get(loc, loc)
        d.setdefault("local_addresses", {})
        d["local_addresses"][loc] = d["local_addresses"].get(loc, 0) + 1
        d["order_decides_outcome"] = d.get("order_decides_outcome", 0) + (conc == "1" and "hang" not in ks)
        for k in ks:
            d["candidates"][k] = d["candidates"].get(k, 0) + 1
        o = r["obs"].split()[0]
        d["outcomes"][o] = d["outcomes"].get(o, 0) + 1
    return d

TCPC_STREAM = {"name": "tcpc", "realtime": True, "quick": 60, "thorough": 2000, "sep": ";", "batch": 500,
               "nontrivial": lambda r: len(r["input"].split(";")) > 2, "distribution": tcpc_dist}
EB_STREAMS = [{"name": "eb", "quick": 6000, "thorough": 200000, "head": 5, "unit": 2, "exhaustive": "eb-exhaustive",
               "nontrivial": eb_nontrivial, "distribution": eb_dist}, TCPC_STREAM]
EB_RULE = ("scripted attempts (n<=5; latency none/0/grid, outcome ok/err) x stagger delay {none,0,..50} x overall timeout {none,0,..200} "
           "x initial concurrency {none,0..n+1} on the real EyeballSet under tokio's paused clock; thorough adds the full grid n<=3 "
           "(65184 cases, exhaustive over that grid); plus the TcpConnecting delay glue via its trace event; non-trivial = n>=2 | tcpc: the real "
           "TcpTransport::connect_to_addrs on loopback sockets in real time - 1-5 candidates that accept at once (IPv4/IPv6 listener), refuse "
           "at once (closed port) or never answer (listener with a full accept queue), happy_eyeballs_timeout none/300/600 ms, concurrency "
           "none/1/2, per-attempt connect_timeout none/120 ms, optionally an unassignable local IPv6 address so that IPv6 candidates fail during "
           "set-up; one case in six without an overall deadline and a never-answering candidate ahead of one that answers (only the "
           "per-attempt timeout gets past it); one in five through the transport as a service (call with a URI, a resolver that answers "
           "with 1-4 candidates, all on the URI's port on different loopback addresses - TcpTransport::connect(host, port)), often a "
           "single candidate, with a deadline shorter than the per-attempt timeout or the only bound there is; compared with the composition address order (C16 model) -> TcpConnecting glue (delay = deadline / candidates) -> "
           "happy-eyeballs model: winner or kind of the first error, elapsed time within 70 ms, and no listener accepted a connection for a "
           "candidate the model never starts; ties and cases during which the machine stalled are skipped")
EB_ASSUMES = ["tokio timer semantics under the paused clock (inner future polled before the timer; timers fire at their deadline)",
              "FuturesUnordered polls newly pushed futures in push order and returns the first ready one",
              "two attempts due at the same instant may complete in either order (compared by specification only)",
              "tcpc: loopback connects and refusals take under a few milliseconds; a SYN to a listener with a full accept queue is dropped (Linux)"]

def to_nontrivial(r):
    t = r["input"].split()
    return t[2] != "-" and len(t) > 6

def to_dist(rs):
    d = {"inner_before": 0, "inner_at_deadline": 0, "inner_after": 0, "inner_never": 0, "zero_duration": 0,
         "res_inner": 0, "res_timeout": 0, "res_pending": 0, "inadequate_schedule": 0}
    for r in rs:
        t = r["input"].split()
        dd = 10 ** 30 if t[1] == "max" else int(t[1]); tt = None if t[2] == "-" else int(t[2])
        d["zero_duration"] += dd == 0
        d["max_duration"] = d.get("max_duration", 0) + (t[1] == "max")
        if tt is None: d["inner_never"] += 1
        elif tt < dd: d["inner_before"] += 1
        elif tt == dd: d["inner_at_deadline"] += 1
        else: d["inner_after"] += 1
        o = r["obs"].split()[0]
        d["res_inner" if o.startswith("inner") else "res_timeout" if o == "timeout" else "res_pending"] += 1
        ps = [int(x) for x in t[5:]]
        m = min(dd, tt) if tt is not None else dd
        d["inadequate_schedule"] += not (m in ps and all(a < b for a, b in zip(ps, ps[1:])))
    return d

def e2es_dist(rs):
    d = {"scenarios": 0, "requests": 0, "signal_ms": {}, "inflight_at_signal": 0, "inflight_http2": 0, "inflight_with_body": 0,
         "refused_after_signal": 0, "servers_completed_ok": {}}
    for r in rs:
        parts = [p.split() for p in r["input"].split(" ; ")]
        if len(parts[0]) < 5:
            continue
        sig = int(parts[0][4])
        d["scenarios"] += 1
        d["signal_ms"][str(sig)] = d["signal_ms"].get(str(sig), 0) + 1
        reqs = {q[0]: q for q in parts[1:] if len(q) == 15}
        for o in r["obs"].split():
            if o.startswith("srv="):
                d["servers_completed_ok"][o[4:]] = d["servers_completed_ok"].get(o[4:], 0) + 1
                continue
            try:
                i, rest = o.split("=", 1)
                oc, n, f, st = rest.split("/")
            except ValueError:
                continue
            d["requests"] += 1
            q = reqs.get(i)
            if st != "-" and int(st) < sig:
                d["inflight_at_signal"] += 1
                if q:
                    d["inflight_http2"] += q[1] == "2"
                    d["inflight_with_body"] += q[6] != "0" or q[10] != "0"
            elif st == "-":
                d["refused_after_signal"] += 1
    return d

E2ES_STREAM = {"name": "e2es", "quick": 400, "thorough": 30000, "sep": ";", "batch": 2000,
               "nontrivial": lambda r: " ok/" in r["obs"] and "err:" in r["obs"], "distribution": e2es_dist}
E2ES_RULE = (" | e2es: the e2e scenarios of C01 (real Client, four real Servers, HTTP/1.1 and HTTP/2, streamed request and response "
             "bodies, handler delays, upgrades, TLS) with every server under with_graceful_shutdown and the signal resolving at 0-560 "
             "virtual ms in the middle of the traffic: every request whose handler had been entered before the signal must get its "
             "complete, correct response (signal during request body, handler, response head or response body, over HTTP/1.1 and "
             "HTTP/2); every serving future must complete Ok; non-trivial = a scenario with both finished and refused requests")

def e2e_nontrivial(r):
    return r["input"].count(";") >= 3

def e2e_dist(rs):
    d = {"scenarios": 0, "requests": 0, "pool_on": 0, "tls": 0, "buffer": {}, "http2_requests": 0, "http1_requests": 0, "with_request_body": 0,
         "request_body_streamed_unknown_length": 0, "large_body_over_8k": 0, "cancellable_requests": 0, "multi_origin_scenarios": 0,
         "multi_round_scenarios": 0, "outcomes": {}, "server_side": {}}
    for r in rs:
        parts = [p.split() for p in r["input"].split(" ; ")]
        hd = parts[0]
        d["scenarios"] += 1
        d["pool_on"] += hd[2] == "1"
        d["tls"] += hd[3] == "1"
        d["buffer"][hd[1]] = d["buffer"].get(hd[1], 0) + 1
        d["over_real_tcp_sockets"] = d.get("over_real_tcp_sockets", 0) + (hd[1] == "tcp")
        origins, rounds = set(), set()
        for q in parts[1:]:
            if len(q) != 15:
                continue
            d["requests"] += 1
            d["http2_requests" if q[1] == "2" else "http1_requests"] += 1
            d["http10_requests"] = d.get("http10_requests", 0) + (q[1] == "10")
            d["upgrades"] = d.get("upgrades", 0) + (q[3] == "W")
            d["caller_supplied_host"] = d.get("caller_supplied_host", 0) + q[3].endswith("h")
            d["root_path"] = d.get("root_path", 0) + (q[4] == "root")
            d["no_path"] = d.get("no_path", 0) + (q[4] == "nopath")
            d["root_or_no_path_with_query"] = d.get("root_or_no_path_with_query", 0) + (q[4] in ("root", "nopath") and q[5] != "0")
            d["with_request_body"] += q[6] != "0"
            d["request_body_streamed_unknown_length"] += q[6] != "0" and q[8] == "0"
            d["large_body_over_8k"] += int(q[6]) > 8192 or int(q[10]) > 8192
            d["cancellable_requests"] += q[14] != "-"
            origins.add(q[2]); rounds.add(int(q[13]) // 500)
        d["multi_origin_scenarios"] += len(origins) > 1
        d["multi_round_scenarios"] += len(rounds) > 1
        for o in r["obs"].split():
            try:
                oc, n, f = o.split("=", 1)[1].split("/")
            except ValueError:
                continue
            oc = oc.split(":")[0]
            d["outcomes"][oc] = d["outcomes"].get(oc, 0) + 1
            d["server_side"][f.split(":")[0]] = d["server_side"].get(f.split(":")[0], 0) + 1
    return d

def np_nontrivial(r):
    o = r["obs"].split()
    return bool(o) and o[0] != "bad-request"

def np_dist(rs):
    d = {"service": {}, "tls": 0, "tcp_uri_validation": 0, "version": {}, "uri_form": {"absolute": 0, "origin": 0, "authority": 0, "asterisk": 0},
         "connect": 0, "host_ipv6": 0, "host_not_a_server_name": 0, "outcome": {}, "fine_class_agrees_with_model": 0}
    for r in rs:
        t = r["input"].split()
        o = r["obs"].split()
        d["service"][t[1]] = d["service"].get(t[1], 0) + 1
        d["tls"] += t[2] == "1"
        d["tcp_uri_validation"] += t[3] == "1"
        d["connect"] += t[4] == "CONNECT"
        d["version"][t[10]] = d["version"].get(t[10], 0) + 1
        form = "absolute" if t[5] != "-" else "authority" if t[6] != "-" else "asterisk" if t[8] == "*" else "origin"
        d["uri_form"][form] += 1
        d["host_ipv6"] += t[6].startswith("[")
        d["host_not_a_server_name"] += len(o) >= 3 and o[2] == "0"
        d["outcome"][o[0]] = d["outcome"].get(o[0], 0) + 1
        d["fine_class_agrees_with_model"] += "fine=1" in r.get("model", "")
    return d

def tls_nontrivial(r):
    t = r["input"].split()
    return t[1] in ("1", "2") and t[3].lower() in ("https", "wss")

def tls_dist(rs):
    d = {"tls_configured": 0, "secure_scheme": 0, "secure_scheme_odd_case": 0, "host_dns": 0, "host_ipv4": 0, "host_ipv6": 0,
         "host_not_a_server_name": 0, "alpn_offered_both_sides": 0, "peers": {}, "results": {}, "wire": {}}
    for r in rs:
        t = r["input"].split()
        o = r["obs"].split()
        d["tls_configured"] += t[1] in ("1", "2")
        d["tls_configured_twice"] = d.get("tls_configured_twice", 0) + (t[1] == "2")
        d["secure_scheme"] += t[3].lower() in ("https", "wss")
        d["secure_scheme_odd_case"] += t[3].lower() in ("https", "wss") and t[3] != t[3].lower()
        h = t[4]
        d["host_ipv6"] += h.startswith("[")
        d["host_ipv4"] += h.replace(".", "").isdigit() and h.count(".") == 3
        d["host_not_a_server_name"] += len(o) >= 7 and o[6] == "0"
        d["host_dns"] += not h.startswith("[") and not (h.replace(".", "").isdigit() and h.count(".") == 3)
        d["alpn_offered_both_sides"] += t[2] != "-" and t[7] != "-"
        d["uri_built_from_parts"] = d.get("uri_built_from_parts", 0) + (len(t) > 8 and t[8] == "p")
        d["caller_host_header"] = d.get("caller_host_header", 0) + (len(t) > 9 and t[9] != "-")
        d["peers"][t[6]] = d["peers"].get(t[6], 0) + 1
        d["results"][o[0]] = d["results"].get(o[0], 0) + 1
        if len(o) > 1:
            d["wire"][o[1]] = d["wire"].get(o[1], 0) + 1
    return d

def wire_nontrivial(r):
    t = r["input"].split()
    return t[1] == "req" and t[4] != "-" and t[5] != "-"

def wire_dist(rs):
    d = {"req_h1": 0, "req_h2": 0, "proto": 0, "connect": 0, "relative_uri": 0, "default_port_explicit": 0, "ipv6": 0,
         "empty_path": 0, "caller_host": 0, "connection_headers": 0, "sent": 0, "err_invalid_method": 0, "panic": 0}
    for r in rs:
        t = r["input"].split()
        if t[1] == "proto":
            d["proto"] += 1
            continue
        d["req_h1" if t[2] == "11" else "req_h2"] += 1
        d["connect"] += t[3] == "CONNECT"
        d["relative_uri"] += t[4] == "-"
        d["default_port_explicit"] += (t[4] in ("http", "ws") and t[6] == "80") or (t[4] in ("https", "wss") and t[6] == "443")
        d["ipv6"] += t[5].startswith("[")
        d["empty_path"] += t[7] == "-"
        d["caller_host"] += any(h.startswith("host=") for h in t[10:])
        d["connection_headers"] += any(h.split("=")[0] in ("connection", "proxy-connection", "keep-alive", "transfer-encoding", "upgrade") for h in t[10:])
        o = r["obs"].split()[0]
        d["sent" if o == "sent" else "err_invalid_method" if o == "err-invalid-method" else "panic"] += 1
    return d

def st_nontrivial(r):
    t = r["input"].split()
    return len(t) > 8

def st_dist(rs):
    d = {"script": 0, "pipe_mem": 0, "pipe_kernel": 0, "with_rewind": 0, "with_wrapper": 0, "with_bridge": 0, "vectored": 0,
         "zero_cap_read": 0, "pending": 0, "error": 0, "eof_seen": 0, "shutdown_ops": 0, "short_write": 0}
    for r in rs:
        t = r["input"].split()
        if t[1] == "script":
            d["script"] += 1
            layers = t[2:t.index(";")]
            d["with_rewind"] += any(l.startswith("R") for l in layers)
            d["with_wrapper"] += "W" in layers
            d["with_bridge"] += "B" in layers
        elif t[1] == "prog":
            k = int(t[2])
            key = "prog_tls_lazy_handshake" if k == 6 else "prog_tls" if k == 7 else "prog_kernel" if k >= 4 else "prog_mem"
            d[key] = d.get(key, 0) + 1
            trs = t[t.index(";") + 1:len(t) - 1 - t[::-1].index(";")]
            d["prog_server_speaks_first"] = d.get("prog_server_speaks_first", 0) + (trs[:1] != [] and trs[0].startswith("b"))
            d["prog_transfer_larger_than_pipe"] = d.get("prog_transfer_larger_than_pipe", 0) + any(int(x[1:].split(".")[0]) > int(t[3]) for x in trs)
            d["prog_with_close"] = d.get("prog_with_close", 0) + (t[-1] != "-")
            continue
        else:
            d["pipe_kernel" if int(t[2]) >= 4 else "pipe_mem"] += 1
        ops = t[len(t) - 1 - t[::-1].index(";") + 1:]
        d["vectored"] += any(o.startswith("v") for o in ops)
        d["zero_cap_read"] += any(o in ("r0",) for o in ops)
        d["shutdown_ops"] += any(o.endswith("s") and len(o) <= 2 for o in ops)
        o = r["obs"].split()
        d["pending"] += "P" in o
        d["error"] += "E" in o
        d["eof_seen"] += "b-" in o
        d["short_write"] += any(x.startswith("n") for x in o)
    return d

def _pool_ops(r):
    return [o.strip() for o in r["input"].split(";")[1:]]

def pool_nontrivial(r):
    ops = _pool_ops(r)
    mark = ops.index("mark") if "mark" in ops else len(ops)
    pre = ops[:mark]
    issued = [o for o in pre if o.startswith("i ")]
    return len(issued) >= 2 and any(o.startswith(("f ", "c ")) for o in pre)

def pool_dist(rs):
    d = {"cases": 0, "h2_requests": 0, "multi_origin": 0, "with_cancel": 0, "with_dial_failure": 0, "timed_idle": 0,
         "max_idle_small": 0, "cap_off": 0, "ops_total": 0, "noop_ops": 0, "got": 0, "got_reused": 0, "err_unavailable": 0,
         "err_connect": 0, "err_handshake": 0, "woken_polls": 0, "conn_close_ops": 0}
    for r in rs:
        ops = _pool_ops(r)
        cfg = r["input"].split(";")[0].split()
        d["cases"] += 1
        iss = [o.split() for o in ops if o.startswith("i ")]
        d["h2_requests"] += sum(1 for o in iss if o[3] == "1")
        d["multi_origin"] += len(set(o[2] for o in iss if int(o[1]) < 100)) > 1
        d["with_cancel"] += any(o.startswith("c ") for o in ops)
        d["with_dial_failure"] += any(o.endswith((" fc", " fh")) for o in ops[:ops.index("mark")] if True) if "mark" in ops else 0
        d["timed_idle"] += cfg[1] == "50"
        d["lax_connection"] = d.get("lax_connection", 0) + (len(cfg) > 4 and cfg[4] == "1")
        d["unreliable_skipped"] = d.get("unreliable_skipped", 0) + (r["obs"].strip() == "unreliable")
        d["max_idle_small"] += cfg[2] in ("0", "1", "2")
        d["cap_off"] += cfg[3] == "0"
        d["conn_close_ops"] += sum(1 for o in ops if o.startswith("cc "))
        obs = [o.split()[0] for o in r["obs"].split(";") if o.strip()]
        d["ops_total"] += len(obs)
        for o in obs:
            d["noop_ops"] += o.startswith("N")
            d["got"] += o.startswith("G")
            d["got_reused"] += o.startswith("G") and o.split(".")[1] == "1"
            d["err_unavailable"] += o.startswith("E0")
            d["err_connect"] += o.startswith("E1")
            d["err_handshake"] += o.startswith("E2")
            d["woken_polls"] += o.endswith("w")
    return d

POOL_STREAM = {"amplify": lambda r: pool_amplify(r), "name": "pool", "quick": 6000, "thorough": 120000, "sep": ";", "batch": 4000, "keep": ["mark"],
               "nontrivial": pool_nontrivial, "distribution": pool_dist}
def pool_amplify(r):
    """A case on which model and pool disagree without the specification objecting (a bookkeeping difference, say): variants of it
    that give the difference a chance to matter - further requests for every origin placed just before the step at which the two
    part, then every attempt resolved (failing), tasks run, everybody polled twice."""
    toks = r["input"].split(" ; ")
    head, ops = toks[0], toks[1:]
    shown = r.get("model", "").split(" ; ")
    j = next((i for i, e in enumerate(shown) if e.rstrip().endswith("<")), len(ops))
    j = min(j, len(ops))
    reqs, keys = [], []
    for o in ops:
        t = o.split()
        if t and t[0] == "i" and len(t) >= 4:
            reqs.append(t[1])
            if t[2] not in keys: keys.append(t[2])
    if not reqs: return []
    out = []
    for mux in ("1", "0"):
        extra, new = [], []
        for n, k in enumerate(keys[:3]):
            for rep in range(2):
                q = str(900 + 10 * n + rep + (50 if mux == "0" else 0))
                extra += ["i %s %s %s" % (q, k, mux), "p " + q]
                new.append(q)
        everyone = reqs + new
        rnd = ["p " + q for q in everyone] + ["d %s fc" % q for q in everyone] + ["run"]
        drain = ["mark"] + rnd + rnd + rnd + ["p " + q for q in everyone] + ["mark", "mark"]
        for at in sorted({j, max(j - 1, 0), len(ops)}):
            # whoever has been issued by then gets a poll first (its attempt is under way), then the newcomers arrive
            sofar = [o.split()[1] for o in ops[:at] if o.split()[:1] == ["i"] and len(o.split()) >= 4]
            out.append(" ; ".join([head] + ops[:at] + ["p " + q for q in sofar] + extra + ops[at:] + drain))
    rnd = ["p " + q for q in reqs] + ["d %s fc" % q for q in reqs] + ["run"]
    out.append(" ; ".join([head] + ops + ["mark"] + rnd + rnd + ["p " + q for q in reqs] + ["mark", "mark"]))
    return out

POOLT_STREAM = {"name": "poolt", "realtime": True, "quick": 40, "thorough": 1500, "sep": ";", "batch": 4000, "keep": ["mark"],
                "exhaustive": "poolt-exhaustive", "exhaustive_always": True,
                "nontrivial": pool_nontrivial, "distribution": pool_dist}
POOL_RULE = ("random schedules (6-34 ops + drain/probe phase) of issue / poll / cancel / dial ok|ok+ALPN-h2|fail-connect|fail-handshake / "
             "(ok-but-not-shareable also for an HTTP/2 request) / response arrives / connection-ready / connection-close / run-tasks / runtime-shutdown (every spawned task dropped, the pool lives on; 1 case in 40) / hold (another thread keeps the pool's mutex for 10 ms of real time while the next op runs: a dial completing for its request or in the background, a release, a cancellation; 1 case in 40 built around it, 1 in 15 of the others sprinkled with it) / real-time tick over 1-3 origins (differing in scheme, port, "
             "host, letter case), HTTP/1.1 and HTTP/2 mixed, max_idle in {0,1,2,3,32}, both continue_after_preemption settings, idle "
             "timeout none/0/sub-millisecond/50ms/long, through the public ConnectionPoolService over hyperdriver's own RequestExecutor with scripted "
             "Transport/Protocol/Connection (response arrival and readiness scripted independently; timed cases include released "
             "connections that stay busy past the idle timeout); after "
             "every op the result, the pool snapshot (marker set, waiter queues, idle lists), dial and drop counters are compared with "
             "the model and the monitors run. non-trivial = >=2 requests and at least one release or cancel before the drain phase")
POOL_ASSUMES = ["tokio oneshot semantics (5-state model) and FIFO task scheduling of the current-thread runtime",
                "one op = one poll/drop executed atomically (every PoolInner access is under its mutex); real thread interleavings only in the poolmt stream, judged by the specification alone",
                "hyper's is_ready/poll_ready abstracted as open && !busy (the equality is_open = poll_ready-is-Ok is checked on the real HttpConnection by the conn stream); an upgraded connection is one that never becomes ready again",
                "idle expiry uses the real clock: timed cases use 50 ms (or sub-millisecond) timeouts with 5/150 ms sleeps (guard band); every run "
                "includes the grid of idle lists of 1-3 connections (k oldest expired x any subset closed by the peer, 80 cases; a full list under a small limit expiring as a whole before further releases, 11 cases)"]

def poolmt_dist(rs):
    d = {"cases": len(rs), "requests_resolved": 0, "requests_dropped_by_caller": 0, "worker_threads": {}}
    for r in rs:
        t = r["input"].split()
        d["worker_threads"][t[2]] = d["worker_threads"].get(t[2], 0) + 1
        for kv in r["obs"].split():
            k, _, v = kv.partition("=")
            if k == "done": d["requests_resolved"] += int(v)
            if k == "dropped": d["requests_dropped_by_caller"] += int(v)
    return d

POOLMT_STREAM = {"name": "poolmt", "quick": 120, "thorough": 6000, "head": 6, "unit": 1, "batch": 2000, "nondeterministic": True,
                 "nontrivial": lambda r: True, "distribution": poolmt_dist}
POOLMT_RULE = (" | poolmt: the same service on a multi-threaded runtime (2-8 workers) in real time while another OS thread keeps taking the "
               "pool's mutex (snapshot hook): 10-60 requests to two origins start within 12 ms, a third of them dropped by the caller "
               "after 0-5 ms, every connection attempt terminates by itself after 0-3 ms (ok / ALPN h2 / connect failure / handshake "
               "failure), responses arrive and connections become ready or are closed by the peer after 0-3 ms; not deterministic, so "
               "judged by the specification only: every request not dropped resolves within 10 s, a fresh probe per origin and protocol "
               "resolves afterwards, no non-shareable connection carries two requests at once, no request runs on another origin's "
               "connection, no idle list seen by the snapshot thread exceeds the limit")

CONN_STREAM = {"name": "conn", "quick": 600, "thorough": 30000, "head": 1, "unit": 1, "batch": 20000,
               "nontrivial": lambda r: "send" in r["input"].split() and any(o[1] == "P" for o in r["obs"].split()),
               "distribution": lambda rs: {"walks": len(rs), "steps": sum(len(r["obs"].split()) for r in rs),
                                           "observed_busy": sum(o[1] == "P" for r in rs for o in r["obs"].split()),
                                           "observed_ready": sum(o[1] == "R" for r in rs for o in r["obs"].split()),
                                           "observed_closed": sum(o[1] == "E" for r in rs for o in r["obs"].split())}}
CONN_RULE = (" | conn: the leaf contract on hyperdriver's own HttpConnection (HTTP/1.1 via Protocol::connect over a duplex, real hyper): "
             "random walks of send / peer sends head+part of the body / peer sends the rest / poll the response / read the body / drop the "
             "response unread / peer closes; after every step is_open(), poll_ready() and can_share() are read at the same instant and must "
             "satisfy is_open = (poll_ready is Ready(Ok)), can_share = false - the model's isOpenC with lax = false; one walk in five is over an HTTP/2 "
             "HttpConnection against a real hyper HTTP/2 server (send / poll / server goes away): can_share = true, and is_open until the peer is gone, not after")

def cfgp_dist(rs):
    d = {"cases": len(rs), "skipped_unreliable": 0, "builder_sequence": {}, "max_idle": {}, "with_idle_timeout": 0, "burst_exceeds_limit": 0,
         "follow_up_after_timeout": 0, "request_timeout_shorter_than_handler": 0, "redirect_policy": {}, "own_user_agent": 0}
    for r in rs:
        t = r["input"].split()[-8:]
        if r["obs"] == "unreliable":
            d["skipped_unreliable"] += 1
            continue
        d["builder_sequence"][t[0]] = d["builder_sequence"].get(t[0], 0) + 1
        d["max_idle"][t[1]] = d["max_idle"].get(t[1], 0) + 1
        d["with_idle_timeout"] += t[2] != "-"
        d["burst_exceeds_limit"] += int(t[3]) > int(t[1])
        d["follow_up_after_timeout"] += t[2] != "-" and int(t[4]) > int(t[2])
        d["request_timeout_shorter_than_handler"] += t[5] != "-" and int(t[5]) < 400
        d["redirect_policy"][t[6]] = d["redirect_policy"].get(t[6], 0) + 1
        d["own_user_agent"] += t[7] == "1"
    return d

CFGP_STREAM = {"name": "cfgp", "quick": 48, "thorough": 1500, "head": 9, "unit": 1, "batch": 500,
               "nontrivial": lambda r: int(r["input"].split()[-5]) > int(r["input"].split()[-7]), "distribution": cfgp_dist}
CFGP_RULE = (" | cfgp: the configuration on its way through Client::builder. Sequences 0-6: the pool configuration handed over by with_pool on a "
             "fresh builder, after with_default_pool, after without_pool, before the transport is chosen, given twice, on Builder::default(), "
             "or edited in place through pool(); sequences 7-15: pool configuration, request timeout, user agent and redirect policy are "
             "set FIRST and then a chain of the calls that rebuild the builder value field by field follows (with_transport / "
             "with_auto_http in either order, with_tcp, with_protocol, with_redirect_policy, with_standard_redirect_policy, "
             "without_redirects, layer, with_body). max_idle_per_host in {0,1,2,3,40}, idle_timeout none / 80 ms, request timeout none / "
             "150 ms / 5 s, redirects none / standard / limited; a burst of 1-5 concurrent HTTP/1.1 requests to one origin over "
             "in-memory connections to a real hyperdriver server that counts its connections and answers only when the whole burst has "
             "arrived; observed: connections still open 20 ms after everything was released, connections accepted in all after one more "
             "request 5 / 200 ms later, the outcome of a request whose handler takes 400 ms, the status of a redirected request, and whether "
             "every request carried the configured user agent; the model runs the same history through the pool model with the "
             "configuration given and derives the rest from the configuration")

def pool_prop(mod, prefixes, theorems, timed=False, mt=False, leaf=False, cfgp=False):
    return {"props_module": mod, "class_prefix": prefixes, "theorems": theorems,
            "streams": [POOL_STREAM] + ([POOLT_STREAM] if timed else []) + ([POOLMT_STREAM] if mt else []) + ([CONN_STREAM] if leaf else []) + ([CFGP_STREAM] if cfgp else []),
            "rule": POOL_RULE + (POOLMT_RULE if mt else "") + (CONN_RULE if leaf else "") + (CFGP_RULE if cfgp else ""), "assumes": POOL_ASSUMES}

def srv_nontrivial(r):
    ops = [o.strip() for o in r["input"].split(";")[1:]]
    return sum(1 for o in ops if o.startswith("conn ")) >= 2

def srv_dist(rs):
    d = {"h1": 0, "auto": 0, "graceful": 0, "raw_acceptor": 0, "makefail": 0, "with_signal": 0, "with_cancelled_connect": 0,
         "with_garbage": 0, "with_partial": 0, "with_sniff_partial": 0, "with_listener_loss": 0, "ended_ok": 0, "ended_err_accept": 0,
         "ended_err_make": 0, "still_serving": 0, "signal_during_handler": 0}
    for r in rs:
        t = r["input"].split(";")
        cfg = t[0].split()
        ops = [o.strip() for o in t[1:]]
        d[cfg[1]] += 1
        d["graceful"] += cfg[2] != "0"; d["completed_future_kept_alive"] = d.get("completed_future_kept_alive", 0) + (cfg[2] == "2"); d["raw_acceptor"] += cfg[3] == "raw"; d["tls_acceptor"] = d.get("tls_acceptor", 0) + (cfg[3] == "tls"); d["makefail"] += cfg[4] != "-"
        d["with_signal"] += "signal" in ops
        d["with_cancelled_connect"] += any(o.startswith("connx") for o in ops)
        d["with_garbage"] += any(o.endswith("garbage") for o in ops)
        d["with_partial"] += any(o.endswith(" half") for o in ops)
        d["with_sniff_partial"] += any(o.endswith("prihalf") for o in ops)
        d["with_listener_loss"] += "droplistener" in ops
        last = r["obs"].split(";")[-1].split()[0]
        d["ended_ok" if last == "OK" else "ended_err_accept" if last == "EA" else "ended_err_make" if last == "EM" else "still_serving"] += 1
        if "signal" in ops:
            k = ops.index("signal")
            obs = [o.split() for o in r["obs"].split(";")]
            if k > 0 and k < len(obs):
                prev = obs[k - 1][1:]
                d["signal_during_handler"] += any(int(c.split(".")[3]) > int(c.split(".")[1]) for c in prev)
    return d

SRV_STREAM = {"name": "srv", "quick": 4000, "thorough": 200000, "sep": ";", "batch": 4000,
              "nontrivial": srv_nontrivial, "distribution": srv_dist}
def srvk_dist(rs):
    d = {"acceptor": {}, "faults": {}, "faults_before_first_poll": 0, "observations": {}}
    for r in rs:
        t = r["input"].split()
        d["acceptor"][t[2]] = d["acceptor"].get(t[2], 0) + 1
        for f in t[4::2]:
            d["faults_before_first_poll"] += f.startswith("pre:")
            f = f.replace("pre:", "")
            d["faults"][f] = d["faults"].get(f, 0) + 1
        d["observations"][r["obs"]] = d["observations"].get(r["obs"], 0) + 1
    return d

SRVK_STREAM = {"name": "srvk", "realtime": True, "quick": 60, "thorough": 3000, "sep": ";", "batch": 4000, "exhaustive": "srvk-exhaustive",
               "exhaustive_always": True, "nontrivial": lambda r: len(r["input"].split()) > 5, "distribution": srvk_dist}
SRVK_RULE = (" | srvk: the real Server (HTTP/1 or auto) on kernel and TLS acceptors - TcpListener, UnixListener, TCP+TLS, duplex+TLS "
             "(real rustls, harness/certs), and an acceptor of the caller's own (public Accept trait: an in-memory listen queue whose "
             "connections are readable the moment they are accepted), bare and under with_tls - in real time: 1-5 misbehaving clients (RST with SO_LINGER 0, immediate close, garbage, "
             "partial head, partial TLS record, stalled), each either before the server future is first polled (sitting in the "
             "listen backlog) or after, then a well-behaved probe (a real TLS client on the TLS acceptors); every run includes the "
             "grid protocol x acceptor x fault x {before, after} (144 cases). An input on which the implementation does not come back "
             "within the harness watchdog limit (60 s per input; a spinning task never lets the paused runtime go idle) is a violation with that input as replay")
SRV_RULE = ("op sequences (connect, connect-then-give-up, complete / partial / rest-of / garbage request, partial HTTP/2 preface, "
            "handler release, client disconnect, shutdown signal, listener loss) for up to 4 raw clients against the real Server "
            "(HTTP/1 or auto-detecting; without graceful shutdown, with it and the future awaited by value, with it and the completed "
            "future kept alive; raw DuplexIncoming, Acceptor-wrapped, or wrapped with TLS (clients handshake with their first send and tell a closed TLS session from an ended transport); make-service "
            "failing at the k-th connection) under the paused clock, with all tasks run to quiescence after every op; ends with a "
            "well-behaved probe client. non-trivial = at least 2 connections")
SRV_ASSUMES = ["hyper's HTTP/1 server connection: one exchange at a time; after graceful_shutdown it finishes the exchange it "
               "has started reading and closes; an idle one closes at once; garbage closes the connection (rules of Model/Server.lean)",
               "tokio watch/mpsc semantics; all tasks run to quiescence after every op (coarser than arbitrary interleavings)",
               "kernel accept errors other than those provoked by reset/closed backlog entries (EMFILE, ENOBUFS, ...) are not exercised; on TCP/Unix/TLS acceptors only the outcome (server still running, probe served) is compared, not intermediate states",
               "HTTP/2 connections are only taken as far as the preface"]

PROPS = {
    "C07": {"props_module": "HdModel.Props.C07", "class_prefix": ["C07/"],
            "theorems": ["Hd.Server.C07_signal_completes", "Hd.Server.C07_signal_first", "Hd.Server.C07_ended_stays", "Hd.Server.C07_no_accept_after",
                         "Hd.Server.C07_all_told", "Hd.Server.C07_idle_closed", "Hd.Server.C07_inflight_kept",
                         "Hd.Server.C07_inflight_completes", "Hd.Server.C07_partial_head_served", "Hd.Server.C07_completed_for_good", "Hd.Server.C07_never_served_after"],
            "streams": [SRV_STREAM, E2ES_STREAM], "rule": SRV_RULE + E2ES_RULE, "assumes": SRV_ASSUMES},
    "C09": {"props_module": "HdModel.Props.C09", "class_prefix": ["C09/"],
            "theorems": ["Hd.Server.C09_only_three_exits", "Hd.Server.C09_isolation", "Hd.Server.C09_cancelled_connect_harmless",
                         "Hd.Server.legitEnd_step", "Hd.Server.step_srv_cases", "Hd.Server.C09_faults_do_not_stop_service",
                         "Hd.Server.C09_kernel_stream", "Hd.Server.probe_served", "Hd.Server.untouched_step"],
            "streams": [SRV_STREAM, SRVK_STREAM], "rule": SRV_RULE + SRVK_RULE, "assumes": SRV_ASSUMES},
    "C02": pool_prop("HdModel.Props.C02", ["C02/"], ["Hd.Pool.C02_one_holder", "Hd.Pool.C02_held_out_of_pool", "Hd.Pool.C02_pooled_once",
        "Hd.Pool.C02_available_means_ready", "Hd.Pool.C02_busy_not_available", "Hd.Pool.C02_handout_ready",
        "Hd.Pool.step_lininv", "Hd.Pool.run_lininv", "Hd.Pool.step_ready", "Hd.Pool.run_ready", "Hd.Pool.C02_single_delivery", "Hd.Pool.C02_delivered_not_idle",
        "Hd.Pool.C02_handback_only_when_ready", "Hd.Pool.C02_pop_not_busy", "Hd.Pool.C02_exec_marks_busy", "Hd.Pool.C02_open_means_ready", "Hd.Pool.C02_dropped_handback_returns_nothing"], timed=True, mt=True, leaf=True),
    "C03": pool_prop("HdModel.Props.C03", ["C03/"], ["Hd.Pool.C03_waiter_only_while_attempt_in_flight", "Hd.Pool.C03_waiter_poll",
        "Hd.Pool.step_waiters", "Hd.Pool.run_waiters", "Hd.Pool.C03_cancel_releases", "Hd.Pool.C03_owner_drop_cancels",
        "Hd.Pool.C03_released_waiter_resolves", "Hd.Pool.C03_released_dialer_continues", "Hd.Pool.C03_resolves_when_attempt_done",
        "Hd.Pool.C03_marker_has_running_owner", "Hd.Pool.C03_waiter_waits_for_running_attempt", "Hd.Pool.C03_only_owner_cancels",
        "Hd.Pool.C03_waiter_channel_usable", "Hd.Pool.C03_pending_waiter_waits_for_running_attempt", "Hd.Pool.step_waitChan", "Hd.Pool.run_waitChan",
        "Hd.Pool.step_minv", "Hd.Pool.run_minv"], mt=True),
    "C04": pool_prop("HdModel.Props.C04", ["C04/"], ["Hd.Pool.C04_reuse_issue", "Hd.Pool.C04_reuse_poll", "Hd.Pool.C04_share_stays_pooled",
        "Hd.Pool.C04_dedup_issue", "Hd.Pool.C04_dedup_poll", "Hd.Pool.C04_marker_owner", "Hd.Pool.issue_found", "Hd.Pool.issue_missing",
        "Hd.Pool.C04_one_attempt_per_origin", "Hd.Pool.C04_attempt_ids_distinct", "Hd.Pool.step_minv", "Hd.Pool.run_minv",
        "Hd.Pool.C04_released_connection_is_kept", "Hd.Pool.C04_cancel_returns_unused", "Hd.Pool.C04_only_polls_dial", "Hd.Pool.dropCheckout_dials", "Hd.Builder.pool_survives"], leaf=True, cfgp=True),
    "C05": pool_prop("HdModel.Props.C05", ["C05/"], ["Hd.Pool.C05_pop_spec", "Hd.Pool.C05_expired_head", "Hd.Pool.C05_no_timeout_never_expires",
        "Hd.Pool.C05_pop_suffix", "Hd.Pool.C05_issue_fresh", "Hd.Builder.pool_survives",
        "Hd.Pool.C05_pop_conserves", "Hd.Pool.C05_pop_drops_only_closed", "Hd.Pool.C05_no_timeout_drops_only_closed", "Hd.Pool.C05_pop_split"], timed=True, leaf=True, cfgp=True),
    "C06": pool_prop("HdModel.Props.C06", ["C06/"], ["Hd.Pool.C06_request_gets_own_origin", "Hd.Pool.C06_held_same_origin",
        "Hd.Pool.C06_idle_same_origin", "Hd.Pool.step_originInv", "Hd.Pool.run_originInv", "Hd.Pool.step_coSame",
        "Hd.Pool.C06_tokenOf", "Hd.Pool.C06_tokens_distinct", "Hd.Pool.C06_new_conn_origin", "Hd.Pool.keysOk_init"], mt=True),
    "C14": pool_prop("HdModel.Props.C14", ["C14/"], ["Hd.Pool.C14_preempt", "Hd.Pool.pushLoop_first_live", "Hd.Pool.C14_keeps_listening",
        "Hd.Pool.C14_continue", "Hd.Pool.C14_discard", "Hd.Pool.C14_listener_is_queued", "Hd.Pool.C14_release_serves_a_listener",
        "Hd.Pool.pushLoop_delivers", "Hd.Pool.step_queued", "Hd.Pool.run_queued"]),
    "C15": pool_prop("HdModel.Props.C15", ["C15/"], ["Hd.Pool.C15_idle_bound", "Hd.Pool.step_idleBound", "Hd.Pool.push_idleBound", "Hd.Pool.C15_per_origin", "Hd.Pool.compact_eq",
        "Hd.Builder.C15_with_pool_in_effect", "Hd.Builder.pool_survives"], timed=True, mt=True, cfgp=True),
    "C18": {
        "props_module": "HdModel.Props.C18",
        "class_prefix": ["C18/", "C08/bytes-altered"],
        "theorems": ["Hd.Streams.C18_read_fifo", "Hd.Streams.C18_read_prefix", "Hd.Streams.C18_write_forward",
                     "Hd.Streams.C18_flush_shutdown_forwarded", "Hd.Streams.C18_run_spec", "Hd.Streams.C18_pipe_fifo",
                     "Hd.Streams.C18_pipe_progress", "Hd.Sniff.C18_rewind_fifo", "Hd.Sniff.rewindRead_prefix_first",
                     "Hd.Streams.C18_pipe_bounded"],
        "streams": [
            {"name": "st", "quick": 6000, "thorough": 200000, "head": 1, "unit": 1, "nontrivial": st_nontrivial, "distribution": st_dist},
            {"name": "sniff", "quick": 3000, "thorough": 100000, "head": 1, "unit": 1, "nontrivial": sniff_nontrivial, "distribution": sniff_dist},
        ],
        "rule": "op sequences (read with capacity 0..64 and pre-filled buffers, write, vectored write, flush, shutdown) on run-time "
                "composed stacks of the real adapters (client Stream, server Stream, TokioIo both directions, Rewind) over a scripted "
                "inner io (short reads/writes, Pending, errors, EOF), and on real pipes (DuplexStream, Braid, client/server Stream, "
                "bridged, unix socketpair, tcp loopback) with capacities 1..64, compared with the model and a reference FIFO; one case in nine "
                "is a pair of programs, one per side, run as two tasks to completion: 1-5 transfers of 1 B - 40 KB in either direction "
                "(write in chunks of 1 B - 100 KB until everything is taken, flush; the other side reads with a buffer of 1 B - 100 KB until "
                "it has everything), then either side or both shut down and the peer reads to the end - over the same pipes with capacities "
                "1 B - 64 KiB and, half of them, over TLS on a DuplexStream (client Stream::tls with the handshake driven lazily by the "
                "first operation - a read when the server speaks first - or finished beforehand; server Stream from the TLS acceptor), "
                "compared with the same programs run on the pipe model; plus the "
                "sniff stream for Rewind behind ReadVersion. non-trivial = at least 3 operations",
        "assumes": ["tokio::io::duplex semantics (bounded buffer, Pending when full/empty, EOF after shutdown) - modelled as Pipe, assumed",
                    "kernel sockets may deliver short reads: compared with the FIFO specification only",
                    "memory safety of the unsafe ReadBuf bookkeeping is not modelled (only byte counts and contents)",
                    "TLS: rustls/tokio-rustls record framing and buffering are not modelled - the TLS kinds are held to the pipe model's "
                    "verdicts (everything written and flushed arrives, in order, then end-of-stream), which is what C18 promises of the wrapper"],
    },
    "C01": {
        "props_module": "HdModel.Props.C01",
        "class_prefix": ["C01/"],
        "theorems": ["Hd.E2E.C01_no_crosstalk", "Hd.E2E.C01_server_sees_what_was_sent", "Hd.E2E.C01_response_identity",
                     "Hd.E2E.C01_nothing_lost", "Hd.E2E.C01_quiescent_all_delivered", "Hd.E2E.C01_located_can_move",
                     "Hd.E2E.inv_step", "Hd.E2E.inv_run", "Hd.E2E.noLoss_step", "Hd.E2E.C01_busy_handout_crosstalks"],
        "streams": [
            {"name": "e2e", "quick": 1500, "thorough": 60000, "sep": ";", "batch": 2000,
             "nontrivial": e2e_nontrivial, "distribution": e2e_dist},
        ],
        "rule": "scenarios of 2-10 concurrent requests through the real Client service (Client::builder, pool on/off, custom streaming request bodies and, one in four, hyperdriver's own Body as request and response body) "
                "over in-memory duplex connections with buffer 8 B - 64 KiB (TLS: 64 B and up) - one scenario in twelve instead over real "
                "TCP sockets on 127.0.0.1 through hyperdriver's own TcpTransport (getaddrinfo resolver, happy-eyeballs connect, TcpStream) behind a "
                "wrapper that maps origins to the servers' ephemeral ports, in real time with all times divided by ten - to four real "
                "hyperdriver Servers (auto HTTP/1+HTTP/2; 1 in 4 scenarios behind TLS with server ALPN h2+http/1.1, http/1.1 only or h2 "
                "only) reached through a transport that routes by scheme, host and effective port, each server stamping its identity on "
                "the response, virtual time: per request a unique id in path, header and body pattern, HTTP/1.1 or HTTP/2, one of six "
                "origins (two hosts; no port, :8080, the other scheme's default port, explicit default port, ws/wss scheme - so that pool "
                "keys differing only in port or scheme occur together), GET/POST/PUT/DELETE/HEAD and protocol upgrades (101, then pattern "
                "bytes both ways on the upgraded stream through the TokioIo bridge; HTTP/1.1-only origins), path and query filler, 1 in 5 "
                "requests for the root path or a URI with no path at all (mostly with a query), 1 in 6 with a Host header of the caller's own (it must "
                "reach the server on an HTTP/1 connection), request body 0-70 KB in "
                "chunks of 1 B - 100 KB with or without a declared length (every third request pauses between chunks), handler delay "
                "0-100 ms, response status from a 7-entry table, response headers, response body 0-70 KB streamed in chunks, start time "
                "in 1-3 rounds 500 ms apart (later rounds find pooled connections), 1 in 5 requests dropped by the caller 0-120 ms after "
                "it starts. The handler checks id/method/path/query/headers/origin/body against each other; the client checks status, "
                "id, origin echo, header, request-body digest echo and the complete response body. 1 in 12 HTTP/1.x requests is versioned HTTP/1.0. non-trivial = at least 3 requests",
        "assumes": ["hyper: HTTP/1 and HTTP/2 framing, one exchange at a time per HTTP/1 connection, stream identifiers on HTTP/2 "
                    "(the model's connection rules); GET/HEAD bodies are only sent with a declared length",
                    "the model is message-level: byte-level integrity of streams is C08/C18, header rewriting C13",
                    "eligibility of a pooled HTTP/1 connection (not coupled to another request) is the pool's guarantee, C02",
                    "real sockets: loopback TCP only, in one scenario of twelve (further kernel acceptors: C09 srvk; kernel pipes: C18)"],
    },
    "C12": {
        "props_module": "HdModel.Props.C12",
        "class_prefix": ["C12/"],
        "theorems": ["Hd.Tls.C12_scheme_test", "Hd.Tls.C12_never_in_clear", "Hd.Tls.C12_stream_means_verified",
                     "Hd.Tls.C12_failure_is_error", "Hd.Tls.C12_success", "Hd.Tls.C12_others_not_wrapped", "Hd.Tls.C12_no_panic",
                     "Hd.Tls.C12_run_spec", "Hd.TlsPool.C12_pooled_secure_on_tls", "Hd.TlsPool.C12_pooled_needs_scheme_in_key",
                     "Hd.TlsPool.send_conn", "Hd.TlsPool.schemeUsesTls_congr", "Hd.Builder.C12_with_tls_in_effect", "Hd.Builder.tls_survives"],
        "streams": [
            {"name": "tls", "quick": 4000, "thorough": 200000, "head": 10, "unit": 1, "batch": 20000,
             "exhaustive": "tls-exhaustive", "exhaustive_always": True, "nontrivial": tls_nontrivial, "distribution": tls_dist},
            {"name": "tlsp", "quick": 60, "thorough": 3000, "sep": ";", "batch": 4000, "exhaustive": "tlsp-exhaustive", "exhaustive_always": True,
             "nontrivial": lambda r: any(t in ("https", "wss") for t in r["input"].split()) and any(t in ("http", "ws") for t in r["input"].split()),
             "distribution": lambda rs: {"sequences": len(rs), "requests": sum(len(r["input"].split(";")) - 1 for r in rs),
                                         "mixing_plain_and_secure": sum(1 for r in rs if any(t in ("https", "wss") for t in r["input"].split()) and any(t in ("http", "ws") for t in r["input"].split())),
                                         "builder_order": {o: sum(1 for r in rs if (r["input"].split(";")[0].split() + ["0"] * 4)[3] == o) for o in "012345"},
                                         "connections": sum(len(r["obs"].split(";")[-1].split()) for r in rs)}},
            {"name": "tlsd", "quick": 8, "thorough": 40, "head": 1, "unit": 1,
             "nontrivial": lambda r: "wire=tls" in r["obs"],
             "distribution": lambda rs: {"cases": len(rs), "secure_schemes": sum("wire=tls" in r["obs"] for r in rs)}},
        ],
        "rule": "tlsd: TlsTransport::<TcpTransport>::default() in a process in which no rustls crypto provider has been installed (this "
                "stream's process never does), asked to connect for https / wss / http / ws URIs to a loopback listener that records "
                "what arrives first | tlsp: where with_tls comes among the builder calls is varied too (last, first, before the "
                "transport, between transport and protocol, on Builder::default()) | the real TlsTransport (with / without a rustls ClientConfig trusting harness/certs/ca.pem) around an inner transport "
                "whose IO is an in-memory duplex; the peer end records every raw byte and is a real rustls server with a matching "
                "(example.com, *.example.com, localhost, 127.0.0.1, ::1), other-name or untrusted certificate, or speaks plaintext, "
                "closes before/after the first flight, truncates the handshake, sends a fatal alert, or stays silent. Schemes "
                "http/https/ws/wss/HTTPS/Wss/foo/httpss x 20 host forms (DNS incl. wildcard one/two labels, upper case, trailing dot, "
                "underscore; IPv4; three bracketed IPv6, an IPv4-mapped one and two bracketed hosts that are no IPv6 address - zone identifier, too few groups; URI-legal names rustls rejects) x ports x ALPN none/h2/http1.1/both on either "
                "side; the URI either parsed from a string or assembled with Uri::builder (scheme spelling kept); optionally a caller-supplied "
                "Host header naming another host; 1 case in 6 configures TLS twice (first a configuration trusting the untrusted peer's CA, then the intended one - the last one must be in force). Every run includes the exhaustive grid scheme x host x peer x {TLS configured, not} "
                "(+ from-parts / Host-header variants for the good and plaintext peers) plus the 4x4 ALPN square (4928 cases) besides the random cases. After a successful connect the client writes a marker through the stream; "
                "observed: caller result, first raw bytes at the peer (TLS record / ASCII), marker visible raw, SNI parsed from the "
                "raw ClientHello by the harness' own parser, negotiated ALPN, marker received through TLS. "
                "non-trivial = TLS configured and scheme https/wss in any spelling | tlsp: sequences of 2-5 requests to ONE authority that differ "
                "in scheme (http/https/ws/wss) through the real pooled Client (Client::builder, TLS configured, default pool) over a scripted inner "
                "transport; every connection ends at a recording peer that answers TLS if the first byte starts a handshake and then serves "
                "HTTP/1.1 200 keep-alive, so the pool reuses connections; observed per request: result and whether its request head is readable in "
                "the raw bytes of ANY connection; per connection: TLS records or ASCII. Every run includes all ordered pairs and triples of "
                "schemes on two authorities (160 cases); non-trivial = secure and plain schemes mixed",
        "assumes": ["rustls: accepts a string as a server name exactly as reported by ServerName::try_from (the model takes that "
                    "verdict as an input); a handshake succeeds iff the peer's chain leads to a trusted root, a certificate name covers "
                    "the server name, and ALPN can be agreed; SNI carries DNS names only, without a trailing dot",
                    "name coverage is modelled for the fixed certificates of harness/certs only (one-label wildcard, case-insensitive)"],
    },
    "C17": {
        "props_module": "HdModel.Props.C17",
        "class_prefix": ["C17/", "C12/panic"],
        "theorems": ["Hd.NoPanic.C17_no_panic", "Hd.NoPanic.C17_version", "Hd.NoPanic.C17_version_result", "Hd.NoPanic.C17_connect_stage",
                     "Hd.NoPanic.C17_checks", "Hd.NoPanic.C17_pool_rejects_relative", "Hd.NoPanic.protocolFrom_panics",
                     "Hd.NoPanic.authorityForm_panics", "Hd.NoPanic.tlsStreamNew_panics"],
        "streams": [
            {"name": "np", "quick": 3000, "thorough": 200000, "head": 11, "unit": 1, "batch": 20000,
             "exhaustive": "np-exhaustive", "exhaustive_always": True, "nontrivial": np_nontrivial, "distribution": np_dist},
            {"name": "tls", "quick": 500, "thorough": 20000, "head": 10, "unit": 1, "batch": 20000,
             "exhaustive": "tls-exhaustive", "exhaustive_always": True, "nontrivial": tls_nontrivial, "distribution": tls_dist},
            dict(POOL_STREAM, quick=1500, thorough=50000),
        ],
        "rule": "the pool stream's op histories (any poll, drop or task that panics is C17/pool-panic; idle timeouts none / 0 / 50 ms / 10 min / "
                "Duration::MAX) | requests from a grammar - 11 methods incl. CONNECT, TRACE and an extension method; absolute URIs (9 schemes incl. odd "
                "case and unknown ones x 15 host forms: DNS, IPv4, bracketed IPv6, punycode, underscore, URI-legal names rustls rejects; "
                "ports absent/80/443/0/random; 8 paths; 5 queries), origin-form, authority-form and asterisk-form URIs; all five "
                "http::Version constants; 0-3 headers incl. empty Host, Expect, Transfer-Encoding, mismatching Content-Length, values with "
                "opaque bytes >= 0x80 (Connection, TE, custom); bodies on "
                "POST/PUT - through Client (pool on/off), ConnectionPoolService (pool on/off) and ConnectorService, with and without TLS "
                "(real rustls against a real hyperdriver Server behind a TLS acceptor; with ALPN offering h2 on both sides in a third of the "
                "TLS cases, so that HTTP/1.1-versioned requests travel on HTTP/2 connections), over a transport that optionally applies the TCP "
                "transport's URI validation before connecting through an in-memory duplex. Panics observed in the caller (catch_unwind) "
                "and in every task spawned meanwhile (process-wide panic hook counter). Every run includes the grid service x tls x "
                "tcp-validation x {GET, CONNECT, OPTIONS, POST} x version x 13 URI forms, plus opaque-byte header variants (8640 cases). Comparison with the model is by "
                "outcome kind (response / error / panic); agreement of the exact error class is reported in the distribution. "
                "The tls stream (C12) contributes its panic class. non-trivial = the http crate accepted the request",
        "assumes": ["http crate: request/URI construction (requests it rejects are outside 'well-typed request')",
                    "hyper and rustls return errors rather than panic for requests that reach them (observed, not modelled)",
                    "the real TcpTransport's connect (DNS, sockets) is replaced by an in-memory duplex after its URI validation",
                    "panics are observed for 30 virtual ms after the request completes"],
    },
    "C13": {
        "props_module": "HdModel.Props.C13",
        "class_prefix": ["C13/"],
        "theorems": ["Hd.Wire.C13_protocol_choice", "Hd.Wire.C13_requested", "Hd.Wire.C13_h1_target", "Hd.Wire.C13_h1_host",
                     "Hd.Wire.C13_host_value", "Hd.Wire.C13_h2_sanitised", "Hd.Wire.C13_h2_connect_rejected",
                     "Hd.Wire.C13_version_matches", "Hd.Wire.C13_h1_host_present", "Hd.Wire.C13_h2_no_host"],
        "streams": [
            {"name": "wire", "quick": 5000, "thorough": 100000, "head": 10, "unit": 1, "batch": 5000,
             "nontrivial": wire_nontrivial, "distribution": wire_dist},
            {"name": "e2e", "quick": 300, "thorough": 20000, "sep": ";", "batch": 2000,
             "nontrivial": e2e_nontrivial, "distribution": e2e_dist},
        ],
        "rule": "requests from a grammar (11 methods incl. CONNECT and an extension method, schemes http/https/ws/wss/foo/none, hosts "
                "names/IPv4/bracketed IPv6/none, ports absent/80/443/8080/8443/random, 9 paths incl. empty, 5 queries, all five "
                "version constants, 0-4 pre-set headers incl. Host and the five connection headers) through the public layers in "
                "builder order around a real HttpConnection over a duplex whose raw peer records the HTTP/1 request head on the wire, "
                "or a stub HTTP/2 connection; plus request version x ALPN through HttpConnectionBuilder. non-trivial = absolute URI | e2e: the C01 "
                "scenarios through the client as Client::builder assembles it (its own layer order, the pool handing HTTP/1 connections to "
                "requests of any version) to real servers whose handler compares the Host header and the request target it receives with "
                "what the request's URI says",
        "assumes": ["http crate: Uri/HeaderMap parsing and printing; header order between different names is not significant",
                    "hyper's HTTP/1 encoder writes the request target and headers it is given (observed on the wire); "
                    "hyper's HTTP/2 client is replaced by a stub so that hyperdriver's own header stripping is what is observed"],
    },
    "C19": {
        "props_module": "HdModel.Props.C19",
        "class_prefix": ["C19/", "C03/"],
        "theorems": ["Hd.Timeout.C19_result", "Hd.Timeout.C19_no_early_timeout", "Hd.Timeout.C19_inner_first",
                     "Hd.Timeout.C19_inner_unchanged", "Hd.Builder.C19_with_timeout_in_effect", "Hd.Builder.timeout_survives",
                     "Hd.Timeout.C19_late_poll_resolves"],
        "streams": [
            {"name": "to", "quick": 6000, "thorough": 200000, "sep": None, "head": 5, "unit": 1,
             "nontrivial": to_nontrivial, "distribution": to_dist},
            dict(POOL_STREAM, quick=1500, thorough=50000),
            {"name": "toc", "quick": 400, "thorough": 20000, "head": 5, "unit": 1, "batch": 5000,
             "nontrivial": lambda r: len(r["input"].split()) > 7,
             "distribution": lambda rs: {"cases": len(rs),
                 "no_timeout": sum(r["input"].split()[1] == "-" for r in rs), "zero_timeout": sum(r["input"].split()[1] == "0" for r in rs),
                 "via": {v: sum(r["input"].split()[2] == v for r in rs) for v in "012"},
                 "redirects_followed": sum(r["input"].split()[3] != "0" for r in rs),
                 "several_hops": sum(len(r["input"].split()) > 7 for r in rs),
                 "timed_out": sum(r["obs"].startswith("timeout") for r in rs), "answered": sum(r["obs"].startswith("ok-") for r in rs)}},
            CFGP_STREAM,
        ],
        "rule": CFGP_RULE[3:] + " | toc: the timeout as Client::builder installs it - duration none/0/1/50/300/1000 ms handed over by with_timeout / "
                "without_timeout, with_optional_timeout, or set and then set again; redirects not followed / standard policy / "
                "Builder::default(); pool on/off - over in-memory connections to a real hyperdriver server answering 1-4 redirect hops "
                "after scripted delays (0-400 ms each) under tokio's paused clock: outcome, virtual instant of resolution (the whole "
                "request, redirects included, is bounded by one deadline armed when it was issued) and a probe request to the same "
                "origin afterwards | durations {0,1,5,10,20,50} x inner completion (never, 0, d-1, d, d+1, random) x result ok/err x poll schedules "
                "(executor polls at wake instants plus spurious polls; some inadequate/unsorted) on the public service::Timeout under "
                "tokio's paused clock, polled by hand; observes result, instant, number of inner polls, inner dropped. "
                "non-trivial = inner completes and >=2 polls",
        "assumes": ["tokio Sleep: ready exactly from its deadline on (virtual ms)",
                    "clean-up after a timeout = dropping the inner future = the pool model's cancel (C03/C14 theorems); "
                    "staged pooled timeouts are exercised by the pool stream"],
    },
    "C10": {
        "props_module": "HdModel.Props.C10",
        "class_prefix": ["C10/"],
        "theorems": ["Hd.Eyeballs.C10_first_success", "Hd.Eyeballs.C10_err_only_when_all_failed", "Hd.Eyeballs.C10_timeout",
                     "Hd.Eyeballs.C10_succeeds_if_possible", "Hd.Eyeballs.C10_no_candidates",
                     "Hd.Eyeballs.C10_no_progress_only_if_empty", "Hd.Eyeballs.loop_post2", "Hd.Eyeballs.loop_inv1"],
        "streams": EB_STREAMS, "rule": EB_RULE, "assumes": EB_ASSUMES,
    },
    "C11": {
        "props_module": "HdModel.Props.C11",
        "class_prefix": ["C11/"],
        "theorems": ["Hd.Eyeballs.C11_order_once", "Hd.Eyeballs.C11_deadline", "Hd.Eyeballs.C11_starts_before_finish",
                     "Hd.Eyeballs.C11_pacing", "Hd.Eyeballs.C11_first_at_zero", "Hd.Eyeballs.C11_failure_triggers_start",
                     "Hd.TcpConnect.order_perm", "Hd.TcpConnect.C11_tcp_deadline", "Hd.TcpConnect.tcp_stagger", "Hd.TcpConnect.C10_tcp_first_success",
                     "Hd.Eyeballs.C11_initial_bound", "Hd.Eyeballs.loop_inv1", "Hd.Eyeballs.loop_inv3"],
        "streams": EB_STREAMS, "rule": EB_RULE, "assumes": EB_ASSUMES,
    },
    "C08": {
        "props_module": "HdModel.Props.C08",
        "theorems": ["Hd.Sniff.C08_detect", "Hd.Sniff.C08_transparent", "Hd.Sniff.C08_run_spec",
                     "Hd.Sniff.C08_pending_irrelevant", "Hd.Sniff.C18_rewind_fifo", "Hd.Sniff.rewindRead_prefix_first",
                     "Hd.Sniff.detect_gen", "Hd.Sniff.transparent_gen", "Hd.Sniff.C08_pending_only_after_inner_pending",
                     "Hd.Sniff.C08_repolling_reaches_the_verdict", "Hd.Sniff.readVersion_of_poll"],
        "streams": [
            {"name": "sniff", "quick": 5000, "thorough": 200000, "sep": None, "head": 1, "unit": 1,
             "exhaustive": "sniff-exhaustive", "nontrivial": sniff_nontrivial, "distribution": sniff_dist},
            {"name": "autocmp", "quick": 600, "thorough": 30000, "head": 4, "unit": 1, "batch": 5000,
             "nontrivial": lambda r: len(r["input"].split()) > 6 or r["input"].split()[-1] in ("1", "2", "3", "5", "7"),
             "distribution": lambda rs: {"cases": len(rs), "write_buffering_io": sum(r["input"].split()[1] in ("1", "3") for r in rs), "initialising_reader": sum(r["input"].split()[1] in ("2", "3") for r in rs),
                 "upgrade_requests": sum(r["input"].split()[2] == "1" for r in rs),
                 "http2_scripts": sum("ref=h2" in r["obs"] for r in rs), "one_byte_at_a_time": sum(r["input"].split()[5:] == ["1"] for r in rs),
                 "answers_identical": sum("same=1" in r["obs"] for r in rs)}},
        ],
        "rule": "autocmp: the same client byte script (13 HTTP/1 requests incl. bodies, chunked, HEAD, pipelining, HTTP/1.0, Connection: close, "
                "request lines beginning like the preface, garbage; an Upgrade request followed by bytes on the upgraded stream; the HTTP/2 "
                "preface + SETTINGS + HEADERS) cut into chunks (whole, one byte at a time, fixed, cycled lists around the 24-byte mark) is "
                "played against AutoBuilder and against the single-protocol builder it must behave like, both through server::Protocol::"
                "serve_connection_with_upgrades with the same handler, over a pipe whose server end optionally holds writes back until "
                "flushed; what comes back (until 200 virtual ms of silence) is compared after removing the Date header / reducing HTTP/2 "
                "header blocks to their first byte; the model (readVersion on the script as cut) says which single-protocol server is the "
                "reference | byte streams (valid HTTP/1 requests, preface+frames, strict prefixes of the preface + EOF, prefix + diverging byte, "
                "corrupted preface, request lines sharing a prefix with the preface, random bytes) x chunkings (whole, 1 byte, tiny, "
                "arbitrary) x pendings x EOF/error endings x read capacities {0,1,2,3,5,8,24,64} through the real ReadVersion (hook) "
                "and Rewind; thorough adds all <=3-cut compositions of the first 32 bytes of 4 key streams. non-trivial = stream "
                "starts like the preface and its first 24 bytes arrive in >= 2 reads",
        "assumes": ["hyper's ReadBuf/ReadBufCursor bookkeeping (put_slice/advance) - exercised but not modelled",
                    "the protocol handlers (hyper http1/http2) are handed the Rewind stream unchanged: UpgradableConnection::poll is not modelled beyond ReadVersion+Rewind",
                    "a zero-length read is end of stream"],
    },
    "C20": {
        "props_module": "HdModel.Props.C20",
        "theorems": ["Hd.Sni.C20_decision", "Hd.Sni.C20_forward_only_if", "Hd.Sni.C20_match_forwarded",
                     "Hd.Sni.C20_rejects", "Hd.Sni.C20_port_irrelevant",
                     "Hd.Sni.C20_case_irrelevant_host", "Hd.Sni.C20_case_irrelevant_sni",
                     "Hd.TlsInfo.C20_tls_request_never_told_plain", "Hd.TlsInfo.C20_holder_gets_info",
                     "Hd.TlsInfo.C20_late_request_gets_info", "Hd.TlsInfo.step_spec",
                     "Hd.TlsInfo.C20_lock_discipline", "Hd.TlsInfo.C20_lock_discipline_tls",
                     "Hd.TlsInfo.C20_plain_request_never_told_info", "Hd.TlsInfo.C20_no_info_before_send",
                     "Hd.TlsInfo.step_quiet"],
        "streams": [
            {"name": "sni", "quick": 6000, "thorough": 300000, "head": 8, "unit": 1,
             "nontrivial": sni_nontrivial, "distribution": sni_dist},
            {"name": "snie", "quick": 400, "thorough": 20000, "head": 8, "unit": 1, "batch": 5000,
             "nontrivial": lambda r: r["input"].split()[6] == "1" and r["input"].split()[7] != "-",
             "distribution": lambda rs: {"cases": len(rs), "http2": sum(r["input"].split()[1] == "1" for r in rs),
                 "no_alpn_offered": sum(r["input"].split()[-1] == "na" for r in rs), "neither_sni_nor_alpn": sum(r["input"].split()[-1] == "na" and r["input"].split()[7] == "-" and r["input"].split()[6] == "1" for r in rs),
                 "tls": sum(r["input"].split()[6] == "1" for r in rs), "no_sni_sent": sum(r["input"].split()[6] == "1" and r["input"].split()[7] == "-" for r in rs),
                 "forwarded_validated": sum(r["obs"] == "fwd 1" for r in rs), "forwarded_plain": sum(r["obs"] == "fwd 0" for r in rs),
                 "rejected": sum(r["obs"] == "rej" for r in rs)}},
            {"name": "tlsch", "quick": 3000, "thorough": 200000, "head": 2, "unit": 1, "batch": 50000,
             "nontrivial": lambda r: "P" in r["obs"].split(),
             "distribution": lambda rs: {"cases": len(rs), "plain_connection": sum(r["input"].split()[1] == "e" for r in rs),
                 "asked_before_the_send": sum("P" in r["obs"].split() for r in rs),
                 "several_waiting_at_the_send": sum(r["obs"].split()[:r["input"].split()[3:].index("s") if "s" in r["input"].split()[3:] else 0].count("P") >= 2 for r in rs),
                 "cancelled_while_waiting": sum(any(o.startswith("d") for o in r["input"].split()[3:]) for r in rs),
                 "told_info": sum(r["obs"].split().count("S") for r in rs), "told_none": sum(r["obs"].split().count("N") for r in rs)}},
        ],
        "rule": "requests from a grammar (HTTP/1.1|2, Host header / authority present or absent, 12 base names incl. IPv4/IPv6 "
                "literals and punycode, 4 letter-case variants, ports, TLS info present/absent, server name present/absent/"
                "different/differently cased) through the public ValidateSNI layer; non-trivial = TLS info present and a host named | snie: the same "
                "requests end to end - a raw TLS client (tokio-rustls, SNI = the server name, or an IP address so that none is sent) and a hyper "
                "client connection (HTTP/1.1 or HTTP/2 by ALPN) against a real hyperdriver Server behind its TLS acceptor with "
                "with_tls_connection_info() and the ValidateSNI layer around the handler, which reports the validated mark it sees; "
                "HTTP/2 requests always carry an authority (hyper's client insists) | tlsch: "
                "how the TLS info gets to the requests - the crate-private channel between acceptor and connection service (hook "
                "verif_hooks::tls_info): 1-5 requests call recv() on clones of the receiver, are polled one poll at a time or dropped, in "
                "any order around the acceptor's send; then everybody still waiting is polled three rounds and a late request asks; "
                "every poll's result (pending / the info / none) is compared with the model (state machine + tokio's fair RwLock); "
                "one case in eight on the receiver of a connection without TLS",
        "assumes": ["http::uri::Authority parsing splits host and port (inputs are rendered host[:port]; the model receives them split)",
                    "ASCII case folding: Rust eq_ignore_ascii_case = Lean String.toLower equality on ASCII host names",
                    "tokio::sync::RwLock is a fair semaphore (FIFO waiters, released permits go to the queue first); a completed oneshot "
                    "receiver resolves at its next poll (tokio's cooperative budget, which can make it yield once more, is not modelled)"],
    },
    "C16": {
        "props_module": "HdModel.Props.C16",
        "class_prefix": ["C16/"],
        "theorems": ["Hd.Dns.C16_eq_spec", "Hd.Dns.C16_perm", "Hd.Dns.C16_both", "Hd.Dns.C16_no_preferred",
                     "Hd.Dns.C16_no_other", "Hd.Dns.C16_port", "Hd.Dns.C16_preference", "Hd.Dns.C16_connecting",
                     "Hd.Dns.C16_idempotent", "Hd.Dns.C16_family_order"],
        "streams": [
            {"name": "dns", "quick": 6000, "thorough": 300000, "head": 5, "unit": 3,
             "nontrivial": dns_nontrivial, "distribution": dns_dist},
            TCPC_STREAM,
        ],
        "rule": "random address lists (len 0..12, both families, duplicate ids) x preference x port through the verif hook "
                "and through TcpTransport::connecting with local addresses none / loopback / wildcard / another host address per "
                "family; non-trivial = both families present; distinct by input line | tcpc: the public connect_to_addrs on "
                "loopback listeners of both families with local addresses none / loopback / wildcard / unassignable - a third of "
                "the cases run one attempt at a time against candidates that all answer at once, so that the winner (or the "
                "reported error) is decided by the order of the attempts alone",
        "assumes": ["std VecDeque::remove/push_front/pop_front semantics (modelled as list erase/cons)",
                    "order of connection attempts = order popped from SocketAddrs (TcpConnecting::connect loop) - see C11"],
    },
}
