"""Per-property configuration of ./check: Lean module + obligations, correspondence streams."""

def _units(r):
    return len(r["input"].split())

def dns_nontrivial(r):
    # non-trivial: sorted, and both families present in the input
    t = r["input"].split()
    fams = set(t[i] for i in range(5, len(t), 3))
    return len(fams) == 2

def dns_dist(rs):
    d = {"hook": 0, "glue": 0, "empty": 0, "single_family": 0, "mixed": 0, "len>=6": 0, "with_port": 0}
    for r in rs:
        t = r["input"].split()
        d[t[1]] = d.get(t[1], 0) + 1
        fams = set(t[i] for i in range(5, len(t), 3))
        n = (len(t) - 5) // 3
        d["empty" if n == 0 else "single_family" if len(fams) == 1 else "mixed"] += 1
        d["len>=6"] += n >= 6
        d["with_port"] += t[1] == "hook" and t[4] != "-"
    return d

PROPS = {
    "C16": {
        "props_module": "HdModel.Props.C16",
        "theorems": ["Hd.Dns.C16_eq_spec", "Hd.Dns.C16_perm", "Hd.Dns.C16_both", "Hd.Dns.C16_no_preferred",
                     "Hd.Dns.C16_no_other", "Hd.Dns.C16_port", "Hd.Dns.C16_preference", "Hd.Dns.C16_connecting"],
        "streams": [
            {"name": "dns", "quick": 6000, "thorough": 300000, "head": 5, "unit": 3,
             "nontrivial": dns_nontrivial, "distribution": dns_dist},
        ],
        "rule": "random address lists (len 0..12, both families, duplicate ids) x preference x port through the verif hook "
                "and through TcpTransport::connecting; non-trivial = both families present; distinct by input line",
        "assumes": ["std VecDeque::remove/push_front/pop_front semantics (modelled as list erase/cons)",
                    "order of connection attempts = order popped from SocketAddrs (TcpConnecting::connect loop) - see C11"],
    },
}
