#!/bin/sh
# Build the framework from files on disk only (offline).
set -e
cd "$(dirname "$0")"
export CARGO_NET_OFFLINE=true
[ -f harness/Cargo.lock ] || cp /repo/Cargo.lock harness/Cargo.lock
(cd lean && lake build)
(cd harness && cargo build --offline)
