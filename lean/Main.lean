import HdModel.Model.TlsInfoDriver
import HdModel.Model.Util
import HdModel.Model.DnsDriver
import HdModel.Model.SniDriver
import HdModel.Model.SniffDriver
import HdModel.Model.EyeballsDriver
import HdModel.Model.TimeoutDriver
import HdModel.Model.WireDriver
import HdModel.Model.StreamsDriver
import HdModel.Model.PoolDriver
import HdModel.Model.ServerDriver
import HdModel.Model.TlsDriver
import HdModel.Model.TlsPoolDriver
import HdModel.Model.NoPanicDriver
import HdModel.Model.E2EDriver
/-! Line-protocol driver.  One case per line:
      `<stream> <input tokens…> | <implementation observation tokens…>`
    Output, one line per case:
      `<agree 0/1> <spec 0/1> <class> | <model observation tokens…>`
    `agree` : the model's executable definition produced the same observation as the implementation;
    `spec`  : the property's decidable specification accepts the *implementation's* observation. -/
open Hd

def handle (line : String) : String :=
  let toks := words line
  let (inp, obs) := splitBar toks
  let r : Bool × Bool × String × String :=
    match inp with
    | "dns" :: rest => Dns.driverLine rest obs
    | "sni" :: rest => Sni.driverLine rest obs
    | "sniff" :: rest => Sniff.driverLine rest obs
    | "eb" :: rest => Eyeballs.driverLine rest obs
    | "tcpc" :: rest => Eyeballs.tcpcLine rest obs
    | "to" :: rest => Timeout.driverLine rest obs
    | "toc" :: rest => Timeout.tocLine rest obs
    | "tlsch" :: rest => TlsInfo.driverLine rest obs
    | "snie" :: rest => Sni.e2eLine rest obs
    | "autocmp" :: rest => Sniff.autocmpLine rest obs
    | "tlsd" :: rest => TlsPool.defaultLine rest obs
    | "wire" :: rest => Wire.driverLine rest obs
    | "st" :: rest => Streams.driverLine rest obs
    | "pool" :: rest => Pool.driverLine rest obs
    | "poolmt" :: rest => Pool.mtLine rest obs
    | "conn" :: rest => Pool.connLine rest obs
    | "cfgp" :: rest => Pool.cfgpLine rest obs
    | "srv" :: rest => Server.driverLine rest obs
    | "srvk" :: rest => Server.kernelLine rest obs
    | "tls" :: rest => Tls.driverLine rest obs
    | "tlsp" :: rest => TlsPool.driverLine rest obs
    | "np" :: rest => NoPanic.driverLine rest obs
    | "e2e" :: rest => E2E.driverLine rest obs
    | _ => (false, false, "unknown-stream", "")
  s!"{boolTok r.1} {boolTok r.2.1} {r.2.2.1} | {r.2.2.2}"

partial def loop (h : IO.FS.Stream) (out : IO.FS.Stream) : IO Unit := do
  let line ← h.getLine
  if line.isEmpty then return ()
  if line.trimAscii.toString.isEmpty then loop h out else
  out.putStrLn (handle line)
  loop h out

def main : IO Unit := do
  let out ← IO.getStdout
  loop (← IO.getStdin) out
