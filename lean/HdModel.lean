import HdModel.Model.Util
import HdModel.Model.Dns
import HdModel.Spec.Dns
import HdModel.Model.DnsDriver
