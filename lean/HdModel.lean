import HdModel.Model.Util
import HdModel.Model.Dns
import HdModel.Spec.Dns
import HdModel.Model.DnsDriver
import HdModel.Model.Sni
import HdModel.Spec.Sni
import HdModel.Model.SniDriver
