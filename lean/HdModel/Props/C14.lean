import HdModel.Lemmas.PoolFrame
import HdModel.Lemmas.PoolQueued
/-! # C14 — a waiting request takes a freed connection; its own dial is not wasted

Step-level theorems about the pool model, valid in **every** state (reachable or not), hence for
every order of first poll, release, hand-back and dial completion. -/
namespace Hd.Pool

/-- `push` hands a released connection to the first waiter whose receiver is still listening. -/
theorem pushLoop_first_live (s : State) (t : Token) (c : ConnId) (r : ReqId) (q : List ReqId)
    (hr : s.chan r = .empty) :
    ∃ p, (pushLoop s t c (r :: q)).1.chan r = .full p ∧ p.conn = c := by
  simp only [pushLoop, hr]
  split
  · -- shareable: a clone to r, then on to the others; r's channel is not touched again
    have key : ∀ (s' : State) (l : List ReqId), s'.chan r = .full ⟨c, 0, true⟩ →
        (pushLoop s' t c l).1.chan r = .full ⟨c, 0, true⟩ := by
      intro s' l
      induction l generalizing s' with
      | nil => intro h; simpa [pushLoop] using h
      | cons x xs ih =>
        intro h
        simp only [pushLoop]
        split
        · rename_i hx
          have hne : x ≠ r := by intro e; subst e; rw [h] at hx; cases hx
          split
          · apply ih; simp [upd, hne.symm, h]
          · simp [upd, hne.symm, h]
        · exact ih _ h
    exact ⟨_, key _ q (by simp), rfl⟩
  · exact ⟨⟨c, t, true⟩, by simp, rfl⟩

/-- **C14 (pre-emption, no later than the next poll).** A request whose channel holds a released
    connection – whether it is still dialing (waiter `idle`, any number of earlier polls) or waiting
    for somebody else's attempt – is served by that connection at its next poll. -/
theorem C14_preempt (s : State) (r : ReqId) (c : Checkout) (p : Pooled)
    (hc : s.co r = some c) (ha : c.alive = true) (hw : c.waiter ≠ .noPool) (hch : s.chan r = .full p) :
    (step s (.poll r)).2 = .got p.conn (p.token == 0) := by
  simp only [step, hc, ha]
  have : pollCheckout s r c = ({ s with chan := upd s.chan r .rxGone }, { c with waiter := .noPool }, .got p) := by
    unfold pollCheckout pollWaiter
    cases hwk : c.waiter with
    | noPool => exact absurd hwk hw
    | idle => simp [hch]
    | connecting => simp [hch]
  simp [this]

/-- A checkout that is not yet ready keeps listening: polling a dialing checkout whose channel is
    still empty leaves the channel open (so a later `push` can reach it). -/
theorem C14_keeps_listening (s : State) (r : ReqId) (c : Checkout)
    (hwk : c.waiter = .idle) (hch : s.chan r = .empty) :
    (pollWaiter s r c).1.chan r = .empty ∧ (pollWaiter s r c).2.1.waiter = .idle := by
  simp [pollWaiter, hwk, hch]

/-- **C14 (continue after pre-emption / cancellation).** With `continue_after_preemption` a dialing
    checkout that goes away (pre-empted or cancelled) leaves a background task that carries on with
    its connection attempt; the attempt itself is untouched. -/
theorem C14_continue (s : State) (r : ReqId) (c : Checkout)
    (hc : s.co r = some c) (ha : c.alive = true) (hi : c.inner = .delayDrop) :
    (∃ i, (i, Task.delayed r) ∈ (dropCheckout s r).tasks ∧ i ∈ (dropCheckout s r).runq) ∧
    (dropCheckout s r).dial r = (returnUnused (takeConn s r c) c).dial r := by
  unfold dropCheckout
  simp only [hc, ha, hi]
  constructor
  · refine ⟨(returnUnused (takeConn s r c) c).nextTask, ?_, ?_⟩
    · have : ∀ (s' : State), (dropRx s' r).tasks = s'.tasks ∨ ∃ x, (dropRx s' r).tasks = s'.tasks ++ [x] := by
        intro s'; unfold dropRx; split
        · unfold dropPooled; split
          · left; rfl
          · right; exact ⟨_, rfl⟩
        · left; rfl
        · left; rfl
      simp
      rcases this (spawn (returnUnused (takeConn s r c) c) (.delayed r)) with h | ⟨x, h⟩
      · rw [h]; simp [spawn]
      · rw [h]; simp [spawn]
    · have : ∀ (s' : State) (j : Nat), j ∈ s'.runq → j ∈ (dropRx s' r).runq := by
        intro s' j hj; unfold dropRx; split
        · unfold dropPooled; split
          · exact hj
          · simp [spawn, hj]
        · exact hj
        · exact hj
      simp
      exact this _ _ (by simp [spawn])
  · have : ∀ (s' : State), (dropRx s' r).dial = s'.dial := by
      intro s'; unfold dropRx; split
      · unfold dropPooled; split <;> rfl
      · rfl
      · rfl
    simp [this, spawn]

theorem dropRx_connecting (s : State) (r : ReqId) : (dropRx s r).connecting = s.connecting := by
  unfold dropRx; split
  · unfold dropPooled; split <;> rfl
  · rfl
  · rfl

theorem dropRx_closes (s : State) (r : ReqId) : (dropRx s r).chan r ≠ .empty ∧ ∀ p, (dropRx s r).chan r ≠ .full p := by
  unfold dropRx
  split
  · rename_i p hp
    unfold dropPooled
    split <;> simp [spawn]
  · simp
  · rename_i h1 h2
    exact ⟨fun h => h2 h, fun p h => h1 p h⟩

/-- **C14 (discard).** Without `continue_after_preemption` a dialing checkout that goes away does
    not continue in the background: its channel is closed, and – if it owned it – the in-progress
    marker is removed (which also releases the checkouts that were waiting on it, see C03); "owned":
    the marker in place is still the one this checkout placed (same attempt id). -/
theorem C14_discard (s : State) (r : ReqId) (c : Checkout)
    (hc : s.co r = some c) (ha : c.alive = true) (hi : c.inner = .connecting) :
    ((dropCheckout s r).chan r ≠ .empty ∧ ∀ p, (dropCheckout s r).chan r ≠ .full p) ∧
    (c.marker = true → (returnUnused (takeConn s r c) c).owner c.token = c.attempt →
      (dropCheckout s r).connecting = (returnUnused (takeConn s r c) c).connecting.erase c.token) ∧
    (dropCheckout s r).nextTask ≤ (returnUnused (takeConn s r c) c).nextTask + 1 := by
  unfold dropCheckout
  simp only [hc, ha, hi]
  refine ⟨?_, ?_, ?_⟩
  · simpa using dropRx_closes (cancelIfOwner (returnUnused (takeConn s r c) c) c) r
  · intro hmk hown
    simp only [reduceCtorEq, ↓reduceIte, Bool.not_true, Bool.false_eq_true]
    rw [dropRx_connecting]
    unfold cancelIfOwner cancelConnection
    simp only [hmk, hown, Bool.true_and, beq_self_eq_true, ↓reduceIte]
    split
    · have : ∀ (s' : State) (l : List ReqId), (dropSenders s' l).connecting = s'.connecting := by
        intro s' l
        induction l generalizing s' with
        | nil => rfl
        | cons x xs ih => simp only [dropSenders]; rw [ih]; split <;> rfl
      simp [this]
    · rename_i hnc
      have : c.token ∉ (returnUnused (takeConn s r c) c).connecting := by simpa using hnc
      exact (List.erase_of_not_mem this).symm
  · simp only [reduceCtorEq, ↓reduceIte, Bool.not_true, Bool.false_eq_true]
    have h1 : (cancelIfOwner (returnUnused (takeConn s r c) c) c).nextTask = (returnUnused (takeConn s r c) c).nextTask := by
      unfold cancelIfOwner cancelConnection
      split
      · split
        · have : ∀ (s' : State) (l : List ReqId), (dropSenders s' l).nextTask = s'.nextTask := by
            intro s' l
            induction l generalizing s' with
            | nil => rfl
            | cons x xs ih => simp only [dropSenders]; rw [ih]; split <;> rfl
          simp [this]
        · rfl
      · rfl
    unfold dropRx
    split
    · unfold dropPooled; split <;> simp [spawn, h1]
    · simp [h1]
    · simp [h1]

/-! ## Reachable-state theorems (from the invariant of `Lemmas/PoolQueued.lean`) -/

/-- **C14 (whoever is listening is queued), over all reachable states.** A checkout whose channel is
    still empty – it waits for its own dial, or for somebody else's – is in the waiter queue of its own
    origin, which is the queue `push` walks. -/
theorem C14_listener_is_queued (cfg : Config) (ops : List Op) (r : ReqId) (c : Checkout)
    (hco : (run (init cfg) ops).1.co r = some c) (hch : (run (init cfg) ops).1.chan r = .empty) :
    r ∈ (run (init cfg) ops).1.waiting c.token :=
  run_queued ops (init cfg) (queued_init cfg) r c hco hch

/-- **C14 (a released connection goes to a listener, not to the idle list), over all reachable
    states.** If any request for the origin is listening when a non-shareable connection is released for
    it, the connection is put into the channel of a queued, listening request of that origin – the
    first one in queue order, `pushLoop_first_live` – and the idle list is left as it was; that request
    then has it at its next poll, whatever its own dial is doing (`C14_preempt`). -/
theorem C14_release_serves_a_listener (cfg : Config) (ops : List Op) (r : ReqId) (c : Checkout) (cid : ConnId)
    (hco : (run (init cfg) ops).1.co r = some c) (hch : (run (init cfg) ops).1.chan r = .empty)
    (hns : canShare (run (init cfg) ops).1 cid = false) :
    (∃ x, x ∈ (run (init cfg) ops).1.waiting c.token ∧
      (push (run (init cfg) ops).1 c.token cid).chan x = .full ⟨cid, c.token, true⟩) ∧
    (push (run (init cfg) ops).1 c.token cid).idle = (run (init cfg) ops).1.idle := by
  have hq := C14_listener_is_queued cfg ops r c hco hch
  generalize (run (init cfg) ops).1 = s at hco hch hns hq ⊢
  have hcm : clearMarker s c.token cid = s := by unfold clearMarker; simp [hns]
  obtain ⟨hd, x, hx, hfull⟩ := pushLoop_delivers c.token cid (s.waiting c.token) s hns ⟨r, hq, hch⟩
  have hidle := (pushLoop_idle s c.token cid (s.waiting c.token)).1
  unfold push
  simp only [hcm]
  generalize pushLoop s c.token cid (s.waiting c.token) = pl at hd hfull hidle
  obtain ⟨s1, d⟩ := pl
  simp only [] at hd hfull hidle ⊢
  subst hd
  simp only [↓reduceIte]
  exact ⟨⟨x, hx, hfull⟩, hidle⟩

/-- Non-vacuity: two requests dialing for one origin, a third one's connection is released: the first
    listener has it, nothing is idle, and its next poll returns it. -/
example :
    let ops : List Op := [.issue 0 3 false, .poll 0, .dialDone 0 (.ok .asRequested), .poll 0,
                          .issue 1 3 false, .poll 1, .issue 2 3 false, .poll 2, .finish 0, .connReady 0, .run, .poll 1]
    let res := run (init {}) ops
    res.2.getLast? = some (.got 0 false) ∧ res.1.idle 1 = [] := by
  decide

end Hd.Pool
