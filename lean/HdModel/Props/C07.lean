import HdModel.Props.C09
/-! # C07 — graceful shutdown finishes in-flight requests and stops accepting

Theorems about `Hd.Server` for **every** state (hence every position of the signal relative to
accept, protocol detection, request head, handler execution and response) and every number of
connections. Hyper's own part of graceful shutdown is an assumption written into the per-connection
rules of the model (see `Model/Server.lean`) and validated by the correspondence run. -/
namespace Hd.Server

/-- **C07 (the future completes successfully at the signal).** The signal is checked before every
    accept, so whatever is queued, a resolved signal ends the serving future with `Ok`. -/
theorem C07_signal_completes (s : St) (hg : s.cfg.graceful = true) (hp : s.srv = .pending)
    (hn : s.signalled = false) : (step s .signal).srv = .ok ∧ (step s .signal).made = s.made := by
  simp [step, stepBasic, hn, hg, hp, endServer]

/-- **C07 (stays completed).** Once ended, no operation revives the serving future. -/
theorem C07_ended_stays_basic (s : St) (op : Op) (h : s.srv ≠ .pending) : (stepBasic s op).srv = s.srv := by
  cases op with
  | conn i => simp only [stepBasic]; split; rfl; split; rfl; (simp at *; simp_all)
  | connx i => rfl
  | send i k => simp only [stepBasic]; split <;> rfl
  | gate i => rfl
  | close i => rfl
  | signal =>
    simp only [stepBasic]; split
    · rfl
    · split
      · rename_i hg; simp only [Bool.and_eq_true, beq_iff_eq] at hg; exact absurd hg.2 h
      · rfl
  | dropListener =>
    simp only [stepBasic]; split
    · rename_i hp; simp at hp; exact absurd hp h
    · rfl
  | sigConn i => rfl
  | sigDrop => rfl

theorem C07_ended_stays (s : St) (op : Op) (h : s.srv ≠ .pending) : (step s op).srv = s.srv := by
  have two : ∀ op2, (stepBasic (stepBasic s .signal) op2).srv = s.srv := by
    intro op2
    have h1 := C07_ended_stays_basic s .signal h
    rw [C07_ended_stays_basic _ op2 (by rw [h1]; exact h), h1]
  cases op <;> first
    | exact C07_ended_stays_basic s _ h
    | exact two _

theorem conn_made_ended (s : St) (i : Nat) (h : s.srv ≠ .pending) : (stepBasic s (.conn i)).made = s.made := by
  have h' : (s.srv != .pending) = true := by simpa using h
  simp only [stepBasic]
  split
  · rfl
  · simp [h', modClient]

/-- **C07 (the signal is seen before anything else that became ready).** If a connect request (or
    the loss of the listener) becomes ready together with the signal, the future still completes
    with `Ok`, and the queued connection is not accepted. -/
theorem C07_signal_first (s : St) (i : Nat) (hg : s.cfg.graceful = true) (hp : s.srv = .pending)
    (hn : s.signalled = false) :
    (step s (.sigConn i)).srv = .ok ∧ (step s (.sigConn i)).made = s.made ∧ (step s .sigDrop).srv = .ok := by
  have h1 : (stepBasic s .signal).srv = .ok := by simp [stepBasic, hn, hg, hp, endServer]
  have h1m : (stepBasic s .signal).made = s.made := by simp [stepBasic, hn, hg, hp, endServer]
  have hne : (stepBasic s .signal).srv ≠ .pending := by rw [h1]; decide
  refine ⟨?_, ?_, ?_⟩
  · show (stepBasic (stepBasic s .signal) (.conn i)).srv = .ok
    rw [C07_ended_stays_basic _ _ hne, h1]
  · show (stepBasic (stepBasic s .signal) (.conn i)).made = s.made
    rw [conn_made_ended _ _ hne, h1m]
  · show (stepBasic (stepBasic s .signal) .dropListener).srv = .ok
    rw [C07_ended_stays_basic _ _ hne, h1]

/-- **C07 (no further connections).** After the future has ended a connecting client is refused:
    nothing is accepted, no service is made, no handler will ever run for it. -/
theorem C07_no_accept_after (s : St) (i : Nat) (h : s.srv ≠ .pending) (hc : (getClient s i).st = .none)
    (hi : i < s.clients.length) :
    (getClient (step s (.conn i)) i).st = .refused ∧ (step s (.conn i)).made = s.made ∧
    (getClient (step s (.conn i)) i).hc = (getClient s i).hc := by
  have h' : (s.srv != .pending) = true := by simpa using h
  show (getClient (stepBasic s (.conn i)) i).st = .refused ∧ (stepBasic s (.conn i)).made = s.made ∧
    (getClient (stepBasic s (.conn i)) i).hc = (getClient s i).hc
  simp only [stepBasic, hc, h', bne_self_eq_false, Bool.false_eq_true, ↓reduceIte, Bool.true_or]
  rw [getClient_modClient]
  simp [hi, modClient]

/-- **C07 (every open connection is told, exactly once).** At the signal every live connection has
    `graceful_shutdown` called on it: afterwards each is either closed or marked, and a marked one
    is not told again (the close future is fused). -/
theorem C07_all_told (c : Client) (h : c.srvOpen = true) :
    (gracefulConn c).srvOpen = false ∨ (gracefulConn c).graceful = true := by
  unfold gracefulConn
  simp only [h, Bool.not_true, Bool.false_eq_true, ↓reduceIte]
  split
  · right; rfl
  · split
    · left; simp [closeServerSide]
    · split
      · right; rfl
      · left; simp [closeServerSide]

/-- **C07 (idle keep-alive connections are closed; connections still sniffing are closed).** -/
theorem C07_idle_closed (c : Client) (ho : c.srvOpen = true) (h2 : c.h2 = false)
    (hidle : c.sniffing = true ∨ (c.inHandler = false ∧ (c.halfHead = false ∨ c.hc ≠ 0))) (hst : c.st = .opened) :
    (gracefulConn c).eof = true ∧ (gracefulConn c).srvOpen = false ∧ (gracefulConn c).hc = c.hc := by
  unfold gracefulConn
  simp only [ho, h2, Bool.not_true, Bool.false_eq_true, ↓reduceIte]
  rcases hidle with hs | ⟨h1, h3⟩
  · simp [hs, closeServerSide, hst]
  · have hne : ¬ (c.halfHead = true ∧ c.hc = 0) := by
      rintro ⟨a, b⟩
      rcases h3 with h3 | h3
      · rw [a] at h3; cases h3
      · exact h3 b
    cases hs : c.sniffing <;> simp [h1, hne, closeServerSide, hst]

/-- **C07 (an in-flight exchange is finished, then the connection closes).** A request the server has
    started to handle – a running handler, or the connection's first request of which only part of
    the head had arrived when the signal came – is not cut:
    the connection stays, and when the handler is released the client receives the complete
    response, after which the connection is closed. -/
theorem C07_inflight_kept (c : Client) (ho : c.srvOpen = true) (h2 : c.h2 = false) (hs : c.sniffing = false)
    (hb : c.inHandler = true ∨ (c.halfHead = true ∧ c.hc = 0)) :
    gracefulConn c = { c with graceful := true } := by
  unfold gracefulConn
  rcases hb with h | ⟨h, h0⟩ <;> simp [ho, h2, hs, h, *]

theorem C07_inflight_completes (s : St) (i : Nat) (hi : i < s.clients.length)
    (hh : (getClient s i).inHandler = true) (hg : (getClient s i).graceful = true)
    (hst : (getClient s i).st = .opened) :
    (getClient (step s (.gate i)) i).resp = (getClient s i).resp + 1 ∧
    (getClient (step s (.gate i)) i).eof = true ∧ (getClient (step s (.gate i)) i).srvOpen = false := by
  show (getClient (stepBasic s (.gate i)) i).resp = _ ∧ (getClient (stepBasic s (.gate i)) i).eof = true ∧
    (getClient (stepBasic s (.gate i)) i).srvOpen = false
  simp only [stepBasic]
  rw [getClient_modClient]
  simp [hi, hh, hg, hst, closeServerSide]

/-- A request whose head was only partly received at the signal is still handled when the rest arrives. -/
theorem C07_partial_head_served (s : St) (i : Nat) (hi : i < s.clients.length)
    (c : Client) (hc : getClient s i = c) (hst : c.st = .opened) (ho : c.srvOpen = true) (h2 : c.h2 = false)
    (hp : c.halfHead = true) (hs : c.sniffing = false) (hperm : c.permits = 0) :
    (getClient (step s (.send i .rest)) i).hc = c.hc + 1 ∧ (getClient (step s (.send i .rest)) i).inHandler = true := by
  show (getClient (stepBasic s (.send i .rest)) i).hc = c.hc + 1 ∧ (getClient (stepBasic s (.send i .rest)) i).inHandler = true
  simp only [stepBasic, hc, hst, ho, bne_self_eq_false, Bool.not_true, Bool.or_self, Bool.false_eq_true, ↓reduceIte]
  rw [getClient_modClient]
  simp [hi, hc, h2, hp, hs, startHandler, hperm]

/-! ## For every continuation -/

theorem foldl_ended (ops : List Op) (s : St) (h : s.srv ≠ .pending) : (ops.foldl step s).srv = s.srv := by
  induction ops generalizing s with
  | nil => rfl
  | cons op ops ih =>
    simp only [List.foldl_cons]
    have h1 := C07_ended_stays s op h
    rw [ih (step s op) (by rw [h1]; exact h), h1]

/-- **C07 (completed for good).** From the shutdown signal on, whatever happens afterwards – connects,
    bytes, handler completions, disconnects, loss of the listener, in any order and number – the
    serving future has completed successfully and stays so. -/
theorem C07_completed_for_good (s : St) (ops : List Op) (hg : s.cfg.graceful = true) (hp : s.srv = .pending)
    (hn : s.signalled = false) : (ops.foldl step (step s .signal)).srv = .ok := by
  have h1 := C07_signal_completes s hg hp hn
  rw [foldl_ended ops _ (by rw [h1.1]; decide), h1.1]

/-- a client the server never accepted: nothing of it was ever handled -/
def Unserved (c : Client) : Prop :=
  c.st ≠ .opened ∧ c.hc = 0 ∧ c.resp = 0 ∧ c.inHandler = false ∧ c.srvOpen = false ∧ c.queued = 0

theorem gracefulConn_unserved (c : Client) (h : Unserved c) : gracefulConn c = c := by
  unfold gracefulConn; simp [h.2.2.2.2.1]

theorem unserved_stepBasic (s : St) (op : Op) (i : Nat) (hs : s.srv ≠ .pending) (h : Unserved (getClient s i)) :
    Unserved (getClient (stepBasic s op) i) := by
  have hs' : (s.srv != .pending) = true := by simpa using hs
  obtain ⟨h1, h2, h3, h4, h5, h6⟩ := h
  cases op with
  | conn j =>
    simp only [stepBasic]
    split
    · exact ⟨h1, h2, h3, h4, h5, h6⟩
    · simp only [hs', Bool.true_or, if_true]
      rw [getClient_modClient]
      split
      · exact ⟨by simp, h2, h3, h4, h5, h6⟩
      · exact ⟨h1, h2, h3, h4, h5, h6⟩
  | connx j => exact ⟨h1, h2, h3, h4, h5, h6⟩
  | send j k =>
    simp only [stepBasic]
    split
    · exact ⟨h1, h2, h3, h4, h5, h6⟩
    · rename_i hcond
      rw [getClient_modClient]
      split
      · rename_i hij
        obtain ⟨rfl, _⟩ := hij
        simp only [Bool.or_eq_true, bne_iff_ne, ne_eq, Bool.not_eq_true', not_or, Decidable.not_not, Bool.not_eq_false] at hcond
        exact absurd hcond.1 h1
      · exact ⟨h1, h2, h3, h4, h5, h6⟩
  | gate j =>
    simp only [stepBasic]
    rw [getClient_modClient]
    split
    · simp only [h4, Bool.false_eq_true, if_false]
      exact ⟨h1, h2, h3, by first | rfl | exact h4, h5, h6⟩
    · exact ⟨h1, h2, h3, h4, h5, h6⟩
  | close j =>
    simp only [stepBasic]
    rw [getClient_modClient]
    split
    · split
      · rename_i ho; exact absurd (by simpa using ho) h1
      · exact ⟨h1, h2, h3, h4, h5, h6⟩
    · exact ⟨h1, h2, h3, h4, h5, h6⟩
  | signal =>
    simp only [stepBasic]
    split
    · exact ⟨h1, h2, h3, h4, h5, h6⟩
    · have hq : (s.srv == Srv.pending) = false := by simpa using hs
      simp only [hq, Bool.and_false, Bool.false_eq_true, if_false]
      exact ⟨h1, h2, h3, h4, h5, h6⟩
  | dropListener =>
    simp only [stepBasic]
    split
    · rename_i hc; exact absurd (by simpa using hc) hs
    · exact ⟨h1, h2, h3, h4, h5, h6⟩
  | sigConn j => exact ⟨h1, h2, h3, h4, h5, h6⟩
  | sigDrop => exact ⟨h1, h2, h3, h4, h5, h6⟩

theorem unserved_step (s : St) (op : Op) (i : Nat) (hs : s.srv ≠ .pending) (h : Unserved (getClient s i)) :
    Unserved (getClient (step s op) i) := by
  cases op with
  | sigConn j =>
    show Unserved (getClient (stepBasic (stepBasic s .signal) (.conn j)) i)
    exact unserved_stepBasic _ _ i (by rw [C07_ended_stays_basic s .signal hs]; exact hs) (unserved_stepBasic s .signal i hs h)
  | sigDrop =>
    show Unserved (getClient (stepBasic (stepBasic s .signal) .dropListener) i)
    exact unserved_stepBasic _ _ i (by rw [C07_ended_stays_basic s .signal hs]; exact hs) (unserved_stepBasic s .signal i hs h)
  | conn j => exact unserved_stepBasic s _ i hs h
  | connx j => exact unserved_stepBasic s _ i hs h
  | send j k => exact unserved_stepBasic s _ i hs h
  | gate j => exact unserved_stepBasic s _ i hs h
  | close j => exact unserved_stepBasic s _ i hs h
  | signal => exact unserved_stepBasic s _ i hs h
  | dropListener => exact unserved_stepBasic s _ i hs h

/-- **C07 (nothing new is served).** A client that had not been accepted when the serving future ended
    is never served, whatever it and everybody else do afterwards: no handler call, no response. -/
theorem C07_never_served_after (s : St) (ops : List Op) (i : Nat) (hs : s.srv ≠ .pending)
    (h : Unserved (getClient s i)) :
    (getClient (ops.foldl step s) i).hc = 0 ∧ (getClient (ops.foldl step s) i).resp = 0 ∧
      (getClient (ops.foldl step s) i).st ≠ .opened := by
  have key : ∀ (ops : List Op) (s : St), s.srv ≠ .pending → Unserved (getClient s i) → Unserved (getClient (ops.foldl step s) i) := by
    intro ops
    induction ops with
    | nil => intro s _ h; exact h
    | cons op ops ih =>
      intro s hs h
      simp only [List.foldl_cons]
      exact ih _ (by rw [C07_ended_stays s op hs]; exact hs) (unserved_step s op i hs h)
  obtain ⟨a, b, c, _⟩ := key ops s hs h
  exact ⟨b, c, a⟩

end Hd.Server
