import HdModel.Spec.Sni
import HdModel.Props.TlsInfoSem
import HdModel.Model.TlsInfo
/-! # C20 — SNI validation forwards a request only if its host is the TLS server name

Theorems about `Hd.Sni.handle` (mirror of `sni::handle`) for **every** request: every combination
of version, Host header, authority, TLS info and server name, over arbitrary host strings. -/
namespace Hd.Sni

/-- **C20 (decision).** For every request the outcome satisfies the specification: a request that
    arrived over TLS and names a host is forwarded iff a server name was sent and equals that host
    (case-insensitively, port ignored), and a forwarded one is marked validated. -/
theorem C20_decision (r : Req) : spec r (handle r) = true := by
  unfold spec verdict handle namedHost specNamed sameName hostEq
  cases r.tls with
  | none => simp
  | some sni =>
    cases sni with
    | none => cases (if r.h2 then (r.authority <|> r.hostHdr) else r.hostHdr) <;> simp
    | some s =>
      cases (if r.h2 then (r.authority <|> r.hostHdr) else r.hostHdr) with
      | none => simp
      | some h => by_cases e : h.host.toLower = s.host.toLower <;> simp [e]

/-- **C20 (only if).** A forwarded TLS request that names a host has that host equal to the server name. -/
theorem C20_forward_only_if (r : Req) (sni : Option HostVal) (h : HostVal) (v : Bool)
    (ht : r.tls = some sni) (hn : specNamed r = some h) (hf : handle r = .forward v) :
    ∃ s, sni = some s ∧ sameName h s = true ∧ v = true := by
  unfold handle namedHost at hf
  unfold specNamed at hn
  rw [ht, hn] at hf
  cases sni with
  | none => simp at hf
  | some s =>
    refine ⟨s, rfl, ?_⟩
    unfold sameName; unfold hostEq at hf
    by_cases e : h.host.toLower = s.host.toLower
    · simp [e] at hf ⊢; exact hf
    · simp [e] at hf

/-- **C20 (never rejects a match).** A request whose host equals the server name is never rejected. -/
theorem C20_match_forwarded (r : Req) (s h : HostVal)
    (ht : r.tls = some (some s)) (hn : specNamed r = some h) (hs : sameName h s = true) :
    handle r = .forward true := by
  unfold handle namedHost
  unfold specNamed at hn
  unfold sameName at hs
  rw [ht, hn]
  simp [hostEq] at hs ⊢
  exact hs

/-- **C20 (rejections).** Names differ ⇒ `InvalidSNI`; no server name ⇒ `MissingSNI`. -/
theorem C20_rejects (r : Req) (h : HostVal) (hn : specNamed r = some h) :
    (r.tls = some none → handle r = .rejectMissing) ∧
    (∀ s, r.tls = some (some s) → sameName h s = false → handle r = .rejectInvalid) := by
  unfold specNamed at hn
  constructor
  · intro ht; unfold handle; rw [ht]
  · intro s ht hs
    unfold handle namedHost; rw [ht, hn]
    unfold sameName at hs
    simp [hostEq] at hs ⊢
    exact hs

/-- The port never influences the decision. -/
theorem C20_port_irrelevant (r : Req) (p q : Option Nat) (h : HostVal) :
    handle { r with hostHdr := some { h with port := p } } =
    handle { r with hostHdr := some { h with port := q } } := by
  unfold handle namedHost
  cases r.tls with
  | none => rfl
  | some sni =>
    cases sni with
    | none => rfl
    | some s => cases r.h2 <;> cases r.authority <;> simp

/-- Non-vacuity: an HTTP/2 request without authority meets the hypotheses of
    `C20_match_forwarded` (string case-folding does not reduce in the kernel, hence `simp`). -/
example :
    let r : Req := { h2 := true, hostHdr := some ⟨"example.com", some 8443⟩, authority := none,
                     tls := some (some ⟨"example.com", none⟩) }
    r.tls = some (some ⟨"example.com", none⟩) ∧ specNamed r = some ⟨"example.com", some 8443⟩ ∧
      sameName ⟨"example.com", some 8443⟩ ⟨"example.com", none⟩ = true := by
  simp [specNamed, sameName]


/-- **C20 (letter case never influences the decision).** Two Host values that differ only in ASCII case are treated
    alike, whatever the rest of the request; likewise two server names. -/
theorem C20_case_irrelevant_host (r : Req) (h h' : HostVal) (e : h.host.toLower = h'.host.toLower) :
    handle { r with hostHdr := some h } = handle { r with hostHdr := some h' } := by
  unfold handle namedHost hostEq
  cases r.tls with
  | none => rfl
  | some sni =>
    cases sni with
    | none => rfl
    | some s => cases r.h2 <;> cases r.authority <;> simp [e]

theorem C20_case_irrelevant_sni (r : Req) (s s' : HostVal) (e : s.host.toLower = s'.host.toLower) :
    handle { r with tls := some (some s) } = handle { r with tls := some (some s') } := by
  unfold handle namedHost hostEq
  simp only [e]

end Hd.Sni


/-! ## The TLS information reaches every request of the connection

`ValidateSNI` decides on the `TlsConnectionInfo` it finds in the request; a request without one is taken for a
request on a connection without TLS and forwarded unchecked. The information travels from the acceptor to the
requests through the channel modelled in `Model/TlsInfo.lean`: for **every** interleaving of requests asking
(`new`/`poll`), requests being cancelled (`drop`) and the acceptor's `send`, no request on a TLS connection is
ever told "no TLS". -/
namespace Hd.TlsInfo

@[simp] theorem setPhase_ch (s : St) (i : Nat) (p : Phase) : (setPhase s i p).ch = s.ch := rfl

@[simp] theorem release_ch : ∀ (fuel : Nat) (s : St), (release fuel s).ch = s.ch
  | 0, _ => rfl
  | fuel + 1, s => by
    unfold release
    split
    · rfl
    · split
      · rfl
      · split
        · rw [release_ch fuel]; rfl
        · rfl

@[simp] theorem giveBack_ch (s : St) (n : Nat) : (giveBack s n).ch = s.ch := by
  unfold giveBack; rw [release_ch]

@[simp] theorem acquire_ch (s : St) (i w : Nat) : (acquire s i w).2.ch = s.ch := by
  unfold acquire; split <;> rfl

/-- a channel made by `channel()` never turns into the "no TLS" state … -/
def NotEmpty (s : St) : Prop := s.ch ≠ .empty

theorem writePhase_spec (s : St) (i : Nat) (h : NotEmpty s) :
    (writePhase s i).1 ≠ .none ∧ NotEmpty (writePhase s i).2 := by
  unfold writePhase NotEmpty at *
  cases hc : s.ch with
  | pending sent => cases sent <;> simp [hc]
  | received => simp [hc]
  | empty => exact absurd hc h

theorem readPhase_spec (s : St) (i : Nat) (h : NotEmpty s) :
    (readPhase s i).1 ≠ .none ∧ NotEmpty (readPhase s i).2 := by
  unfold readPhase
  cases hc : s.ch with
  | received => simp [NotEmpty, hc]
  | empty => exact absurd hc h
  | pending sent =>
    simp only []
    have h1 : NotEmpty (acquire (giveBack s 1) i maxP).2 := by simp [NotEmpty, hc]
    split
    · exact writePhase_spec _ i h1
    · exact ⟨by simp, by simpa [NotEmpty] using h1⟩

theorem step_spec (s : St) (op : Op) (h : NotEmpty s) : (step s op).1 ≠ .none ∧ NotEmpty (step s op).2 := by
  cases op with
  | new i => exact ⟨by simp [step], h⟩
  | send =>
    refine ⟨by simp [step], ?_⟩
    unfold step NotEmpty at *
    simp only []
    split <;> simp_all
  | poll i =>
    simp only [step]
    cases hp : s.phase i with
    | fresh =>
      simp only []
      have h1 : NotEmpty (acquire s i 1).2 := by simpa [NotEmpty] using h
      generalize acquire s i 1 = a at h1
      obtain ⟨ok, s1⟩ := a
      simp only [] at h1 ⊢
      split
      · exact readPhase_spec _ i h1
      · exact ⟨by simp, by simpa [NotEmpty] using h1⟩
    | waitRead => exact ⟨by simp, h⟩
    | waitWrite => exact ⟨by simp, h⟩
    | grantedRead => exact readPhase_spec s i h
    | grantedWrite => exact writePhase_spec s i h
    | holding => exact writePhase_spec s i h
    | done => exact ⟨by simp, h⟩
  | drop i =>
    simp only [step]
    cases hp : s.phase i <;> exact ⟨by simp, by simpa [NotEmpty] using h⟩

/-- **C20 (every request of a TLS connection is validated).** Whatever the order in which requests ask for the
    connection's TLS information, are polled, are cancelled, and the acceptor sends it: no request is ever answered
    "this connection has no TLS" - so none reaches `ValidateSNI` looking like a plain-text request. -/
theorem C20_tls_request_never_told_plain (ops : List Op) : Res.none ∉ (run initTls ops).1 := by
  have key : ∀ (ops : List Op) (s : St), NotEmpty s → Res.none ∉ (run s ops).1 := by
    intro ops
    induction ops with
    | nil => intro s _; simp [run]
    | cons op ops ih =>
      intro s h
      have hs := step_spec s op h
      simp only [run, List.mem_cons, not_or]
      exact ⟨fun e => hs.1 e.symm, ih _ hs.2⟩
  exact key ops initTls (by simp [NotEmpty, initTls])

/-- Once the acceptor has sent the information, the request that holds the lock gets it at its next poll. -/
theorem C20_holder_gets_info (s : St) (i : Nat) (hp : s.phase i = .holding) (hc : s.ch = .pending true) :
    (step s (.poll i)).1 = .info := by
  simp [step, hp, writePhase, hc]

/-- … and whoever asks after it has been received gets it at once, if the lock is free. -/
theorem C20_late_request_gets_info (s : St) (i : Nat) (hp : s.phase i = .fresh) (hc : s.ch = .received) (hf : 1 ≤ s.free) :
    (step s (.poll i)).1 = .info := by
  simp [step, hp, acquire, hf, readPhase, hc]

/-- non-vacuity: two requests ask before the handshake is over, one is cancelled while it holds the lock, the
    information arrives, everybody else learns it -/
example : (run initTls [.new 0, .poll 0, .new 1, .poll 1, .drop 0, .send, .poll 1, .new 2, .poll 2]).1 =
    [.finished, .pending, .finished, .pending, .finished, .finished, .info, .finished, .info] := by decide

end Hd.TlsInfo

/-! ## The information is never invented

Two safety statements about the `TlsInfo` channel model that complement `C20_tls_request_never_told_plain`:
    the information a request is given is never invented. On a connection without TLS no request is ever given
    TLS information, and on a TLS connection no request is given it before the acceptor has sent it (i.e. before
    the handshake is over) - for every interleaving of asking, polling and cancelling. -/
namespace Hd.TlsInfo

/-- channel states in which there is nothing to hand out: "no TLS", and "handshake not finished" -/
def Quiet (c : Ch) : Prop := c = .empty ∨ c = .pending false

theorem writePhase_quiet (s : St) (i : Nat) (h : Quiet s.ch) :
    (writePhase s i).1 ≠ .info ∧ (writePhase s i).2.ch = s.ch := by
  unfold writePhase
  rcases h with hc | hc <;> simp [hc]

theorem readPhase_quiet (s : St) (i : Nat) (h : Quiet s.ch) :
    (readPhase s i).1 ≠ .info ∧ (readPhase s i).2.ch = s.ch := by
  unfold readPhase
  rcases h with hc | hc
  · simp [hc]
  · simp only [hc]
    have hq : Quiet (acquire (giveBack s 1) i maxP).2.ch := by simp [Quiet, hc]
    have he : (acquire (giveBack s 1) i maxP).2.ch = .pending false := by simp [hc]
    split
    · have := writePhase_quiet (acquire (giveBack s 1) i maxP).2 i hq
      exact ⟨this.1, this.2.trans he⟩
    · exact ⟨by simp, by simpa using he⟩

/-- one step that is not the acceptor's `send` hands out nothing and leaves a quiet channel as it is -/
theorem step_quiet (s : St) (op : Op) (h : Quiet s.ch) (hop : op = .send → s.ch = .empty) :
    (step s op).1 ≠ .info ∧ (step s op).2.ch = s.ch := by
  cases op with
  | new i => exact ⟨by simp [step], rfl⟩
  | send =>
    have hc := hop rfl
    simp [step, hc]
  | poll i =>
    simp only [step]
    cases hp : s.phase i with
    | fresh =>
      simp only []
      have he : (acquire s i 1).2.ch = s.ch := acquire_ch s i 1
      generalize acquire s i 1 = a at he
      obtain ⟨ok, s1⟩ := a
      simp only [] at he ⊢
      split
      · have := readPhase_quiet s1 i (he ▸ h)
        exact ⟨this.1, this.2.trans he⟩
      · exact ⟨by simp, by simpa using he⟩
    | waitRead => exact ⟨by simp, rfl⟩
    | waitWrite => exact ⟨by simp, rfl⟩
    | grantedRead => exact readPhase_quiet s i h
    | grantedWrite => exact writePhase_quiet s i h
    | holding => exact writePhase_quiet s i h
    | done => exact ⟨by simp, rfl⟩
  | drop i =>
    simp only [step]
    cases hp : s.phase i <;> exact ⟨by simp, by simp⟩

/-- **A connection without TLS never yields TLS information.** Whatever requests do and even if somebody `send`s:
    no request on a channel made by `TlsConnectionInfoReciever::empty()` is ever given connection information. -/
theorem C20_plain_request_never_told_info (ops : List Op) : Res.info ∉ (run initPlain ops).1 := by
  have key : ∀ (ops : List Op) (s : St), s.ch = .empty → Res.info ∉ (run s ops).1 := by
    intro ops
    induction ops with
    | nil => intro s _; simp [run]
    | cons op ops ih =>
      intro s h
      have hs := step_quiet s op (Or.inl h) (fun _ => h)
      simp only [run, List.mem_cons, not_or]
      exact ⟨fun e => hs.1 e.symm, ih _ (hs.2.trans h)⟩
  exact key ops initPlain rfl

/-- **No information before the handshake is over.** As long as the acceptor has not sent, no request of a TLS
    connection is given connection information - every one of them is still waiting (or was cancelled). -/
theorem C20_no_info_before_send (ops : List Op) (hns : Op.send ∉ ops) : Res.info ∉ (run initTls ops).1 := by
  have key : ∀ (ops : List Op) (s : St), s.ch = .pending false → Op.send ∉ ops → Res.info ∉ (run s ops).1 := by
    intro ops
    induction ops with
    | nil => intro s _ _; simp [run]
    | cons op ops ih =>
      intro s h hn
      simp only [List.mem_cons, not_or] at hn
      have hs := step_quiet s op (Or.inr h) (fun e => absurd e.symm hn.1)
      simp only [run, List.mem_cons, not_or]
      exact ⟨fun e => hs.1 e.symm, ih _ (hs.2.trans h) hn.2⟩
  exact key ops initTls rfl hns

/-- non-vacuity: with a `send` the information does arrive (so the hypothesis of `C20_no_info_before_send` matters),
    and a plain connection answers "no TLS" -/
example : Res.info ∈ (run initTls [.new 0, .poll 0, .send, .poll 0]).1 := by decide
example : (run initPlain [.new 0, .poll 0, .send, .new 1, .poll 1]).1 = [.finished, .none, .finished, .finished, .none] := by
  decide

end Hd.TlsInfo
