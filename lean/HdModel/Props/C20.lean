import HdModel.Spec.Sni
/-! # C20 — SNI validation forwards a request only if its host is the TLS server name

Theorems about `Hd.Sni.handle` (mirror of `sni::handle`) for **every** request: every combination
of version, Host header, authority, TLS info and server name, over arbitrary host strings. -/
namespace Hd.Sni

/-- **C20 (decision).** For every request the outcome satisfies the specification: a request that
    arrived over TLS and names a host is forwarded iff a server name was sent and equals that host
    (case-insensitively, port ignored), and a forwarded one is marked validated. -/
theorem C20_decision (r : Req) : spec r (handle r) = true := by
  unfold spec verdict handle namedHost specNamed sameName hostEq
  cases r.tls with
  | none => simp
  | some sni =>
    cases sni with
    | none => cases (if r.h2 then (r.authority <|> r.hostHdr) else r.hostHdr) <;> simp
    | some s =>
      cases (if r.h2 then (r.authority <|> r.hostHdr) else r.hostHdr) with
      | none => simp
      | some h => by_cases e : h.host.toLower = s.host.toLower <;> simp [e]

/-- **C20 (only if).** A forwarded TLS request that names a host has that host equal to the server name. -/
theorem C20_forward_only_if (r : Req) (sni : Option HostVal) (h : HostVal) (v : Bool)
    (ht : r.tls = some sni) (hn : specNamed r = some h) (hf : handle r = .forward v) :
    ∃ s, sni = some s ∧ sameName h s = true ∧ v = true := by
  unfold handle namedHost at hf
  unfold specNamed at hn
  rw [ht, hn] at hf
  cases sni with
  | none => simp at hf
  | some s =>
    refine ⟨s, rfl, ?_⟩
    unfold sameName; unfold hostEq at hf
    by_cases e : h.host.toLower = s.host.toLower
    · simp [e] at hf ⊢; exact hf
    · simp [e] at hf

/-- **C20 (never rejects a match).** A request whose host equals the server name is never rejected. -/
theorem C20_match_forwarded (r : Req) (s h : HostVal)
    (ht : r.tls = some (some s)) (hn : specNamed r = some h) (hs : sameName h s = true) :
    handle r = .forward true := by
  unfold handle namedHost
  unfold specNamed at hn
  unfold sameName at hs
  rw [ht, hn]
  simp [hostEq] at hs ⊢
  exact hs

/-- **C20 (rejections).** Names differ ⇒ `InvalidSNI`; no server name ⇒ `MissingSNI`. -/
theorem C20_rejects (r : Req) (h : HostVal) (hn : specNamed r = some h) :
    (r.tls = some none → handle r = .rejectMissing) ∧
    (∀ s, r.tls = some (some s) → sameName h s = false → handle r = .rejectInvalid) := by
  unfold specNamed at hn
  constructor
  · intro ht; unfold handle; rw [ht]
  · intro s ht hs
    unfold handle namedHost; rw [ht, hn]
    unfold sameName at hs
    simp [hostEq] at hs ⊢
    exact hs

/-- The port never influences the decision. -/
theorem C20_port_irrelevant (r : Req) (p q : Option Nat) (h : HostVal) :
    handle { r with hostHdr := some { h with port := p } } =
    handle { r with hostHdr := some { h with port := q } } := by
  unfold handle namedHost
  cases r.tls with
  | none => rfl
  | some sni =>
    cases sni with
    | none => rfl
    | some s => cases r.h2 <;> cases r.authority <;> simp

/-- Non-vacuity: an HTTP/2 request without authority meets the hypotheses of
    `C20_match_forwarded` (string case-folding does not reduce in the kernel, hence `simp`). -/
example :
    let r : Req := { h2 := true, hostHdr := some ⟨"example.com", some 8443⟩, authority := none,
                     tls := some (some ⟨"example.com", none⟩) }
    r.tls = some (some ⟨"example.com", none⟩) ∧ specNamed r = some ⟨"example.com", some 8443⟩ ∧
      sameName ⟨"example.com", some 8443⟩ ⟨"example.com", none⟩ = true := by
  simp [specNamed, sameName]

end Hd.Sni
