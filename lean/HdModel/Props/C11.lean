import HdModel.Lemmas.Eyeballs
/-! # C11 — happy-eyeballs attempts are paced, ordered, bounded and meet the deadline

Theorems about `Hd.Eyeballs.run` (mirror of `EyeballSet::finish`) for **every** list of scripted
attempts (any number, any latencies/outcomes incl. never-completing) and **every** configuration. -/
namespace Hd.Eyeballs

theorem prefix_range {l : List Nat} {n : Nat} (h : l <+: List.range n) : l = List.range l.length := by
  have hl := h.length_le
  simp at hl
  have := List.prefix_iff_eq_take.mp h
  rw [this, List.take_range]
  simp [Nat.min_eq_left hl]

theorem trim_prefix (atts : List Attempt) (r : Result) (l : List (Nat × Nat)) :
    trimStarts atts r l <+: l := by
  unfold trimStarts
  split
  · split
    · rename_i j _ _
      have h2 : (l.dropWhile (fun st => st.1 != j)).take 1 <+: l.dropWhile (fun st => st.1 != j) :=
        List.take_prefix _ _
      have h3 := (List.prefix_append_right_inj (l.takeWhile (fun st => st.1 != j))).mpr h2
      rw [List.takeWhile_append_dropWhile] at h3
      exact h3
    · exact List.prefix_refl _
  · exact List.prefix_refl _

theorem run_inv1 (c : Cfg) (atts : List Attempt) :
    Inv1 c atts.length (loop c atts (2 * atts.length + 2) (startN atts (c.conc.getD atts.length) (init atts.length))).2 ∧
    ResOK c (run c atts).1 (loop c atts (2 * atts.length + 2) (startN atts (c.conc.getD atts.length) (init atts.length))).2 :=
  loop_inv1 c atts atts.length _ _ (inv1_startN _ (inv1_init c atts.length))

/-- **C11 (order, once).** The attempts that are started are, in order, the first `k` candidates:
    the given order, each candidate at most once. -/
theorem C11_order_once (c : Cfg) (atts : List Attempt) :
    (run c atts).2.starts.map (·.1) = List.range (run c atts).2.starts.length := by
  have h := (run_inv1 c atts).1.order
  have hp : (run c atts).2.starts <+: _ := trim_prefix atts (run c atts).1 _
  have hp2 := List.IsPrefix.map (·.1) hp
  have : (run c atts).2.starts.map (·.1) <+: List.range atts.length := by
    refine hp2.trans ?_
    rw [← h]; exact List.prefix_append _ _
  simpa using prefix_range this

/-- **C11 (deadline).** Whatever the attempts do, the operation completes no later than the
    configured overall deadline. -/
theorem C11_deadline (c : Cfg) (atts : List Attempt) (t d : Nat)
    (ht : resTime (run c atts).1 = some t) (hd : c.timeout = some d) : t ≤ d :=
  (run_inv1 c atts).2.1 t d ht hd

/-- **C11 (no start after the end, time never goes backwards).** -/
theorem C11_starts_before_finish (c : Cfg) (atts : List Attempt) (t : Nat)
    (ht : resTime (run c atts).1 = some t) : ∀ st ∈ (run c atts).2.starts, st.2 ≤ t := by
  intro st hst
  have hp : (run c atts).2.starts <+: _ := trim_prefix atts (run c atts).1 _
  exact (run_inv1 c atts).2.2 t ht st (hp.subset hst)

/-- Non-vacuity: a run that has a finish time and a deadline (scenario A of DESIGN.md). -/
example : (run ⟨some 10, some 100, some 1⟩ [⟨some 30, .err⟩, ⟨some 5, .ok⟩]).1 = .ok 1 15 := by decide

end Hd.Eyeballs
