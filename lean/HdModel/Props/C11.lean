import HdModel.Lemmas.Eyeballs3
import HdModel.Model.TcpConnect
import HdModel.Props.C16
import HdModel.Props.C10
/-! # C11 — happy-eyeballs attempts are paced, ordered, bounded and meet the deadline

Theorems about `Hd.Eyeballs.run` (mirror of `EyeballSet::finish`) for **every** list of scripted
attempts (any number, any latencies/outcomes incl. never-completing) and **every** configuration. -/
namespace Hd.Eyeballs

theorem prefix_range {l : List Nat} {n : Nat} (h : l <+: List.range n) : l = List.range l.length := by
  have hl := h.length_le
  simp at hl
  have := List.prefix_iff_eq_take.mp h
  rw [this, List.take_range]
  simp [Nat.min_eq_left hl]

theorem trim_prefix (atts : List Attempt) (r : Result) (l : List (Nat × Nat)) :
    trimStarts atts r l <+: l := by
  unfold trimStarts
  split
  · split
    · rename_i j _ _
      have h2 : (l.dropWhile (fun st => st.1 != j)).take 1 <+: l.dropWhile (fun st => st.1 != j) :=
        List.take_prefix _ _
      have h3 := (List.prefix_append_right_inj (l.takeWhile (fun st => st.1 != j))).mpr h2
      rw [List.takeWhile_append_dropWhile] at h3
      exact h3
    · exact List.prefix_refl _
  · exact List.prefix_refl _

theorem run_inv1 (c : Cfg) (atts : List Attempt) :
    Inv1 c atts.length (loop c atts (2 * atts.length + 2) (startN atts (c.conc.getD atts.length) (init atts.length))).2 ∧
    ResOK c (run c atts).1 (loop c atts (2 * atts.length + 2) (startN atts (c.conc.getD atts.length) (init atts.length))).2 :=
  loop_inv1 c atts atts.length _ _ (inv1_startN _ (inv1_init c atts.length))

/-- **C11 (order, once).** The attempts that are started are, in order, the first `k` candidates:
    the given order, each candidate at most once. -/
theorem C11_order_once (c : Cfg) (atts : List Attempt) :
    (run c atts).2.starts.map (·.1) = List.range (run c atts).2.starts.length := by
  have h := (run_inv1 c atts).1.order
  have hp : (run c atts).2.starts <+: _ := trim_prefix atts (run c atts).1 _
  have hp2 := List.IsPrefix.map (·.1) hp
  have : (run c atts).2.starts.map (·.1) <+: List.range atts.length := by
    refine hp2.trans ?_
    rw [← h]; exact List.prefix_append _ _
  simpa using prefix_range this

/-- **C11 (deadline).** Whatever the attempts do, the operation completes no later than the
    configured overall deadline. -/
theorem C11_deadline (c : Cfg) (atts : List Attempt) (t d : Nat)
    (ht : resTime (run c atts).1 = some t) (hd : c.timeout = some d) : t ≤ d :=
  (run_inv1 c atts).2.1 t d ht hd

/-- **C11 (no start after the end, time never goes backwards).** -/
theorem C11_starts_before_finish (c : Cfg) (atts : List Attempt) (t : Nat)
    (ht : resTime (run c atts).1 = some t) : ∀ st ∈ (run c atts).2.starts, st.2 ≤ t := by
  intro st hst
  have hp : (run c atts).2.starts <+: _ := trim_prefix atts (run c atts).1 _
  exact (run_inv1 c atts).2.2 t ht st (hp.subset hst)

theorem pacedFrom_split {c : Cfg} {n : Nat} {f : List (Nat × Nat)} (prev l1 l2 : List (Nat × Nat)) :
    PacedFrom c n f prev (l1 ++ l2) ↔ PacedFrom c n f prev l1 ∧ PacedFrom c n f (prev ++ l1) l2 := by
  induction l1 generalizing prev with
  | nil => simp [PacedFrom]
  | cons x l1 ih =>
    simp only [List.cons_append, PacedFrom]
    rw [ih (prev ++ [x])]
    simp [List.append_assoc, and_assoc]

theorem final_paced (c : Cfg) (atts : List Attempt) :
    Paced c atts.length (run c atts).2.fails (run c atts).2.starts ∧
    FailStart atts.length (run c atts).2.fails
      (loop c atts (2 * atts.length + 2) (startN atts (c.conc.getD atts.length) (init atts.length))).2.starts := by
  have h3 : Inv3 c atts.length (startN atts (c.conc.getD atts.length) (init atts.length)) :=
    (inv3_startN (c.conc.getD atts.length) (inv3_init c atts.length) rfl (by simp [init]) (by simp [init])).1
  have := loop_inv3 c atts atts.length (2 * atts.length + 2) _
    (inv1_startN _ (inv1_init c atts.length)) (inv2_startN _ (inv2_init atts atts.length)) h3
  refine ⟨?_, this.2⟩
  obtain ⟨t, ht⟩ := trim_prefix atts (run c atts).1
    (loop c atts (2 * atts.length + 2) (startN atts (c.conc.getD atts.length) (init atts.length))).2.starts
  have hp := this.1
  unfold Paced at hp ⊢
  rw [← ht, pacedFrom_split] at hp
  exact hp.1

/-- **C11 (pacing: never earlier, and as soon as the delay has elapsed).** For any two consecutive
    starts `a`, `b` of a run: `b` happens inside the initial batch, or at the instant nothing is
    running any more, or at the instant a running attempt fails, or exactly one stagger delay after
    `a` – and in every case no later than one stagger delay after `a`. -/
theorem C11_pacing (c : Cfg) (atts : List Attempt) (pre post : List (Nat × Nat)) (a b : Nat × Nat)
    (h : (run c atts).2.starts = pre ++ a :: b :: post) :
    Reason c atts.length (run c atts).2.fails (pre ++ [a]) a b ∧
    (∀ d, c.delay = some d → b.2 ≤ a.2 + d) := by
  have hp := (final_paced c atts).1
  unfold Paced at hp
  rw [h, show pre ++ a :: b :: post = (pre ++ [a]) ++ (b :: post) by simp, pacedFrom_split] at hp
  have := hp.2.1
  simpa using this

/-- **C11 (the first attempt starts at once).** -/
theorem C11_first_at_zero (c : Cfg) (atts : List Attempt) (b : Nat × Nat) (post : List (Nat × Nat))
    (h : (run c atts).2.starts = b :: post) : b.2 = 0 := by
  have hp := (final_paced c atts).1
  unfold Paced at hp
  rw [h] at hp
  exact hp.1

/-- **C11 (as soon as a running attempt has failed).** Every failure is answered, at that very
    instant, by the start of a later candidate – unless all candidates had been started already. -/
theorem C11_failure_triggers_start (c : Cfg) (atts : List Attempt) :
    ∀ p ∈ (run c atts).2.fails,
      (∃ st ∈ (loop c atts (2 * atts.length + 2)
          (startN atts (c.conc.getD atts.length) (init atts.length))).2.starts, st.2 = p.2 ∧ p.1 < st.1) ∨
      (∀ i, i < atts.length → ∃ st ∈ (loop c atts (2 * atts.length + 2)
          (startN atts (c.conc.getD atts.length) (init atts.length))).2.starts, st.1 = i ∧ st.2 ≤ p.2) :=
  (final_paced c atts).2

/-- **C11 (initial bound).** Before any event is awaited at most `initial_concurrency` attempts
    (all candidates when it is not configured) have been pushed, all at time 0. -/
theorem C11_initial_bound (c : Cfg) (atts : List Attempt) :
    (startN atts (c.conc.getD atts.length) (init atts.length)).starts.length ≤ c.conc.getD atts.length ∧
    ∀ st ∈ (startN atts (c.conc.getD atts.length) (init atts.length)).starts, st.2 = 0 := by
  have key : ∀ (k : Nat) (s : St), s.now = 0 → (∀ st ∈ s.starts, st.2 = 0) →
      (startN atts k s).starts.length ≤ s.starts.length + k ∧ ∀ st ∈ (startN atts k s).starts, st.2 = 0 := by
    intro k
    induction k with
    | zero => intro s _ hz; exact ⟨by simp [startN], by simpa [startN] using hz⟩
    | succ k ih =>
      intro s hnow hz
      unfold startN
      split
      · exact ⟨by omega, hz⟩
      · rename_i i q hq
        have := ih (start atts { s with queue := q } i) (by simp [start, hnow])
          (by intro st hst; simp [start] at hst; rcases hst with h | rfl; exact hz st h; exact hnow)
        refine ⟨?_, this.2⟩
        have h1 := this.1
        have hl : (start atts { s with queue := q } i).starts.length = s.starts.length + 1 := by simp [start]
        rw [hl] at h1; omega
  have := key (c.conc.getD atts.length) (init atts.length) rfl (by simp [init])
  simpa [init] using this

/-- Non-vacuity: a run that has a finish time and a deadline (scenario A of DESIGN.md). -/
example : (run ⟨some 10, some 100, some 1⟩ [⟨some 30, .err⟩, ⟨some 5, .ok⟩]).1 = .ok 1 15 := by decide

end Hd.Eyeballs

/-! ## The TCP connect as a whole (`TcpTransport::connect_to_addrs`, stream `tcpc`) -/
namespace Hd.TcpConnect
open Hd.Eyeballs

/-- every candidate address gets its turn: the attempt order is a permutation of the candidates -/
theorem order_perm (T conc : Option Nat) (v4 v6 : Bool) (cands : List Dns.Addr) (attOf : Dns.Addr → Attempt) :
    (connect T conc v4 v6 cands attOf).order.Perm cands := by
  unfold connect Dns.connectingOrder
  simp only []
  split
  · exact Dns.C16_perm _ _
  · exact List.Perm.refl _

/-- **C11 (deadline) for the composed connect**: with `happy_eyeballs_timeout = d` the whole operation –
    whatever the candidates do, however many there are, whatever order they are tried in – is over by `d`. -/
theorem C11_tcp_deadline (d : Nat) (conc : Option Nat) (v4 v6 : Bool) (cands : List Dns.Addr) (attOf : Dns.Addr → Attempt) (t : Nat)
    (ht : resTime (connect (some d) conc v4 v6 cands attOf).res = some t) : t ≤ d := by
  unfold connect at ht
  exact C11_deadline _ _ t d ht (by unfold tcpCfg; simp)

/-- the stagger delay the set is given is the deadline divided by the number of candidates -/
theorem tcp_stagger (d : Nat) (conc : Option Nat) (n : Nat) (hn : n ≠ 0) :
    (tcpCfg (some d) conc n).delay = some (d / n) ∧ (tcpCfg (some d) conc n).timeout = some d ∧ (tcpCfg (some d) conc n).conc = conc := by
  unfold tcpCfg; simp [hn]

/-- **C10 (first success) for the composed connect**: a connection that is returned is that of a candidate
    that was started, and no started candidate accepted earlier. -/
theorem C10_tcp_first_success (T conc : Option Nat) (v4 v6 : Bool) (cands : List Dns.Addr) (attOf : Dns.Addr → Attempt) (j t : Nat)
    (h : (connect T conc v4 v6 cands attOf).res = .ok j t) :
    (∃ st ∈ (connect T conc v4 v6 cands attOf).st.starts, st.1 = j ∧
        succeedsAt ((connect T conc v4 v6 cands attOf).order.map attOf) st = some t) ∧
    (∀ st ∈ (connect T conc v4 v6 cands attOf).st.starts, ∀ u,
        succeedsAt ((connect T conc v4 v6 cands attOf).order.map attOf) st = some u → t ≤ u) := by
  unfold connect at h ⊢
  simp only [] at h ⊢
  obtain ⟨a, b, _⟩ := C10_first_success _ _ j t h
  exact ⟨a, b⟩

end Hd.TcpConnect
