import HdModel.Props.C05
/-! # C02 — a non-multiplexed connection serves one request at a time

Step-level theorems about the pool model, valid in **every** state: a non-shareable connection is
delivered to at most one waiter, is handed back to the pool only once it is ready again, and a
connection that is busy (or taken over by an upgrade, i.e. never ready again) is never popped. -/
namespace Hd.Pool

/-- **C02 (one receiver).** Pushing a non-shareable connection changes at most one channel. -/
theorem C02_single_delivery (s : State) (t : Token) (c : ConnId) (l : List ReqId)
    (hns : canShare s c = false) (r r' : ReqId)
    (h1 : (pushLoop s t c l).1.chan r ≠ s.chan r) (h2 : (pushLoop s t c l).1.chan r' ≠ s.chan r') : r = r' := by
  induction l with
  | nil => simp [pushLoop] at h1
  | cons x xs ih =>
    simp only [pushLoop] at h1 h2
    split at h1
    · rename_i hxe
      simp only [hxe, hns, Bool.false_eq_true, ↓reduceIte] at h1 h2
      have e1 : r = x := by
        by_cases e : r = x
        · exact e
        · simp [upd, e] at h1
      have e2 : r' = x := by
        by_cases e : r' = x
        · exact e
        · simp [upd, e] at h2
      rw [e1, e2]
    · rename_i hne
      have hx : (s.chan x = Chan.empty → False) := hne
      cases hcx : s.chan x with
      | empty => exact absurd hcx hx
      | _ => simp only [hcx] at h2; exact ih h1 h2

/-- **C02 (delivered or kept, never both).** A non-shareable connection that was delivered to a
    waiter is not also put into the idle list. -/
theorem C02_delivered_not_idle (s : State) (t : Token) (c : ConnId)
    (hd : (pushLoop (clearMarker s t c) t c ((clearMarker s t c).waiting t)).2 = true) :
    (push s t c).idle = (pushLoop (clearMarker s t c) t c ((clearMarker s t c).waiting t)).1.idle := by
  unfold push
  simp only []
  generalize pushLoop (clearMarker s t c) t c ((clearMarker s t c).waiting t) = res at hd
  obtain ⟨s1, d⟩ := res
  simp only [] at hd ⊢
  subst hd
  simp

/-- **C02 (hand-back only when ready again).** The `WhenReady` task returns a connection to the pool
    only when it is open and no response is outstanding on it; while it is busy the task stays
    parked, and a closed one is dropped. -/
theorem C02_handback_only_when_ready (s : State) (i : Nat) (c : ConnId) (t : Token) (hp : Bool) (k : Conn)
    (hk : s.conns c = some k) :
    (k.busy = true ∧ k.isOpen = true → runWhenReady s i c t hp = s) ∧
    (k.isOpen = false → (runWhenReady s i c t hp).idle = s.idle ∧ (runWhenReady s i c t hp).chan = s.chan) := by
  unfold runWhenReady
  simp only [hk]
  constructor
  · intro ⟨hb, ho⟩; simp [hb, ho]
  · intro ho; simp [ho, removeTask]

/-- **C02 (a busy connection is never popped).** For a connection type whose `is_open()` means
    "ready" (hyperdriver's own `HttpConnection`; `lax = false`) `pop` only returns connections that
    are open and not busy – not one in use, nor one whose response has not been consumed, nor one
    taken over by an upgrade (which never reports ready again). For a type that only reports "not
    closed" the readiness gate is the `WhenReady` task alone (`C02_handback_only_when_ready`). -/
theorem C02_pop_not_busy (s : State) (l : List (ConnId × Nat)) (c : ConnId) (k : Conn)
    (h : (idlePop s l).1 = some c) (hk : s.conns c = some k) :
    k.isOpen = true ∧ (s.cfg.lax = false → k.busy = false) := by
  have := (C05_pop_spec s l c h).1
  simp [isOpenC, hk] at this
  refine ⟨this.1, fun hl => ?_⟩
  rcases this.2 with h' | h'
  · rw [hl] at h'; cases h'
  · exact h'

/-- **C02 (use marks busy).** Handing a non-shareable connection to a request marks it busy, so it
    is not ready (hence cannot be popped or handed back) until `connReady`. -/
theorem C02_exec_marks_busy (s : State) (c : ConnId) (k : Conn) (hk : s.conns c = some k)
    (hl : s.cfg.lax = false) :
    isOpenC (setConn s c (fun k => { k with busy := true })) c = false := by
  simp [isOpenC, setConn, hk, hl]

end Hd.Pool
