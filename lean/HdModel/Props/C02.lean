import HdModel.Props.C05
import HdModel.Lemmas.PoolReady
/-! # C02 — a non-multiplexed connection serves one request at a time

Step-level theorems about the pool model, valid in **every** state: a non-shareable connection is
delivered to at most one waiter, is handed back to the pool only once it is ready again, and a
connection that is busy (or taken over by an upgrade, i.e. never ready again) is never popped. -/
namespace Hd.Pool

/-- **C02 (one receiver).** Pushing a non-shareable connection changes at most one channel. -/
theorem C02_single_delivery (s : State) (t : Token) (c : ConnId) (l : List ReqId)
    (hns : canShare s c = false) (r r' : ReqId)
    (h1 : (pushLoop s t c l).1.chan r ≠ s.chan r) (h2 : (pushLoop s t c l).1.chan r' ≠ s.chan r') : r = r' := by
  induction l with
  | nil => simp [pushLoop] at h1
  | cons x xs ih =>
    simp only [pushLoop] at h1 h2
    split at h1
    · rename_i hxe
      simp only [hxe, hns, Bool.false_eq_true, ↓reduceIte] at h1 h2
      have e1 : r = x := by
        by_cases e : r = x
        · exact e
        · simp [upd, e] at h1
      have e2 : r' = x := by
        by_cases e : r' = x
        · exact e
        · simp [upd, e] at h2
      rw [e1, e2]
    · rename_i hne
      have hx : (s.chan x = Chan.empty → False) := hne
      cases hcx : s.chan x with
      | empty => exact absurd hcx hx
      | _ => simp only [hcx] at h2; exact ih h1 h2

/-- **C02 (delivered or kept, never both).** A non-shareable connection that was delivered to a
    waiter is not also put into the idle list. -/
theorem C02_delivered_not_idle (s : State) (t : Token) (c : ConnId)
    (hd : (pushLoop (clearMarker s t c) t c ((clearMarker s t c).waiting t)).2 = true) :
    (push s t c).idle = (pushLoop (clearMarker s t c) t c ((clearMarker s t c).waiting t)).1.idle := by
  unfold push
  simp only []
  generalize pushLoop (clearMarker s t c) t c ((clearMarker s t c).waiting t) = res at hd
  obtain ⟨s1, d⟩ := res
  simp only [] at hd ⊢
  subst hd
  simp

/-- **C02 (hand-back only when ready again).** The `WhenReady` task returns a connection to the pool
    only when it is open and no response is outstanding on it; while it is busy the task stays
    parked, and a closed one is dropped. -/
theorem C02_handback_only_when_ready (s : State) (i : Nat) (c : ConnId) (t : Token) (hp : Bool) (k : Conn)
    (hk : s.conns c = some k) :
    (k.busy = true ∧ k.isOpen = true → runWhenReady s i c t hp = s) ∧
    (k.isOpen = false → (runWhenReady s i c t hp).idle = s.idle ∧ (runWhenReady s i c t hp).chan = s.chan) := by
  unfold runWhenReady
  simp only [hk]
  constructor
  · intro ⟨hb, ho⟩; simp [hb, ho]
  · intro ho; simp [ho, removeTask]

/-- **C02 (a busy connection is never popped).** For a connection type whose `is_open()` means
    "ready" (hyperdriver's own `HttpConnection`; `lax = false`) `pop` only returns connections that
    are open and not busy – not one in use, nor one whose response has not been consumed, nor one
    taken over by an upgrade (which never reports ready again). For a type that only reports "not
    closed" the readiness gate is the `WhenReady` task alone (`C02_handback_only_when_ready`). -/
theorem C02_pop_not_busy (s : State) (l : List (ConnId × Nat)) (c : ConnId) (k : Conn)
    (h : (idlePop s l).1 = some c) (hk : s.conns c = some k) :
    k.isOpen = true ∧ (s.cfg.lax = false → k.busy = false) := by
  have := (C05_pop_spec s l c h).1
  simp [isOpenC, hk] at this
  refine ⟨this.1, fun hl => ?_⟩
  rcases this.2 with h' | h'
  · rw [hl] at h'; cases h'
  · exact h'

/-- **C02 (use marks busy).** Handing a non-shareable connection to a request marks it busy, so it
    is not ready (hence cannot be popped or handed back) until `connReady`. -/
theorem C02_exec_marks_busy (s : State) (c : ConnId) (k : Conn) (hk : s.conns c = some k)
    (hl : s.cfg.lax = false) :
    isOpenC (setConn s c (fun k => { k with busy := true })) c = false := by
  simp [isOpenC, setConn, hk, hl]

end Hd.Pool

namespace Hd.Pool

/-! ## Reachable-state theorems (from the linear-ownership invariant of `Lemmas/PoolLinear.lean`) -/

/-- **C02 (one request at a time).** In every state reachable by any operation sequence, a connection
    that cannot be multiplexed is in the hands of at most one request. -/
theorem C02_one_holder (cfg : Config) (ops : List Op) (r r' : ReqId) (p p' : Pooled)
    (h : (run (init cfg) ops).1.held r = some p) (h' : (run (init cfg) ops).1.held r' = some p')
    (hc : p.conn = p'.conn) (hn : canShare (run (init cfg) ops).1 p.conn = false) : r = r' := by
  have inv := run_lininv ops (init cfg) (lininv_init cfg) (originInv_init cfg)
  have := inv.lin.point p.conn hn (.held r) (.held r') ⟨p, h, rfl⟩ ⟨p', h', hc.symm⟩
  cases this; rfl

/-- **C02 (held means out of the pool).** While a request holds a non-multiplexed connection it is
    in no idle list, in no waiter's channel, in no other checkout and in no hand-back task: the pool
    cannot give it to anybody else. -/
theorem C02_held_out_of_pool (cfg : Config) (ops : List Op) (r : ReqId) (p : Pooled)
    (h : (run (init cfg) ops).1.held r = some p) (hn : canShare (run (init cfg) ops).1 p.conn = false) :
    (∀ t a, (p.conn, a) ∉ (run (init cfg) ops).1.idle t) ∧
    (∀ r' q, (run (init cfg) ops).1.chan r' = .full q → q.conn ≠ p.conn) ∧
    (∀ r' chk, (run (init cfg) ops).1.co r' = some chk → chk.conn ≠ some p.conn) ∧
    (∀ i t hp, (i, Task.whenReady p.conn t hp) ∉ (run (init cfg) ops).1.tasks) := by
  have inv := run_lininv ops (init cfg) (lininv_init cfg) (originInv_init cfg)
  have hat : At (run (init cfg) ops).1 p.conn (.held r) := ⟨p, h, rfl⟩
  refine ⟨?_, ?_, ?_, ?_⟩
  · intro t a hm
    have hpos : 0 < idleCount (run (init cfg) ops).1 p.conn t := by
      unfold idleCount
      exact List.count_pos_iff.mpr (List.mem_map.mpr ⟨(p.conn, a), hm, rfl⟩)
    exact inv.lin.cross p.conn hn ⟨t, hpos⟩ _ hat
  · intro r' q hq hqc
    have := inv.lin.point p.conn hn (.held r) (.chan r') hat ⟨q, hq, hqc⟩
    cases this
  · intro r' chk hchk hcc
    have := inv.lin.point p.conn hn (.held r) (.co r') hat ⟨chk, hchk, hcc⟩
    cases this
  · intro i t hp hm
    have := inv.lin.point p.conn hn (.held r) (.task i) hat ⟨t, hp, hm⟩
    cases this

/-- **C02 (one copy in the pool).** A non-multiplexed connection is in at most one idle list, at most
    once, and then in nobody's channel, checkout, hands or hand-back task. -/
theorem C02_pooled_once (cfg : Config) (ops : List Op) (c : ConnId) (t t' : Token)
    (hn : canShare (run (init cfg) ops).1 c = false)
    (h : 0 < idleCount (run (init cfg) ops).1 c t) (h' : 0 < idleCount (run (init cfg) ops).1 c t') :
    t = t' ∧ idleCount (run (init cfg) ops).1 c t = 1 ∧ ∀ l, ¬ At (run (init cfg) ops).1 c l := by
  have inv := run_lininv ops (init cfg) (lininv_init cfg) (originInv_init cfg)
  obtain ⟨e, one⟩ := inv.lin.idle1 c hn t t' h h'
  exact ⟨e, one, inv.lin.cross c hn ⟨t, h⟩⟩

/-- Non-vacuity: two requests for one origin on HTTP/1; the second only gets the connection after the
    first released it and it became ready again. -/
example :
    let ops : List Op := [.issue 0 7 false, .poll 0, .dialDone 0 (.ok .asRequested), .poll 0, .issue 1 7 false, .poll 1,
                          .finish 0, .run, .poll 1, .connReady 0, .run, .poll 1]
    let s := (run (init {}) ops).1
    s.held 0 = none ∧ s.held 1 = some ⟨0, 1, true⟩ ∧ (run (init {}) (ops.take 9)).1.held 1 = none := by
  decide

/-- **C02 (ready again before reuse).** In every reachable state a non-multiplexed connection that
    the pool could hand out – idle, in a waiter's channel, or popped into a checkout – is not busy:
    it has reported itself ready after its previous use. Conversely a connection that is still busy
    (response not consumed, or taken over by an upgrade and never ready again) is nowhere the pool
    hands out from. -/
theorem C02_available_means_ready (cfg : Config) (ops : List Op) (c : ConnId)
    (hn : canShare (run (init cfg) ops).1 c = false) (hp : Pooledish (run (init cfg) ops).1 c) :
    NotBusy (run (init cfg) ops).1 c :=
  run_ready ops (init cfg) (ready_init cfg) (lininv_init cfg) (originInv_init cfg) c hn hp

theorem C02_busy_not_available (cfg : Config) (ops : List Op) (c : ConnId) (k : Conn)
    (hn : canShare (run (init cfg) ops).1 c = false) (hk : (run (init cfg) ops).1.conns c = some k) (hb : k.busy = true) :
    ¬ Pooledish (run (init cfg) ops).1 c := by
  intro hp
  have := C02_available_means_ready cfg ops c hn hp k hk
  rw [hb] at this; cases this

/-- **C02 (hand-out).** In every reachable state, the connection a poll hands to a request – taken
    from its channel, from the idle connection it was given, or freshly established – is not busy. -/
theorem C02_handout_ready (cfg : Config) (ops : List Op) (r : ReqId) (chk : Checkout) (p : Pooled)
    (hco : (run (init cfg) ops).1.co r = some chk)
    (hg : (pollCheckout (run (init cfg) ops).1 r chk).2.2 = .got p)
    (hn : canShare (pollCheckout (run (init cfg) ops).1 r chk).1 p.conn = false) :
    NotBusy (pollCheckout (run (init cfg) ops).1 r chk).1 p.conn :=
  (pollCheckout_ready (run_ready ops (init cfg) (ready_init cfg) (lininv_init cfg) (originInv_init cfg))
    (run_originInv ops (init cfg) (originInv_init cfg)) r chk hco).2 p hg hn

/-- **C02 (what the pool needs from a connection type).** For a connection type whose `is_open()` means
    "can take a request now" (`lax = false`: hyperdriver's own `HttpConnection`, checked on the real type by
    the `conn` stream), a connection the pool considers open is neither closed nor busy. (`WhenReady::drop`
    and `IdleConnections::pop` consult `is_open()` alone.) -/
theorem C02_open_means_ready (s : State) (c : ConnId) (hl : s.cfg.lax = false) (ho : isOpenC s c = true) :
    ∃ k, s.conns c = some k ∧ k.isOpen = true ∧ k.busy = false := by
  unfold isOpenC at ho
  cases hk : s.conns c with
  | none => rw [hk] at ho; cases ho
  | some k =>
    rw [hk] at ho
    simp only [hl, Bool.false_or, Bool.and_eq_true, Bool.not_eq_true'] at ho
    exact ⟨k, rfl, ho.1, ho.2⟩

/-- **C02 (a hand-back task that is dropped returns nothing).** When the runtime that hosts the pool's
    tasks goes away, a released connection that has not yet reported ready is dropped with its task: it
    is put into no idle list and no channel, whatever `is_open()` says about it (fix 0257728; before it,
    `WhenReady::drop` pushed any connection that called itself open). The reachable-state invariants
    `run_lininv` / `run_ready` cover the `shutdown` op like every other. -/
theorem C02_dropped_handback_returns_nothing (s : State) (i : Nat) (c : ConnId) (t : Token) (hp : Bool)
    (ht : taskOf s i = some (.whenReady c t hp)) :
    (abortTask s i).idle = s.idle ∧ (abortTask s i).chan = s.chan ∧ c ∈ (abortTask s i).dropped := by
  unfold abortTask
  simp only [ht]
  exact ⟨rfl, rfl, List.mem_cons_self⟩

/-- Non-vacuity, with a connection type that calls itself open while busy: the response arrives, the
    runtime is shut down before the connection is ready again, the next request dials (2 dials). -/
example :
    let ops : List Op := [.issue 0 7 false, .poll 0, .dialDone 0 (.ok .asRequested), .poll 0, .finish 0, .shutdown,
                          .issue 1 7 false, .poll 1]
    let res := run (init { lax := true }) ops
    res.2.getLast? = some .pending ∧ res.1.dialCount = 2 ∧ res.1.dropped = [0] := by
  decide

end Hd.Pool

