import HdModel.Spec.Pool
