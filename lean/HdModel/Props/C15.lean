import HdModel.Lemmas.PoolFrame
import HdModel.Model.PoolCompact
import HdModel.Lemmas.PoolOrigin
import HdModel.Props.Builder
/-! # C15 — the pool keeps at most the configured number of idle connections per origin

Theorem about the pool model `Hd.Pool` (mirror of `client/pool`): in **every** state reachable by
**any** sequence of operations, for every origin, the idle list is within `max_idle_per_host`. -/
namespace Hd.Pool

def IdleBound (s : State) : Prop := ∀ t, (s.idle t).length ≤ s.cfg.maxIdle

theorem idleBound_of_eq {s s' : State} (h : IdleBound s) (hi : s'.idle = s.idle) (hc : s'.cfg = s.cfg) : IdleBound s' := by
  intro t; rw [hi, hc]; exact h t

theorem push_idleBound (s : State) (t : Token) (c : ConnId) (h : IdleBound s) : IdleBound (push s t c) := by
  unfold push
  simp only []
  have hl := pushLoop_idle (clearMarker s t c) t c ((clearMarker s t c).waiting t)
  generalize pushLoop (clearMarker s t c) t c ((clearMarker s t c).waiting t) = res at hl
  obtain ⟨s1, delivered⟩ := res
  simp only [clearMarker_idle, clearMarker_cfg] at hl ⊢
  have h1 : IdleBound s1 := idleBound_of_eq h hl.1 hl.2
  split
  · exact h1
  · split
    · rename_i hlt
      intro t'
      by_cases ht : t' = t
      · subst ht; simp; omega
      · simp [ht]; exact h1 t'
    · split
      · exact h1
      · exact idleBound_of_eq h1 rfl rfl

theorem idlePop_length (s : State) (l : List (ConnId × Nat)) :
    (idlePop s l).2.1.length ≤ l.length ∧ ((idlePop s l).1.isSome → (idlePop s l).2.1.length < l.length) := by
  induction l with
  | nil => simp [idlePop]
  | cons x rest ih =>
    obtain ⟨c, at_⟩ := x
    simp only [idlePop]
    split
    · simp
    · split
      · simp
      · generalize idlePop s rest = res at ih
        obtain ⟨r, l', d⟩ := res
        simp only [List.length_cons] at ih ⊢
        constructor
        · omega
        · intro hs; have := ih.2 hs; omega

theorem issue_idleBound (s : State) (r : ReqId) (k : KeyId) (mux : Bool) (h : IdleBound s) :
    IdleBound (issue s r k mux) := by
  unfold issue
  have hk : IdleBound (tokenOf s k).1 := by
    unfold tokenOf; split
    · exact h
    · exact idleBound_of_eq h rfl rfl
  generalize tokenOf s k = tk at hk
  obtain ⟨s1, t⟩ := tk
  simp only [] at hk ⊢
  have hp := idlePop_length s1 (s1.idle t)
  generalize idlePop s1 (s1.idle t) = res at hp
  obtain ⟨got, rest, gone⟩ := res
  simp only [] at hp ⊢
  cases got with
  | none =>
    simp only []
    unfold issueMissing
    simp only []
    split
    · intro t'
      by_cases ht : t' = t
      · subst ht; simp [noteDropped]; exact Nat.le_trans hp.1 (hk t')
      · simp [noteDropped, ht]; exact hk t'
    · intro t'
      by_cases ht : t' = t
      · subst ht
        split <;> (simp [noteDropped]; exact Nat.le_trans hp.1 (hk t'))
      · split <;> (simp [noteDropped, ht]; exact hk t')
  | some c =>
    have hlt := hp.2 rfl
    simp only []
    unfold issueFound
    intro t'
    by_cases ht : t' = t
    · subst ht
      split
      · simp [noteDropped]; have := hk t'; omega
      · simp [noteDropped]; have := hk t'; omega
    · split <;> (simp [noteDropped, ht]; exact hk t')

theorem returnUnused_idleBound (s : State) (c : Checkout) (h : IdleBound s) : IdleBound (returnUnused s c) := by
  unfold returnUnused
  split
  · split
    · exact push_idleBound _ _ _ h
    · split
      · exact h
      · exact idleBound_of_eq h rfl rfl
  · exact h

theorem dropCheckout_idleBound (s : State) (r : ReqId) (h : IdleBound s) : IdleBound (dropCheckout s r) := by
  unfold dropCheckout
  split
  · exact h
  · rename_i c hc
    split
    · exact h
    · have h0 : IdleBound (takeConn s r c) := idleBound_of_eq h rfl rfl
      have h1 := returnUnused_idleBound (takeConn s r c) c h0
      simp only []
      split
      · exact idleBound_of_eq h1 (by simp) (by simp)
      · exact idleBound_of_eq h1 (by simp) (by simp)

theorem registerConnected_idleBound (s : State) (c : Checkout) (cid : ConnId) (h : IdleBound s) :
    IdleBound (registerConnected s c cid).1 := by
  unfold registerConnected
  split
  · exact push_idleBound _ _ _ h
  · exact h

theorem pollWaiter_idle (s : State) (r : ReqId) (c : Checkout) :
    (pollWaiter s r c).1.idle = s.idle ∧ (pollWaiter s r c).1.cfg = s.cfg := by
  unfold pollWaiter
  split
  · split <;> simp
  · split <;> simp
  · simp

theorem pollCheckout_idleBound (s : State) (r : ReqId) (c : Checkout) (h : IdleBound s) :
    IdleBound (pollCheckout s r c).1 := by
  unfold pollCheckout
  have hw := pollWaiter_idle s r c
  generalize pollWaiter s r c = res at hw
  obtain ⟨s1, c1, w⟩ := res
  simp only [] at hw ⊢
  have h1 : IdleBound s1 := idleBound_of_eq h hw.1 hw.2
  split
  · exact h1
  · exact h1
  · split
    · exact h1
    · split
      · exact h1
      · exact idleBound_of_eq h1 (by simp) (by simp)
    · have h2 : IdleBound (startDial s1 r) := idleBound_of_eq h1 (by simp) (by simp)
      generalize startDial s1 r = s2 at h2
      split
      · exact h2
      · have h3 : IdleBound (dropRx s2 r) := idleBound_of_eq h2 (by simp) (by simp)
        split
        · exact registerConnected_idleBound _ _ _ (idleBound_of_eq h3 (by simp) (by simp))
        · exact h3
        · exact h3

theorem runWhenReady_idleBound (s : State) (i : Nat) (c : ConnId) (t : Token) (hp : Bool) (h : IdleBound s) :
    IdleBound (runWhenReady s i c t hp) := by
  unfold runWhenReady
  split
  · exact idleBound_of_eq h rfl rfl
  · split
    · exact idleBound_of_eq h rfl rfl
    · split
      · exact h
      · split
        · exact push_idleBound _ _ _ (idleBound_of_eq h rfl rfl)
        · exact idleBound_of_eq h rfl rfl

theorem runDelayed_idleBound (s : State) (i : Nat) (r : ReqId) (h : IdleBound s) : IdleBound (runDelayed s i r) := by
  unfold runDelayed
  split
  · exact idleBound_of_eq h rfl rfl
  · rename_i c hc
    have hp := pollCheckout_idleBound s r c h
    simp only []
    split
    · exact idleBound_of_eq hp rfl rfl
    · exact idleBound_of_eq hp (by simp) (by simp)
    · exact idleBound_of_eq hp (by simp) (by simp)

theorem runTask_idleBound (s : State) (i : Nat) (h : IdleBound s) : IdleBound (runTask s i) := by
  unfold runTask
  split
  · exact h
  · exact runWhenReady_idleBound _ _ _ _ _ h
  · exact runDelayed_idleBound _ _ _ h

theorem runAll_idleBound (fuel : Nat) (s : State) (h : IdleBound s) : IdleBound (runAll fuel s) := by
  induction fuel generalizing s with
  | zero => exact h
  | succ n ih =>
    unfold runAll
    split
    · exact h
    · exact ih _ (runTask_idleBound _ _ (idleBound_of_eq h rfl rfl))

/-- dropping the spawned tasks (runtime shutdown) files nothing as idle -/
theorem abortTask_idle_cfg (s : State) (i : Nat) : (abortTask s i).idle = s.idle ∧ (abortTask s i).cfg = s.cfg := by
  unfold abortTask
  split
  · exact ⟨rfl, rfl⟩
  · exact ⟨rfl, rfl⟩
  · split
    · exact ⟨rfl, rfl⟩
    · simp

theorem abortAll_idle_cfg (fuel : Nat) (s : State) : (abortAll fuel s).idle = s.idle ∧ (abortAll fuel s).cfg = s.cfg := by
  induction fuel generalizing s with
  | zero => exact ⟨rfl, rfl⟩
  | succ n ih =>
    unfold abortAll
    split
    · exact ⟨rfl, rfl⟩
    · obtain ⟨a, b⟩ := ih (abortTask s _)
      obtain ⟨c, d⟩ := abortTask_idle_cfg s _
      exact ⟨a.trans c, b.trans d⟩

theorem step_idleBound (s : State) (op : Op) (h : IdleBound s) : IdleBound (step s op).1 := by
  cases op with
  | issue r k mux =>
    simp only [step]; split
    · exact h
    · exact issue_idleBound s r k mux h
  | poll r =>
    simp only [step]; split
    · exact h
    · rename_i c hc
      split
      · exact h
      · have hp := pollCheckout_idleBound s r c h
        generalize pollCheckout s r c = res at hp
        obtain ⟨s1, c1, pr⟩ := res
        simp only [] at hp ⊢
        have h1 : IdleBound { s1 with co := upd s1.co r (some c1) } := idleBound_of_eq hp rfl rfl
        split
        · exact h1
        · apply dropCheckout_idleBound
          split
          · exact idleBound_of_eq h1 rfl rfl
          · exact idleBound_of_eq h1 (by simp) (by simp)
        · exact dropCheckout_idleBound _ _ h1
        · exact dropCheckout_idleBound _ _ h1
  | cancel r =>
    simp only [step]; split
    · exact idleBound_of_eq h (by simp) (by simp)
    · split
      · exact h
      · split
        · exact dropCheckout_idleBound _ _ h
        · exact h
  | cancelOff r =>
    simp only [step]; split
    · refine idleBound_of_eq h ?_ ?_
      · rw [(abortTask_idle_cfg _ _).1]; simp
      · rw [(abortTask_idle_cfg _ _).2]; simp
    · exact h
  | dialDone r o =>
    simp only [step]; split
    · exact idleBound_of_eq h rfl rfl
    · exact h
  | finish r =>
    simp only [step]; split
    · exact idleBound_of_eq h (by simp) (by simp)
    · exact h
  | connReady c =>
    simp only [step]; split
    · exact idleBound_of_eq h (by simp) (by simp)
    · exact h
  | connClose c =>
    simp only [step]; split
    · exact idleBound_of_eq h (by simp) (by simp)
    · exact h
  | connFail c =>
    simp only [step]; split
    · split
      · exact idleBound_of_eq h (by simp) (by simp)
      · exact h
    · exact h
  | run => exact runAll_idleBound _ _ h
  | tick ms => exact idleBound_of_eq h rfl rfl
  | mark => exact h
  | shutdown => exact idleBound_of_eq h (abortAll_idle_cfg _ s).1 (abortAll_idle_cfg _ s).2

theorem push_cfg (s : State) (t : Token) (c : ConnId) : (push s t c).cfg = s.cfg := by
  unfold push
  simp only []
  have hl := pushLoop_idle (clearMarker s t c) t c ((clearMarker s t c).waiting t)
  generalize pushLoop (clearMarker s t c) t c ((clearMarker s t c).waiting t) = res at hl
  obtain ⟨s1, d⟩ := res
  simp only [clearMarker_idle, clearMarker_cfg] at hl ⊢
  split
  · exact hl.2
  · split
    · exact hl.2
    · split <;> exact hl.2

theorem issue_cfg (s : State) (r : ReqId) (k : KeyId) (mux : Bool) : (issue s r k mux).cfg = s.cfg := by
  unfold issue
  have hk : (tokenOf s k).1.cfg = s.cfg := by unfold tokenOf; split <;> rfl
  generalize tokenOf s k = tk at hk
  obtain ⟨s1, t⟩ := tk
  simp only [] at hk ⊢
  generalize idlePop s1 (s1.idle t) = res
  obtain ⟨got, rest, gone⟩ := res
  cases got with
  | none => simp only []; unfold issueMissing; simp only []; split <;> (try split) <;> simpa [noteDropped] using hk
  | some c => simp only []; unfold issueFound; split <;> simpa [noteDropped] using hk

theorem returnUnused_cfg (s : State) (c : Checkout) : (returnUnused s c).cfg = s.cfg := by
  unfold returnUnused
  split
  · split
    · exact push_cfg _ _ _
    · split <;> rfl
  · rfl

theorem dropCheckout_cfg (s : State) (r : ReqId) : (dropCheckout s r).cfg = s.cfg := by
  unfold dropCheckout
  split
  · rfl
  · split
    · rfl
    · simp only []; split <;> simp [returnUnused_cfg, takeConn]

theorem registerConnected_cfg (s : State) (c : Checkout) (cid : ConnId) : (registerConnected s c cid).1.cfg = s.cfg := by
  unfold registerConnected
  split
  · exact push_cfg _ _ _
  · rfl

theorem pollCheckout_cfg (s : State) (r : ReqId) (c : Checkout) : (pollCheckout s r c).1.cfg = s.cfg := by
  unfold pollCheckout
  have hw := pollWaiter_idle s r c
  generalize pollWaiter s r c = res at hw
  obtain ⟨s1, c1, w⟩ := res
  simp only [] at hw ⊢
  split
  · exact hw.2
  · exact hw.2
  · split
    · exact hw.2
    · split
      · exact hw.2
      · simp [hw.2]
    · split
      · simp [hw.2]
      · split
        · rw [registerConnected_cfg]; simp [hw.2]
        · simp [hw.2]
        · simp [hw.2]

theorem runWhenReady_cfg (s : State) (i : Nat) (c : ConnId) (t : Token) (hp : Bool) :
    (runWhenReady s i c t hp).cfg = s.cfg := by
  unfold runWhenReady
  split
  · rfl
  · split
    · rfl
    · split
      · rfl
      · split
        · rw [push_cfg]; rfl
        · rfl

theorem runDelayed_cfg (s : State) (i : Nat) (r : ReqId) : (runDelayed s i r).cfg = s.cfg := by
  unfold runDelayed
  split
  · rfl
  · rename_i c hc
    have hp := pollCheckout_cfg s r c
    simp only []
    split <;> simp [hp]

theorem runTask_cfg (s : State) (i : Nat) : (runTask s i).cfg = s.cfg := by
  unfold runTask
  split
  · rfl
  · exact runWhenReady_cfg _ _ _ _ _
  · exact runDelayed_cfg _ _ _

theorem runAll_cfg (fuel : Nat) (s : State) : (runAll fuel s).cfg = s.cfg := by
  induction fuel generalizing s with
  | zero => rfl
  | succ n ih =>
    unfold runAll
    split
    · rfl
    · rw [ih, runTask_cfg]

theorem step_cfg (s : State) (op : Op) : (step s op).1.cfg = s.cfg := by
  cases op with
  | issue r k mux => simp only [step]; split <;> simp [issue_cfg]
  | poll r =>
    simp only [step]; split
    · rfl
    · rename_i c hc
      split
      · rfl
      · have hp := pollCheckout_cfg s r c
        generalize pollCheckout s r c = res at hp
        obtain ⟨s1, c1, pr⟩ := res
        simp only [] at hp ⊢
        split
        · simp [hp]
        · rw [dropCheckout_cfg]; split <;> simp [hp]
        · rw [dropCheckout_cfg]; simp [hp]
        · rw [dropCheckout_cfg]; simp [hp]
  | cancel r =>
    simp only [step]; split
    · simp
    · split
      · rfl
      · split
        · exact dropCheckout_cfg _ _
        · rfl
  | cancelOff r => simp only [step]; split <;> simp [(abortTask_idle_cfg _ _).2]
  | dialDone r o => simp only [step]; split <;> simp
  | finish r => simp only [step]; split <;> simp
  | connReady c => simp only [step]; split <;> simp
  | connClose c => simp only [step]; split <;> simp
  | connFail c => simp only [step]; split <;> (try split) <;> simp
  | run => exact runAll_cfg _ _
  | tick ms => rfl
  | mark => rfl
  | shutdown => exact (abortAll_idle_cfg _ s).2

/-- **C15.** At no time does the pool retain more idle connections for one origin than
    `max_idle_per_host`: for every configuration, every operation sequence (any length, any
    interleaving of issue / poll / cancel / dial completion / release / readiness / close / task
    steps / clock ticks), every origin, at every point of the history. -/
theorem C15_idle_bound (cfg : Config) (ops : List Op) (t : Token) :
    ((run (init cfg) ops).1.idle t).length ≤ cfg.maxIdle := by
  have key : ∀ (s : State) (ops : List Op), IdleBound s → IdleBound (run s ops).1 ∧ (run s ops).1.cfg = s.cfg := by
    intro s ops
    induction ops generalizing s with
    | nil => intro h; exact ⟨h, rfl⟩
    | cons op ops ih =>
      intro h
      simp only [run]
      have := ih (step s op).1 (step_idleBound s op h)
      refine ⟨this.1, ?_⟩
      rw [this.2]
      exact step_cfg s op
  have h0 : IdleBound (init cfg) := by intro t; simp [init]
  have := key (init cfg) ops h0
  have hb := this.1 t
  rw [this.2] at hb
  exact hb

end Hd.Pool

namespace Hd.Pool

theorem flatMap_all_nil {α β} (l : List α) (g : α → List β) (h : ∀ a ∈ l, g a = []) : l.flatMap g = [] := by
  induction l with
  | nil => rfl
  | cons a l ih =>
    simp only [List.flatMap_cons, h a (by simp), List.nil_append]
    exact ih (fun b hb => h b (by simp [hb]))

theorem flatMap_single_length {β} (ts : List Nat) (g : Nat → List β) (t0 : Nat) (hnd : ts.Nodup)
    (h : ∀ t, t ≠ t0 → g t = []) : (ts.flatMap g).length ≤ (g t0).length := by
  induction ts with
  | nil => simp
  | cons t ts ih =>
    have hnd' := List.nodup_cons.mp hnd
    simp only [List.flatMap_cons, List.length_append]
    by_cases ht : t = t0
    · subst ht
      have : ts.flatMap g = [] := flatMap_all_nil ts g (fun a ha => h a (fun e => hnd'.1 (e ▸ ha)))
      simp [this]
    · rw [h t ht]; simpa using ih hnd'.2

/-- the idle connections, found under the tokens `ts`, that were dialled for origin `k` -/
def idleOf (s : State) (ts : List Token) (k : KeyId) : List (ConnId × Nat) :=
  ts.flatMap fun t => (s.idle t).filter fun e => decide ((s.conns e.1).map (·.origin) = some k)

/-- **C15 per origin.** The bound is per *origin*, not only per idle list: an origin's connections all sit in the
    one list of the one token its key was given (C06: the token table never forgets or re-assigns a key), so however
    many tokens one looks under - any duplicate-free collection, in particular all of them - the idle connections
    dialled for one origin number at most `max_idle_per_host`, in every reachable state. -/
theorem C15_per_origin (cfg : Config) (ops : List Op) (k : KeyId) (ts : List Token) (hnd : ts.Nodup) :
    (idleOf (run (init cfg) ops).1 ts k).length ≤ cfg.maxIdle := by
  have inv := run_originInv ops (init cfg) (originInv_init cfg)
  generalize hs : (run (init cfg) ops).1 = s at inv
  have hb : ∀ t, (s.idle t).length ≤ cfg.maxIdle := fun t => hs ▸ C15_idle_bound cfg ops t
  -- a connection of origin `k` in the list of token `t`: `t` is the token of `k`
  have hA : ∀ t e, e ∈ s.idle t → (s.conns e.1).map (·.origin) = some k → s.keys.lookup k = some t := by
    intro t e he ho
    obtain ⟨k', conn, hk, hc, hor⟩ := inv.idle t e.1 e.2 he
    rw [hc] at ho
    simp only [Option.map_some, Option.some.injEq] at ho
    rw [← ho, hor]; exact hk
  unfold idleOf
  cases hl : s.keys.lookup k with
  | none =>
    rw [flatMap_all_nil]
    · simp
    · intro t _
      apply List.filter_eq_nil_iff.mpr
      intro e he
      simp only [decide_eq_true_eq]
      intro ho
      have := hA t e he ho
      rw [hl] at this; cases this
  | some t0 =>
    refine Nat.le_trans (flatMap_single_length ts _ t0 hnd ?_) (Nat.le_trans (List.length_filter_le _ _) (hb t0))
    intro t ht
    apply List.filter_eq_nil_iff.mpr
    intro e he
    simp only [decide_eq_true_eq]
    intro ho
    have := hA t e he ho
    rw [hl] at this
    exact ht (Option.some.inj this).symm

/-- the premises are met by a non-trivial history: two origins, one idle connection each -/
example :
    let s := (run (init { maxIdle := 1 }) [.issue 0 0 false, .poll 0, .dialDone 0 (.ok .asRequested), .poll 0, .finish 0, .connReady 0, .run,
                                            .issue 1 1 false, .poll 1, .dialDone 1 (.ok .asRequested), .poll 1, .finish 1, .connReady 1, .run]).1
    (idleOf s [1, 2] 0).length = 1 ∧ (idleOf s [1, 2] 1).length = 1 := by decide

end Hd.Pool
