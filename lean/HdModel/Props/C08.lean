import HdModel.Lemmas.Sniff
/-! # C08 — protocol detection is independent of how the client's bytes are fragmented

Theorems about `Hd.Sniff.readVersion` / `rewindRead` (mirrors of `ReadVersion::poll` and
`Rewind::poll_read`) for **every** script of read events – every byte stream, every way of cutting
it into reads, every placement of `Pending` results. -/
namespace Hd.Sniff

/-- Generalised over the buffer content: as long as the buffer holds a prefix of the preface, the
    verdict is `h2` exactly when the preface is a prefix of buffer ++ remaining stream. -/
theorem detect_gen (evs : List Ev) (filled : Bytes) (hf : filled <+: preface)
    (v : Version) (pre : Bytes) (rest : List Ev)
    (h : readVersion evs filled = .ok v pre rest) :
    (v = .h2 ↔ preface <+: filled ++ drain evs) := by
  induction evs generalizing filled with
  | nil =>
    simp only [readVersion] at h
    split at h
    · rename_i hlt
      simp only [SniffResult.ok.injEq] at h
      obtain ⟨rfl, _, _⟩ := h
      simp only [drain, List.append_nil, reduceCtorEq, false_iff]
      intro hp; have := hp.length_le; omega
    · rename_i hge
      simp only [SniffResult.ok.injEq] at h
      obtain ⟨rfl, _, _⟩ := h
      have := prefix_full hf (by omega)
      simp [this, drain]
  | cons ev rest' ih =>
    simp only [readVersion] at h
    split at h
    · rename_i hlt
      cases ev with
      | pending =>
        simp only at h
        simpa [drain] using ih filled hf h
      | err => simp at h
      | eof =>
        simp only [SniffResult.ok.injEq] at h
        obtain ⟨rfl, _, _⟩ := h
        simp only [drain, List.append_nil, reduceCtorEq, false_iff]
        intro hp; have := hp.length_le; omega
      | data bs =>
        simp only at h
        split at h
        · -- n = 0 : the chunk is empty
          rename_i hn
          have hbs : bs = [] := by
            have : bs.length = 0 := by omega
            exact List.eq_nil_of_length_eq_zero this
          simp only [SniffResult.ok.injEq] at h
          obtain ⟨rfl, _, _⟩ := h
          subst hbs
          simp only [drain, List.append_nil, reduceCtorEq, false_iff]
          intro hp; have := hp.length_le; omega
        · rename_i hn
          have hne : bs ≠ [] := by
            intro hb; subst hb; simp at hn
          rw [drain_data_ne bs rest' hne, prefix_shift hf]
          split at h
          · -- mismatch
            rename_i hmis
            simp only [SniffResult.ok.injEq] at h
            obtain ⟨rfl, _, _⟩ := h
            simp only [reduceCtorEq, false_iff]
            intro hp
            apply hmis
            obtain ⟨t, ht⟩ := hp
            have h1 : (bs ++ drain rest').take (min bs.length (preface.length - filled.length)) =
                bs.take (min bs.length (preface.length - filled.length)) := by
              rw [List.take_append_of_le_length (by omega)]
            rw [← h1, ← ht, List.take_append_of_le_length (by simp; omega)]
          · rename_i hmatch
            simp only [ne_eq, Decidable.not_not] at hmatch
            split at h
            · -- whole chunk consumed, keep reading
              rename_i hleft
              have hlen : bs.length ≤ preface.length - filled.length := by
                have : (bs.drop (min bs.length (preface.length - filled.length))) = [] := by
                  simpa using hleft
                have := congrArg List.length this
                simp at this; omega
              have hmin : min bs.length (preface.length - filled.length) = bs.length := by omega
              rw [hmin, List.take_length] at hmatch
              rw [hmin, List.take_length] at h
              have hf' : filled ++ bs <+: preface := by
                rw [prefix_split hf, hmatch]
                simp only [List.prefix_append_right_inj]
                exact List.take_prefix _ _
              have := ih (filled ++ bs) hf' h
              rw [this, prefix_shift hf']
              have hD : preface.drop filled.length = bs ++ preface.drop (filled ++ bs).length := by
                have e1 : preface.drop (filled ++ bs).length =
                    (preface.drop filled.length).drop bs.length := by
                  rw [List.length_append, List.drop_drop]
                rw [e1]
                conv => lhs; rw [← List.take_append_drop bs.length (preface.drop filled.length)]
                rw [← hmatch]
              rw [hD]
              simp [List.prefix_append_right_inj]
            · -- the buffer is full: HTTP/2
              rename_i hleft
              simp only [SniffResult.ok.injEq] at h
              obtain ⟨rfl, _, _⟩ := h
              simp only [true_iff]
              have hlen : preface.length - filled.length < bs.length := by
                have : (bs.drop (min bs.length (preface.length - filled.length))) ≠ [] := by
                  simpa using hleft
                have := List.length_pos_iff.mpr this
                simp at this; omega
              have hmin : min bs.length (preface.length - filled.length) =
                  (preface.drop filled.length).length := by simp; omega
              rw [hmin, List.take_length] at hmatch
              have hb := (List.take_append_drop (preface.drop filled.length).length bs).symm
              rw [hmatch] at hb
              refine ⟨bs.drop (preface.drop filled.length).length ++ drain rest', ?_⟩
              rw [← List.append_assoc, ← hb]
    · rename_i hge
      simp only [SniffResult.ok.injEq] at h
      obtain ⟨rfl, _, _⟩ := h
      have := prefix_full hf (by omega)
      simp [this]

theorem drain_truncate (s : List Ev) : drain (truncate s) = drainAll (truncate s) := by
  induction s with
  | nil => rfl
  | cons e s ih =>
    cases e with
    | pending => simpa [truncate, drain, drainAll] using ih
    | eof => simp [truncate, drain, drainAll]
    | err => simp [truncate, drain, drainAll]
    | data bs =>
      cases bs with
      | nil => simp [truncate, drain, drainAll]
      | cons b bs => simp [truncate, drain, drainAll, ih]

theorem take_drop_app (n : Nat) (bs X : Bytes) : bs.take n ++ (bs.drop n ++ X) = bs ++ X := by
  rw [← List.append_assoc, List.take_append_drop]

/-- Sniffing loses nothing: buffer ++ rest of the script still holds every byte. -/
theorem transparent_gen (evs : List Ev) (filled : Bytes) (v : Version) (pre : Bytes) (rest : List Ev)
    (h : readVersion evs filled = .ok v pre rest) :
    pre ++ drainAll rest = filled ++ drainAll evs := by
  induction evs generalizing filled with
  | nil =>
    simp only [readVersion, SniffResult.ok.injEq] at h
    obtain ⟨_, rfl, rfl⟩ := h; rfl
  | cons ev rest' ih =>
    simp only [readVersion] at h
    split at h
    · cases ev with
      | pending => simpa [drainAll] using ih filled h
      | err => simp at h
      | eof =>
        simp only [SniffResult.ok.injEq] at h
        obtain ⟨_, rfl, rfl⟩ := h; simp [drainAll]
      | data bs =>
        simp only at h
        have hsplit : ∀ n, drainAll (if (bs.drop n).isEmpty then rest' else .data (bs.drop n) :: rest') =
            bs.drop n ++ drainAll rest' := by
          intro n
          split
          · rename_i he; simp [List.isEmpty_iff.mp he]
          · simp [drainAll]
        split at h
        · rename_i hn
          simp only [SniffResult.ok.injEq] at h
          obtain ⟨_, rfl, rfl⟩ := h
          have : bs = [] := List.eq_nil_of_length_eq_zero (by omega)
          simp [this, drainAll]
        · split at h
          · simp only [SniffResult.ok.injEq] at h
            obtain ⟨_, rfl, rfl⟩ := h
            rw [hsplit]; simp [drainAll, take_drop_app]
          · split at h
            · rename_i hleft
              have := ih _ h
              rw [this]
              have hl : bs.drop (min bs.length (preface.length - filled.length)) = [] :=
                List.isEmpty_iff.mp hleft
              have := List.take_append_drop (min bs.length (preface.length - filled.length)) bs
              rw [hl, List.append_nil] at this
              simp [drainAll, this]
            · simp only [SniffResult.ok.injEq] at h
              obtain ⟨_, rfl, rfl⟩ := h
              simp [drainAll, take_drop_app]
    · simp only [SniffResult.ok.injEq] at h
      obtain ⟨_, rfl, rfl⟩ := h; rfl

theorem error_has_err (evs : List Ev) (filled : Bytes) (h : readVersion evs filled = .error) :
    Ev.err ∈ evs := by
  induction evs generalizing filled with
  | nil => simp [readVersion] at h
  | cons ev rest ih =>
    simp only [readVersion] at h
    split at h
    · cases ev with
      | pending => exact List.mem_cons_of_mem _ (ih filled h)
      | err => simp
      | eof => simp at h
      | data bs =>
        simp only at h
        split at h
        · simp at h
        · split at h
          · simp at h
          · split at h
            · exact List.mem_cons_of_mem _ (ih _ h)
            · simp at h
    · simp at h

/-- One read through the `Rewind` conserves the stream: delivered ++ what is left = what was there;
    an error consumes nothing. -/
theorem rewindRead_conserve (pre : Bytes) (evs : List Ev) (cap : Nat) :
    ((rewindRead pre evs cap).1.getD []) ++ (rewindRead pre evs cap).2.1 ++
      drainAll (rewindRead pre evs cap).2.2 = pre ++ drainAll evs := by
  cases pre with
  | cons p ps => simp [rewindRead]
  | nil =>
    induction evs with
    | nil => simp [rewindRead, drainAll]
    | cons ev rest ih =>
      cases ev with
      | pending => simpa [rewindRead, drainAll] using ih
      | err => simp [rewindRead, drainAll]
      | eof => simp [rewindRead, drainAll]
      | data bs =>
        simp only [rewindRead, Option.getD_some, List.append_nil, List.nil_append]
        split
        · rename_i he
          have := List.take_append_drop (min bs.length cap) bs
          rw [List.isEmpty_iff.mp he, List.append_nil] at this
          simp [drainAll, this]
        · simp [drainAll, take_drop_app]

/-- While the prefix is non-empty a read delivers `min cap |prefix|` bytes of it and does not
    touch the underlying stream. -/
theorem rewindRead_prefix_first (p : Nat) (ps : Bytes) (evs : List Ev) (cap : Nat) :
    rewindRead (p :: ps) evs cap =
      (some ((p :: ps).take cap), (p :: ps).drop cap, evs) := by
  simp only [rewindRead, List.length_cons]
  by_cases h : cap ≤ ps.length + 1
  · rw [Nat.min_eq_right h]
  · have h' : ps.length + 1 ≤ cap := by omega
    have hl : (p :: ps).length ≤ cap := by simpa using h'
    rw [Nat.min_eq_left h', List.take_of_length_le hl, List.drop_of_length_le hl]
    have e : ps.length + 1 = (p :: ps).length := by simp
    rw [e, List.take_length, List.drop_length]

/-- **C18 / C08 (rewind is FIFO).** For every sequence of read capacities (including 0 and 1) the
    bytes delivered, followed by what remains, are exactly prefix ++ stream: nothing lost,
    duplicated, reordered or invented. -/
theorem C18_rewind_fifo (pre : Bytes) (evs : List Ev) (caps : List Nat) :
    (rewindReads pre evs caps).2.1 ++ (rewindReads pre evs caps).2.2.1 ++
      drainAll (rewindReads pre evs caps).2.2.2 = pre ++ drainAll evs := by
  induction caps generalizing pre evs with
  | nil => simp [rewindReads]
  | cons cap caps ih =>
    have hc := rewindRead_conserve pre evs cap
    simp only [rewindReads]
    rcases hr : rewindRead pre evs cap with ⟨out, pre', evs'⟩
    rw [hr] at hc
    cases out with
    | none => simpa using hc
    | some bs =>
      simp only
      have := ih pre' evs'
      simp only [Option.getD_some] at hc
      rw [← hc, List.append_assoc, List.append_assoc, List.append_assoc]
      congr 1
      simpa [List.append_assoc] using this

/-- **C08 (detection).** For every script: HTTP/2 exactly when the byte stream begins with the
    connection preface – however the bytes are cut into reads, with pendings anywhere. -/
theorem C08_detect (script : List Ev) (v : Version) (pre : Bytes) (rest : List Ev)
    (h : readVersion (truncate script) [] = .ok v pre rest) :
    (v = .h2 ↔ preface <+: drain (truncate script)) := by
  simpa using detect_gen (truncate script) [] (List.nil_prefix) v pre rest h

/-- **C08 (transparency).** The protocol handler sees exactly the client's bytes. -/
theorem C08_transparent (script : List Ev) (caps : List Nat)
    (h : (run script caps).version ≠ none) :
    (run script caps).bytes = drain (truncate script) := by
  unfold run at h ⊢
  cases hr : readVersion (truncate script) [] with
  | error => simp [hr] at h
  | ok v pre rest =>
    simp only []
    rw [C18_rewind_fifo, transparent_gen _ _ _ _ _ hr, drain_truncate]
    simp

/-- **C08 (the model meets the specification)** for every script and every sequence of reads. -/
theorem C08_run_spec (script : List Ev) (caps : List Nat) : spec script (run script caps) = true := by
  unfold spec verdict
  cases hv : (run script caps).version with
  | none =>
    have : hasErr script = true := by
      unfold run at hv
      cases hr : readVersion (truncate script) [] with
      | error =>
        have := error_has_err _ _ hr
        simp only [hasErr, List.any_eq_true]
        exact ⟨.err, this, by decide⟩
      | ok v pre rest => simp [hr] at hv
    simp [this]
  | some v =>
    have hb := C08_transparent script caps (by simp [hv])
    have hd : (v = .h2 ↔ preface <+: drain (truncate script)) := by
      unfold run at hv
      cases hr : readVersion (truncate script) [] with
      | error => simp [hr] at hv
      | ok v' pre rest =>
        simp [hr] at hv; subst hv
        exact C08_detect script v' pre rest hr
    simp only [hb, bne_self_eq_false, Bool.false_eq_true, ↓reduceIte]
    have : (decide (v = .h2) != preface.isPrefixOf (drain (truncate script))) = false := by
      by_cases hp : preface <+: drain (truncate script)
      · have h1 : preface.isPrefixOf (drain (truncate script)) = true := List.isPrefixOf_iff_prefix.mpr hp
        have h2 : v = .h2 := hd.mpr hp
        simp [h1, h2]
      · have h1 : preface.isPrefixOf (drain (truncate script)) = false := by
          cases hx : preface.isPrefixOf (drain (truncate script)) with
          | true => exact absurd (List.isPrefixOf_iff_prefix.mp hx) hp
          | false => rfl
        have h2 : v ≠ .h2 := fun e => hp (hd.mp e)
        simp [h1, h2]
    simp [this]

/-- Remove every `Pending` result from a script. -/
def strip (evs : List Ev) : List Ev := evs.filter (fun e => e != .pending)

/-- What matters of a sniffing result: version, replay prefix, and the remaining stream modulo pendings. -/
def essence : SniffResult → Option (Version × Bytes × List Ev)
  | .ok v pre rest => some (v, pre, strip rest)
  | .error => none

theorem strip_strip (evs : List Ev) : strip (strip evs) = strip evs := by
  simp [strip, List.filter_filter]

theorem readVersion_full (evs : List Ev) (filled : Bytes) (h : ¬ filled.length < preface.length) :
    readVersion evs filled = .ok .h2 filled evs := by
  cases evs with
  | nil => simp [readVersion, h]
  | cons e r => simp [readVersion, h]

/-- **C08 (pending reads are irrelevant).** Interleaving `Pending` results anywhere in the script
    changes neither the detected version, nor the replayed prefix, nor the remaining stream. -/
theorem C08_pending_irrelevant (evs : List Ev) (filled : Bytes) :
    essence (readVersion (strip evs) filled) = essence (readVersion evs filled) := by
  induction evs generalizing filled with
  | nil => simp [strip]
  | cons ev rest ih =>
    by_cases hlt : filled.length < preface.length
    · cases ev with
      | pending =>
        have : strip (.pending :: rest) = strip rest := by simp [strip]
        rw [this, ih]; simp [readVersion, hlt]
      | eof =>
        have : strip (.eof :: rest) = .eof :: strip rest := by simp [strip]
        rw [this]; simp [readVersion, hlt, essence, strip_strip]
      | err =>
        have : strip (.err :: rest) = .err :: strip rest := by simp [strip]
        rw [this]; simp [readVersion, hlt, essence]
      | data bs =>
        have : strip (.data bs :: rest) = .data bs :: strip rest := by simp [strip]
        rw [this]
        simp only [readVersion, hlt, ↓reduceIte]
        split
        · simp [essence, strip_strip]
        · split
          · split <;> simp [essence, strip_strip, strip]
          · split
            · exact ih _
            · simp [essence, strip_strip, strip]
    · rw [readVersion_full _ _ hlt, readVersion_full _ _ hlt]
      simp [essence, strip_strip]

/-- Non-vacuity: the preface cut into three reads with a pending in between is a script on which
    `C08_detect`'s hypothesis holds, and it is detected as HTTP/2. -/
example :
    readVersion (truncate [.data (preface.take 5), .pending, .data ((preface.drop 5).take 10),
        .data (preface.drop 15 ++ [0, 0, 4]), .eof]) [] =
      .ok .h2 preface [.data [0, 0, 4], .eof] := by
  decide

/-! ## Poll by poll: the detection future only sleeps when the stream told it to -/

/-- one `poll` of `ReadVersion`: either it is done, or it returns `Pending` with what it has so far -/
inductive PollOut
  | done (r : SniffResult)
  | pending (filled : Bytes) (rest : List Ev)
deriving Repr, DecidableEq

/-- One call of `ReadVersion::poll`: the read loop runs until the verdict is in, or until a read of the
    underlying stream returns `Pending` (`ready!`) – which is the only place it gives up the thread. -/
def pollVersion : List Ev → Bytes → PollOut
  | [], filled => .done (.ok (if filled.length < preface.length then .h1 else .h2) filled [])
  | ev :: rest, filled =>
    if filled.length < preface.length then
      match ev with
      | .pending => .pending filled rest
      | .err => .done .error
      | .eof => .done (.ok .h1 filled rest)
      | .data bs =>
        let n := min bs.length (preface.length - filled.length)
        let got := bs.take n
        let left := bs.drop n
        if n = 0 then .done (.ok .h1 filled rest)
        else if got ≠ (preface.drop filled.length).take n then
          .done (.ok .h1 (filled ++ got) (if left.isEmpty then rest else .data left :: rest))
        else if left.isEmpty then pollVersion rest (filled ++ got)
        else .done (.ok .h2 (filled ++ got) (.data left :: rest))
    else .done (.ok .h2 filled (ev :: rest))

/-- polling again after every `Pending` (which is what an executor does once the waker fires) -/
def pollAll : Nat → List Ev → Bytes → Option SniffResult
  | 0, _, _ => none
  | fuel + 1, evs, filled =>
    match pollVersion evs filled with
    | .done r => some r
    | .pending f rest => pollAll fuel rest f

/-- **C08 (no sleep without a wake-up).** A poll of the detection future returns `Pending` only when the
    last thing it did was a read of the underlying stream that returned `Pending` – the read that
    registered the task's waker; everything read before that in the same poll is kept (`filled`), and the
    stream continues right after that event. -/
theorem C08_pending_only_after_inner_pending (evs : List Ev) (filled f : Bytes) (rest : List Ev)
    (h : pollVersion evs filled = .pending f rest) :
    ∃ before, evs = before ++ .pending :: rest ∧ (∀ e ∈ before, ∃ bs, e = .data bs) ∧ f.length < preface.length := by
  induction evs generalizing filled with
  | nil => simp [pollVersion] at h
  | cons ev tl ih =>
    by_cases hlt : filled.length < preface.length
    · cases ev with
      | pending =>
        simp only [pollVersion, hlt, ↓reduceIte, PollOut.pending.injEq] at h
        obtain ⟨h1, h2⟩ := h
        subst h1; subst h2
        exact ⟨[], rfl, (fun _ he => by cases he), hlt⟩
      | eof => simp [pollVersion, hlt] at h
      | err => simp [pollVersion, hlt] at h
      | data bs =>
        simp only [pollVersion, hlt, ↓reduceIte] at h
        split at h
        · cases h
        · split at h
          · cases h
          · split at h
            · obtain ⟨before, hb, hd, hl⟩ := ih _ h
              refine ⟨.data bs :: before, by rw [hb]; rfl, ?_, hl⟩
              intro e he
              rcases List.mem_cons.mp he with he | he
              · exact ⟨bs, he⟩
              · exact hd e he
            · cases h
    · simp [pollVersion, hlt] at h

/-- one poll is a prefix of the whole detection -/
theorem readVersion_of_poll (evs : List Ev) (filled : Bytes) :
    readVersion evs filled = (match pollVersion evs filled with | .done r => r | .pending f rest => readVersion rest f) := by
  induction evs generalizing filled with
  | nil => simp [pollVersion, readVersion]
  | cons ev tl ih =>
    by_cases hlt : filled.length < preface.length
    · cases ev with
      | pending => simp [pollVersion, readVersion, hlt]
      | eof => simp [pollVersion, readVersion, hlt]
      | err => simp [pollVersion, readVersion, hlt]
      | data bs =>
        simp only [pollVersion, readVersion, hlt, ↓reduceIte]
        split
        · rfl
        · split
          · rfl
          · split
            · exact ih _
            · rfl
    · simp [pollVersion, readVersion, hlt]

/-- … and polling again after each wake-up reaches exactly the verdict of `readVersion` (the scripts of the
    other theorems say nothing about how many polls it takes). -/
theorem C08_repolling_reaches_the_verdict : ∀ (n : Nat) (evs : List Ev) (filled : Bytes), evs.length < n →
    pollAll n evs filled = some (readVersion evs filled)
  | 0, _, _, h => by omega
  | n + 1, evs, filled, h => by
    have hr := readVersion_of_poll evs filled
    simp only [pollAll]
    cases hp : pollVersion evs filled with
    | done r => rw [hp] at hr; simp only [] at hr ⊢; rw [hr]
    | pending f rest =>
      rw [hp] at hr
      simp only [] at hr ⊢
      obtain ⟨before, hb, _, _⟩ := C08_pending_only_after_inner_pending evs filled f rest hp
      have hlen : rest.length < n := by
        have : evs.length = before.length + (rest.length + 1) := by rw [hb]; simp
        omega
      rw [hr]
      exact C08_repolling_reaches_the_verdict n rest f hlen

end Hd.Sniff

