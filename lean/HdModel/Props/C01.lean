import HdModel.Lemmas.E2ENoLoss
/-! # C01 — requests and responses arrive intact and correctly matched end to end

Theorems about `Hd.E2E.step` for **every** list of requests and **every** schedule (`List Op`):
any interleaving of issuing requests on any eligible pooled or new connection, server reads,
handler completions in any order, client reads and cancellations at any point.
The invariants are in `Lemmas/E2EInv.lean` (matching, integrity) and `Lemmas/E2ENoLoss.lean`
(nothing is lost). -/
namespace Hd.E2E

/-- **C01 (matching).** Under every schedule, whatever a caller receives is what the server's
    handler produced for that caller's own request. -/
theorem C01_no_crosstalk (reqs : List Req) (ops : List Op) (i : Nat) (r : Resp)
    (h : (i, r) ∈ (run reqs ops).delivered) : ∃ q, lookup reqs i = some q ∧ q.id = i ∧ r = serve q := by
  obtain ⟨hinv, hreqs⟩ := inv_run reqs ops
  obtain ⟨q, hq, hr⟩ := hinv.delivered (i, r) h
  rw [hreqs] at hq
  exact ⟨q, hq, lookup_some_id hq, hr⟩

/-- **C01 (requests intact).** Under every schedule, every request the server handles is one the
    callers sent, exactly as sent. -/
theorem C01_server_sees_what_was_sent (reqs : List Req) (ops : List Op) (q : Req)
    (h : q ∈ (run reqs ops).serverLog) : lookup reqs q.id = some q := by
  obtain ⟨hinv, hreqs⟩ := inv_run reqs ops
  have := hinv.log q h
  rwa [hreqs] at this

/-- The response a caller gets names its own id and origin. -/
theorem C01_response_identity (reqs : List Req) (ops : List Op) (i : Nat) (r : Resp)
    (h : (i, r) ∈ (run reqs ops).delivered) : r.forId = i ∧ ∃ q, lookup reqs i = some q ∧ r.origin = q.origin := by
  obtain ⟨q, hq, hid, hr⟩ := C01_no_crosstalk reqs ops i r h
  subst hr
  exact ⟨hid, q, hq, rfl⟩

/-- The hypothesis that the pool never hands out a busy HTTP/1 connection is needed: without it
    (`stepBad`) a caller receives another request's response. -/
theorem C01_busy_handout_crosstalks :
    let reqs : List Req := [⟨1, false, 0, 10, false⟩, ⟨2, false, 0, 20, false⟩]
    let s := [Op.issueNew 1, .issue 2 0, .srvRead 0, .srvReply 0 0, .cliRead 0].foldl stepBad (init reqs)
    s.delivered = [(2, serve ⟨1, false, 0, 10, false⟩)] := by decide

/-- Non-vacuity: a schedule with pooled reuse, an HTTP/2 connection shared by two requests answered
    out of order, and a cancellation delivers the right responses. -/
example :
    let reqs : List Req := [⟨1, false, 0, 10, false⟩, ⟨2, false, 0, 20, false⟩, ⟨3, true, 1, 30, false⟩, ⟨4, true, 1, 40, false⟩, ⟨5, false, 0, 50, true⟩]
    (run reqs [.issueNew 1, .srvRead 0, .srvReply 0 0, .cliRead 0, .issue 2 0, .issueNew 3, .issue 4 1, .srvRead 1, .srvRead 1,
               .srvReply 1 1, .cliRead 1, .srvRead 0, .srvReply 0 0, .cliRead 0, .issue 5 0, .cancel 5, .srvReply 1 0, .cliRead 1]).delivered
      = [(1, serve ⟨1, false, 0, 10, false⟩), (4, serve ⟨4, true, 1, 40, false⟩), (2, serve ⟨2, false, 0, 20, false⟩), (3, serve ⟨3, true, 1, 30, false⟩)] := by
  decide

/-- **C01 (nothing is lost).** Under every schedule, at every moment, every request that has been
    issued has either been answered, or been cancelled by its caller, or still has a message in
    flight on a connection that is open: no request is silently dropped, and no connection carrying
    an uncancelled request is ever closed by the client side. -/
theorem C01_nothing_lost (reqs : List Req) (ops : List Op) (i : Nat) (h : i ∈ (run reqs ops).issued) :
    (∃ r, (i, r) ∈ (run reqs ops).delivered) ∨ i ∈ (run reqs ops).cancelled ∨ Located (run reqs ops) i :=
  (noLoss_run reqs ops).all i h

/-- all queues of all open connections are empty -/
def Quiescent (s : St) : Prop :=
  ∀ c ∈ s.conns, c.alive = true → c.toServer = [] ∧ c.inHandler = [] ∧ c.toClient = []

/-- **C01 (completion).** Whenever the system has come to rest, every request that was issued and
    not cancelled has received its response – and by `C01_no_crosstalk` it is the right one. -/
theorem C01_quiescent_all_delivered (reqs : List Req) (ops : List Op) (hq : Quiescent (run reqs ops))
    (i : Nat) (h : i ∈ (run reqs ops).issued) (hc : i ∉ (run reqs ops).cancelled) :
    ∃ q, lookup reqs i = some q ∧ (i, serve q) ∈ (run reqs ops).delivered := by
  rcases C01_nothing_lost reqs ops i h with ⟨r, hr⟩ | h' | ⟨c, hcm, ha, hi⟩
  · obtain ⟨q, hq', _, rfl⟩ := C01_no_crosstalk reqs ops i r hr
    exact ⟨q, hq', hr⟩
  · exact absurd h' hc
  · exfalso
    obtain ⟨e1, e2, e3⟩ := hq c hcm ha
    rcases hi with ⟨q, hq', _⟩ | ⟨_, p, hp, _⟩ | ⟨_, hne, _⟩
    · simp [e1, e2] at hq'
    · simp [e3] at hp
    · exact hne e3

/-- Progress is always possible for a located request: some server or client step on its connection
    changes the state (the model has no state in which an open connection holds a message and no
    step applies to it). -/
theorem C01_located_can_move (s : St) (i : Nat) (h : Located s i) :
    ∃ c ∈ s.conns, c.toServer ≠ [] ∨ c.inHandler ≠ [] ∨ c.toClient ≠ [] := by
  obtain ⟨c, hc, _, hi⟩ := h
  refine ⟨c, hc, ?_⟩
  rcases hi with ⟨q, hq, _⟩ | ⟨_, p, hp, _⟩ | ⟨_, hne, _⟩
  · simp only [List.mem_append] at hq
    rcases hq with hq | hq
    · exact Or.inl (List.ne_nil_of_mem hq)
    · exact Or.inr (Or.inl (List.ne_nil_of_mem hq))
  · exact Or.inr (Or.inr (List.ne_nil_of_mem hp))
  · exact Or.inr (Or.inr hne)

/-- Non-vacuity of the completion theorem: the canonical schedule of three requests comes to rest
    with all three delivered. -/
example :
    let reqs : List Req := [⟨1, false, 0, 10, false⟩, ⟨2, true, 0, 20, false⟩, ⟨3, false, 1, 30, false⟩]
    let s := run reqs (canonical reqs)
    s.issued.length = 3 ∧ s.delivered.length = 3 ∧ s.conns.all (fun c => c.toServer.isEmpty && c.inHandler.isEmpty && c.toClient.isEmpty) = true := by
  decide

end Hd.E2E
