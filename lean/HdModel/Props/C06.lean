import HdModel.Lemmas.PoolOrigin
/-! # C06 — connections are never shared across origins

`Lemmas/PoolKeys.lean`: `tokenOf` mirrors `TokenMap::insert` – origins (scheme, authority; compared
case-insensitively by the `http` crate, hence canonical `KeyId`s here) get distinct non-zero tokens
(`C06_tokenOf`, `C06_tokens_distinct`). `Lemmas/PoolOrigin.lean`: the invariant `OriginInv` – every
connection in an idle list, in a waiter's channel, popped into a checkout, held by a request, or
waiting in a `WhenReady` task belongs to the origin of the token it is filed under – is kept by
every pool primitive and every operation. The theorems below are its consequences for **every**
operation sequence. The counter's wrap-around at `usize::MAX` is out of the model. -/
namespace Hd.Pool

theorem run_coSame : ∀ (ops : List Op) (s : State), OriginInv s → CoSame s.co (run s ops).1.co
  | [], _, _ => CoSame.refl _
  | op :: ops, s, h => by
    simp only [run]
    exact (step_coSame s op h).trans (run_coSame ops _ (step_originInv s op h))

/-- **C06 (reachable states).** In every state reachable by any operation sequence, the connection a
    request holds belongs to the origin of that request's checkout. -/
theorem C06_held_same_origin (cfg : Config) (ops : List Op) (r : ReqId) (p : Pooled)
    (h : (run (init cfg) ops).1.held r = some p) :
    ∃ chk conn, (run (init cfg) ops).1.co r = some chk ∧ (run (init cfg) ops).1.conns p.conn = some conn ∧
      conn.origin = chk.key := by
  have hinv := run_originInv ops (init cfg) (originInv_init cfg)
  obtain ⟨chk, hco, hct, _⟩ := hinv.held r p h
  obtain ⟨conn, hc, ho⟩ := hct.origin_eq hinv.keysOk (hinv.co.1 r chk hco)
  exact ⟨chk, conn, hco, hc, ho⟩

/-- **C06.** Whatever happened before request `r` was issued for origin `k` (`ops1`) and whatever
    happens afterwards (`ops2`: any interleaving of polls, cancellations, dial results, releases,
    readiness and close events, task runs, clock ticks and other requests for any origins), a
    connection `r` is ever given belongs to origin `k`. -/
theorem C06_request_gets_own_origin (cfg : Config) (ops1 ops2 : List Op) (r : ReqId) (k : KeyId) (mux : Bool)
    (p : Pooled) (hnew : (run (init cfg) ops1).1.co r = none)
    (h : (run (step (run (init cfg) ops1).1 (.issue r k mux)).1 ops2).1.held r = some p) :
    ∃ conn, (run (step (run (init cfg) ops1).1 (.issue r k mux)).1 ops2).1.conns p.conn = some conn ∧ conn.origin = k := by
  have h1 := run_originInv ops1 (init cfg) (originInv_init cfg)
  have h2 := step_originInv _ (.issue r k mux) h1
  have h3 := run_originInv ops2 _ h2
  -- the checkout created by `issue` has key `k`
  obtain ⟨chk0, hco0, hk0⟩ := issue_co (run (init cfg) ops1).1 r k mux
  have hstep : (step (run (init cfg) ops1).1 (.issue r k mux)).1.co r = some chk0 := by
    simp only [step, hnew]
    rw [hco0]; simp
  -- … and keeps it
  obtain ⟨chk', hco', _, hk'⟩ := run_coSame ops2 _ h2 r chk0 hstep
  obtain ⟨chk, hco, hct, _⟩ := h3.held r p h
  rw [hco'] at hco; cases hco
  obtain ⟨conn, hc, ho⟩ := hct.origin_eq h3.keysOk (h3.co.1 r chk' hco')
  exact ⟨conn, hc, by rw [ho, hk', hk0]⟩

/-- **C06 (pool contents).** In every reachable state every idle connection filed under a token
    belongs to the one origin that owns the token. -/
theorem C06_idle_same_origin (cfg : Config) (ops : List Op) (t : Token) (c : ConnId) (a : Nat)
    (h : (c, a) ∈ (run (init cfg) ops).1.idle t) :
    ∃ k conn, (run (init cfg) ops).1.keys.lookup k = some t ∧ (run (init cfg) ops).1.conns c = some conn ∧ conn.origin = k :=
  (run_originInv ops (init cfg) (originInv_init cfg)).idle t c a h

/-- Non-vacuity: two origins, a released HTTP/1 connection of the first is idle, a request for the
    second does not get it (it dials), a request for the first does. -/
example :
    let ops : List Op := [.issue 0 7 false, .poll 0, .dialDone 0 (.ok .asRequested), .poll 0, .finish 0, .connReady 0, .run,
                          .issue 1 9 false, .poll 1, .issue 2 7 false, .poll 2]
    let s := (run (init {}) ops).1
    s.held 2 = some ⟨0, 1, true⟩ ∧ s.held 1 = none ∧ (s.dial 1).started = true ∧ (s.dial 2).started = false := by
  decide

end Hd.Pool
