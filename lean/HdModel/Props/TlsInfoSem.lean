import HdModel.Model.TlsInfo
/-! The lock discipline of the `TlsInfo` model as an invariant of every reachable state: released permits go to the
    queue first, so while somebody waits nothing is free, and every waiter still misses at least one permit.
    (This is what makes the `acquire` fast path of the model - take what is free without looking at the queue -
    the same as tokio's, which looks at the queue.) -/
namespace Hd.TlsInfo

def EntriesOk (q : List (Nat × Nat × Nat)) : Prop := ∀ e ∈ q, 0 < e.2.2 ∧ e.2.2 ≤ e.2.1

def SemInv (s : St) : Prop := EntriesOk s.queue ∧ (s.queue ≠ [] → s.free = 0)

@[simp] theorem setPhase_queue (s : St) (i : Nat) (p : Phase) : (setPhase s i p).queue = s.queue := rfl
@[simp] theorem setPhase_free (s : St) (i : Nat) (p : Phase) : (setPhase s i p).free = s.free := rfl

theorem setPhase_inv (s : St) (i : Nat) (p : Phase) (h : SemInv s) : SemInv (setPhase s i p) := h

theorem release_inv : ∀ (fuel : Nat) (s : St), s.queue.length ≤ fuel → EntriesOk s.queue → SemInv (release fuel s)
  | 0, s, hl, he => by
    have : s.queue = [] := List.eq_nil_of_length_eq_zero (by omega)
    exact ⟨he, fun hne => absurd this hne⟩
  | fuel + 1, s, hl, he => by
    unfold release
    cases hq : s.queue with
    | nil => simp only []; exact ⟨he, fun hne => absurd hq hne⟩
    | cons e rest =>
      obtain ⟨j, want, missing⟩ := e
      simp only []
      have hrest : EntriesOk rest := fun x hx => he x (by rw [hq]; exact List.mem_cons_of_mem _ hx)
      have hhead := he (j, want, missing) (by rw [hq]; exact List.mem_cons_self)
      simp only [] at hhead
      split
      · exact ⟨he, fun _ => by assumption⟩
      · split
        · apply release_inv fuel
          · simp only [setPhase_queue]; rw [hq] at hl; simp at hl; omega
          · simpa using hrest
        · refine ⟨?_, fun _ => rfl⟩
          intro x hx
          simp only [List.mem_cons] at hx
          rcases hx with rfl | hx
          · simp only []; omega
          · exact hrest x hx

theorem giveBack_inv (s : St) (n : Nat) (h : EntriesOk s.queue) : SemInv (giveBack s n) := by
  unfold giveBack
  exact release_inv _ _ (by simp) h

theorem acquire_inv (s : St) (i want : Nat) (hw : 0 < want) (h : SemInv s) : SemInv (acquire s i want).2 := by
  unfold acquire
  split
  · refine ⟨h.1, fun hne => ?_⟩
    have := h.2 hne
    simp only [] at *
    omega
  · refine ⟨?_, fun _ => rfl⟩
    intro x hx
    simp only [List.mem_append, List.mem_singleton] at hx
    rcases hx with hx | rfl
    · exact h.1 x hx
    · simp only []; omega

theorem writePhase_inv (s : St) (i : Nat) (h : SemInv s) : SemInv (writePhase s i).2 := by
  unfold writePhase
  cases hc : s.ch with
  | pending sent =>
    cases sent
    · exact setPhase_inv _ _ _ h
    · exact giveBack_inv _ _ h.1
  | received => exact giveBack_inv _ _ h.1
  | empty => exact giveBack_inv _ _ h.1

theorem readPhase_inv (s : St) (i : Nat) (h : SemInv s) : SemInv (readPhase s i).2 := by
  unfold readPhase
  cases hc : s.ch with
  | received => exact giveBack_inv _ _ h.1
  | empty => exact giveBack_inv _ _ h.1
  | pending sent =>
    simp only []
    have h1 : SemInv (acquire (giveBack s 1) i maxP).2 := acquire_inv _ _ _ (by decide) (giveBack_inv _ _ h.1)
    generalize acquire (giveBack s 1) i maxP = a at h1
    obtain ⟨ok, s1⟩ := a
    simp only [] at h1 ⊢
    split
    · exact writePhase_inv _ _ h1
    · exact setPhase_inv _ _ _ h1

theorem filter_ok (q : List (Nat × Nat × Nat)) (p : (Nat × Nat × Nat) → Bool) (h : EntriesOk q) : EntriesOk (q.filter p) :=
  fun x hx => h x (List.mem_filter.mp hx).1

theorem step_inv (s : St) (op : Op) (h : SemInv s) : SemInv (step s op).2 := by
  cases op with
  | new i => exact h
  | send => simp only [step]; split <;> exact h
  | poll i =>
    simp only [step]
    cases hp : s.phase i with
    | fresh =>
      simp only []
      have h1 : SemInv (acquire s i 1).2 := acquire_inv _ _ _ (by decide) h
      generalize acquire s i 1 = a at h1
      obtain ⟨ok, s1⟩ := a
      simp only [] at h1 ⊢
      split
      · exact readPhase_inv _ _ h1
      · exact setPhase_inv _ _ _ h1
    | waitRead => exact h
    | waitWrite => exact h
    | grantedRead => exact readPhase_inv s i h
    | grantedWrite => exact writePhase_inv s i h
    | holding => exact writePhase_inv s i h
    | done => exact h
  | drop i =>
    simp only [step]
    cases hp : s.phase i with
    | fresh => exact setPhase_inv _ _ _ h
    | done => exact setPhase_inv _ _ _ h
    | waitRead => exact giveBack_inv _ _ (filter_ok _ _ h.1)
    | waitWrite => exact giveBack_inv _ _ (filter_ok _ _ h.1)
    | grantedRead => exact giveBack_inv _ _ h.1
    | grantedWrite => exact giveBack_inv _ _ h.1
    | holding => exact giveBack_inv _ _ h.1

/-- **Lock discipline, every reachable state.** Whatever requests do (ask, be polled, be cancelled at any point) and
    whenever the acceptor sends: while any request waits for the lock no permit is free, and every waiter still
    misses at least one permit and never more than it asked for. -/
theorem C20_lock_discipline (ops : List Op) (s : St) (h : SemInv s) : SemInv (run s ops).2 := by
  induction ops generalizing s with
  | nil => exact h
  | cons op ops ih => simp only [run]; exact ih _ (step_inv s op h)

theorem C20_lock_discipline_tls (ops : List Op) : SemInv (run initTls ops).2 :=
  C20_lock_discipline ops _ ⟨fun _ h => by simp [initTls] at h, fun h => by simp [initTls] at h⟩

theorem C20_lock_discipline_plain (ops : List Op) : SemInv (run initPlain ops).2 :=
  C20_lock_discipline ops _ ⟨fun _ h => by simp [initPlain] at h, fun h => by simp [initPlain] at h⟩

/-- non-vacuity: a reachable state with a writer holding the lock and two requests queued behind it -/
example : let s := (run initTls [.new 0, .poll 0, .new 1, .poll 1, .new 2, .poll 2]).2
    s.queue.length = 2 ∧ s.free = 0 := by decide

end Hd.TlsInfo
