import HdModel.Spec.Tls
import HdModel.Model.TlsPool
import HdModel.Props.Builder
/-! # C12 — with TLS configured, https/wss traffic is never sent in the clear

Theorems about `Hd.Tls.run` for **every** case: any scheme string, any host string, any peer
behaviour, any ALPN offer on either side, with or without a TLS configuration, whatever rustls
thinks of the host as a server name. -/
namespace Hd.Tls

theorem lower_https : "https".toList.map Char.toLower = "https".toList := by decide
theorem lower_wss : "wss".toList.map Char.toLower = "wss".toList := by decide

/-- The code's scheme test (`eq_ignore_ascii_case`) is the property's reading of
    "scheme is https or wss" for every scheme string. -/
theorem C12_scheme_test (c : Case) : usesTls c = wantsTls c := by
  simp only [usesTls, wantsTls, schemeUsesTls, eqIgnoreCase, lower_https, lower_wss]

/-- **C12 (never in the clear).** With a TLS configuration and an https/wss scheme (in any
    spelling) the caller never gets an unwrapped stream, the peer never sees anything but TLS
    records, the caller's bytes never appear on the wire, and nothing panics. -/
theorem C12_never_in_clear (c : Case) (h : wantsTls c = true) :
    (run c).res ≠ .okPlain ∧ (run c).res ≠ .panic ∧ (run c).wire ≠ .ascii ∧ (run c).wire ≠ .other ∧
      (run c).leak = false := by
  have hu : usesTls c = true := by rw [C12_scheme_test]; exact h
  simp only [run, hu, if_true, runTls]
  split
  · simp
  · split
    · cases firstFlightSeen c.peer <;> simp
    · split <;> cases firstFlightSeen c.peer <;> simp

/-- **C12 (verified peer, right name).** A stream is handed out only after a handshake with a
    TLS server whose certificate chains to a trusted root and covers the host of the request
    URI; the server name offered is that host. -/
theorem C12_stream_means_verified (c : Case) (h : wantsTls c = true) (hr : (run c).res = .okTls) :
    isTlsServer c.peer = true ∧ certOk c = true ∧ c.nameValid = true ∧
      (hostKind c.host = .dns → (run c).sni = some (dropDot c.host)) ∧
      (hostKind c.host ≠ .dns → (run c).sni = none) ∧ (run c).app = true := by
  have hu : usesTls c = true := by rw [C12_scheme_test]; exact h
  simp only [run, hu, if_true, runTls] at hr ⊢
  split at hr
  · simp at hr
  · rename_i hnv
    split at hr
    · rename_i hok
      have hok' := hok
      simp only [handshakeOk, Bool.and_eq_true] at hok'
      have hseen : firstFlightSeen c.peer = true := by
        cases hp : c.peer <;> simp_all [isTlsServer, firstFlightSeen]
      simp only [hnv, hok, hseen, if_true, sniOf]
      refine ⟨hok'.1.1, hok'.1.2, by simpa using hnv, ?_, ?_, rfl⟩
      · intro hk; simp [hk]
      · intro hk; simp [hk]
    · split at hr <;> simp at hr

/-- **C12 (no fallback).** When the handshake cannot be completed — untrusted or mismatching
    certificate, no common ALPN protocol, a peer that closes, truncates, alerts, speaks plaintext
    or stays silent, or a host rustls does not accept as a server name — the caller gets an error
    (or is still waiting), never a stream. -/
theorem C12_failure_is_error (c : Case) (h : wantsTls c = true)
    (hf : handshakeOk c = false ∨ c.nameValid = false) :
    (run c).res = .errHs ∨ (run c).res = .errName ∨ (run c).res = .timeout := by
  have hu : usesTls c = true := by rw [C12_scheme_test]; exact h
  simp only [run, hu, if_true, runTls]
  split
  · simp
  · rename_i hnv
    rcases hf with hf | hf
    · simp only [hf, Bool.false_eq_true, if_false]
      split <;> simp
    · simp [hf] at hnv

/-- **C12 (no spurious failure).** A trusted, matching certificate and compatible ALPN give a
    stream with the negotiated protocol. -/
theorem C12_success (c : Case) (h : wantsTls c = true) (hok : handshakeOk c = true) (hnv : c.nameValid = true) :
    (run c).res = .okTls ∧ (run c).wire = .tls ∧ some (run c).alpn = alpnPick c.alpnC c.alpnS := by
  have hu : usesTls c = true := by rw [C12_scheme_test]; exact h
  have hseen : firstFlightSeen c.peer = true := by
    simp only [handshakeOk, Bool.and_eq_true] at hok
    cases hp : c.peer <;> simp_all [isTlsServer, firstFlightSeen]
  simp only [run, hu, if_true, runTls, hnv, hok, hseen, Bool.not_true, Bool.false_eq_true, if_false]
  simp only [handshakeOk, Bool.and_eq_true] at hok
  obtain ⟨x, hx⟩ := Option.isSome_iff_exists.mp hok.2
  simp [hx]

/-- **C12 (other requests are not wrapped).** Without a TLS configuration, or with any other
    scheme, the inner transport's stream is returned as it is. -/
theorem C12_others_not_wrapped (c : Case) (h : wantsTls c = false) :
    (run c).res = .okPlain ∧ (run c).wire ≠ .tls ∧ (run c).sni = none := by
  have hu : usesTls c = false := by rw [C12_scheme_test]; exact h
  simp only [run, hu, Bool.false_eq_true, if_false, runPlain]
  cases firstFlightSeen c.peer <;> simp

/-- **C12 (no panic)** for every scheme and host string. -/
theorem C12_no_panic (c : Case) : (run c).res ≠ .panic := by
  simp only [run, runTls, runPlain]
  split
  · split
    · simp
    · split
      · simp
      · split <;> simp
  · simp

theorem run_sni_cases (c : Case) (hu : usesTls c = true) : (run c).sni = none ∨ (run c).sni = sniOf c := by
  simp only [run, hu, if_true, runTls]
  split
  · simp
  · split
    · cases firstFlightSeen c.peer <;> simp
    · split <;> cases firstFlightSeen c.peer <;> simp

theorem sniOf_matches (c : Case) (s : String) (h : sniOf c = some s) : sniMatchesHost c s = true := by
  unfold sniOf at h
  split at h
  · cases h; simp [sniMatchesHost]
  · cases h

/-- The executable model satisfies the decidable specification the implementation's
    observations are checked against. -/
theorem C12_run_spec (c : Case) : specOk c (run c) = true := by
  have hnp := C12_no_panic c
  simp only [specOk, verdict]
  cases hw : wantsTls c
  · obtain ⟨h1, h2, _⟩ := C12_others_not_wrapped c hw
    simp [h1, h2]
  · obtain ⟨h1, _, h3, h4, h5⟩ := C12_never_in_clear c hw
    have hres : ((run c).res == Res.panic) = false := by simpa using hnp
    simp only [hres, Bool.false_eq_true, if_false, if_true]
    by_cases hok : (run c).res = .okTls
    · obtain ⟨a, b, nv, d, e, f⟩ := C12_stream_means_verified c hw hok
      by_cases hk : hostKind c.host = .dns
      · have hs := d hk
        simp [hok, h3, h4, h5, a, b, f, hk, hs, sniMatchesHost, sniBad]
      · have hs := e hk
        simp [hok, h3, h4, h5, a, b, f, hk, hs, sniBad]
    · have hne : ((run c).res == Res.okTls) = false := by simpa using hok
      have h1' : ((run c).res == Res.okPlain) = false := by simpa using h1
      have h3' : ((run c).wire == Wire.ascii) = false := by simpa using h3
      have h4' : ((run c).wire == Wire.other) = false := by simpa using h4
      simp only [hne, h1', h3', h4', h5, Bool.or_false, Bool.false_eq_true, if_false, Bool.false_and]
      have hsni : sniBad c (run c).sni = false := by
        have hu : usesTls c = true := by rw [C12_scheme_test]; exact hw
        rcases run_sni_cases c hu with h | h
        · rw [h]; rfl
        · cases hs : (run c).sni with
          | none => rfl
          | some s => simp [sniBad, sniOf_matches c s (h ▸ hs)]
      simp only [hsni, Bool.false_eq_true, if_false]
      by_cases hh : handshakeOk c = true ∧ c.nameValid = true
      · exact absurd (C12_success c hw hh.1 hh.2).1 hok
      · cases h1 : handshakeOk c <;> cases h2 : c.nameValid <;> simp_all

/-! Non-vacuity: concrete cases meeting the hypotheses. -/
example : wantsTls { cfg := true, alpnC := [], scheme := "WSS", host := "[::1]", peer := .good, alpnS := [], nameValid := true } = true := by decide
example : (run { cfg := true, alpnC := ["h2"], scheme := "https", host := "www.example.com", peer := .good, alpnS := ["h2", "h11"], nameValid := true }).res = .okTls := by decide
example : (run { cfg := true, alpnC := [], scheme := "https", host := "example.com", peer := .untrusted, alpnS := [], nameValid := true }).res = .errHs := by decide
example : (run { cfg := true, alpnC := [], scheme := "https", host := "exa$mple.com", peer := .good, alpnS := [], nameValid := false }).res = .errName := by decide

end Hd.Tls

/-! ## The pooled client: a secure request only ever travels on a connection made for a secure scheme -/
namespace Hd.TlsPool
open Hd.Tls

/-- the TLS decision depends on the scheme only up to ASCII case -/
theorem schemeUsesTls_congr {a b : String} (h : eqIgnoreCase a b = true) : schemeUsesTls a = schemeUsesTls b := by
  unfold schemeUsesTls eqIgnoreCase at *
  have : a.toList.map Char.toLower = b.toList.map Char.toLower := by simpa using h
  rw [this]

/-- the connection a request goes out on was made for a scheme with the same key -/
theorem send_conn (sameKey : String → String → Bool) (hrefl : ∀ s, sameKey s s = true) (cs : Conns) (scheme : String) :
    ∃ c, (send sameKey cs scheme).1[(send sameKey cs scheme).2]? = some c ∧ sameKey c scheme = true := by
  unfold send
  cases h : cs.findIdx? (sameKey · scheme) with
  | some i =>
    simp only []
    obtain ⟨hi, hp⟩ := List.findIdx?_eq_some_iff_getElem.mp h |>.imp (fun _ h => h.1)
    exact ⟨cs[i], by simp [hi], hp⟩
  | none =>
    simp only []
    exact ⟨scheme, by simp, hrefl scheme⟩

/-- **C12 (pooled).** Whatever connections the pool already holds for the authority (any history), and
    for any key comparison that never identifies two schemes differing by more than ASCII case – the
    `http` crate's does not –, an https/wss request goes out on a connection that was made for an
    https/wss request, i.e. one on which TLS was set up (`C12_never_in_clear` for the request that made
    it); and a request with any other scheme never borrows a TLS connection's identity either. -/
theorem C12_pooled_secure_on_tls (sameKey : String → String → Bool) (hrefl : ∀ s, sameKey s s = true)
    (hkey : ∀ a b, sameKey a b = true → eqIgnoreCase a b = true) (cs : Conns) (scheme : String) :
    ∃ c, (send sameKey cs scheme).1[(send sameKey cs scheme).2]? = some c ∧ wireOf c = wireOf scheme := by
  obtain ⟨c, h1, h2⟩ := send_conn sameKey hrefl cs scheme
  exact ⟨c, h1, by unfold wireOf; rw [schemeUsesTls_congr (hkey c scheme h2)]⟩

/-- … and the key comparison has to be that fine: with one that folds `wss` onto `http` (seed C12-a3) the
    second request of `http, wss` goes out on the cleartext connection. -/
theorem C12_pooled_needs_scheme_in_key :
    let fold := fun (a b : String) => (if a == "wss" then "http" else a) == (if b == "wss" then "http" else b)
    (runSeq fold [] ["http", "wss"]).2 = [0, 0] ∧ wireOf ((runSeq fold [] ["http", "wss"]).1[0]!) = .ascii := by
  decide

example : (runSeq exact [] ["https", "ws", "wss", "ws", "wss"]) = (["https", "ws", "wss"], [0, 1, 2, 1, 2]) := by decide

end Hd.TlsPool

