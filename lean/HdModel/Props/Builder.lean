import HdModel.Model.Builder
/-! # The client builder keeps what it was told (configuration glue for C04, C05, C12, C15, C19)

Every property about the pool, the request timeout, redirects or TLS is a property of the client *as configured*. These
theorems say that, in the model of `src/client/builder.rs`, a builder call changes nothing but what it is about - in
particular the calls that rebuild the builder value because they change one of its type parameters - so after any
sequence of calls each setting is what the last call about it said. The `cfgp`, `toc` and `tlsp` streams run the real
builder through such sequences and compare the client's behaviour with the configuration this model computes. -/
namespace Hd.Builder

theorem apply_pool (b : B) (c : Call) : (apply b c).pool = (poolSays b.pool c).getD b.pool := by
  cases c <;> rfl

theorem apply_timeout (b : B) (c : Call) : (apply b c).timeout = (timeoutSays c).getD b.timeout := by
  cases c <;> rfl

theorem apply_redirect (b : B) (c : Call) : (apply b c).redirect = (redirectSays c).getD b.redirect := by
  cases c <;> rfl

theorem apply_tls (b : B) (c : Call) : (apply b c).tls = (tlsSays c).getD b.tls := by
  cases c <;> rfl

theorem apply_userAgent (b : B) (c : Call) : (apply b c).userAgent = ((uaSays c).map some).getD b.userAgent := by
  cases c <;> rfl

/-- **A setting survives every call that is not about it** - whatever comes after `with_pool(cfg)`, as long as it is not
    another pool call, the pool configuration in effect is `cfg`; likewise for the others. -/
theorem pool_survives (b : B) (cs : List Call) (hq : ∀ c ∈ cs, ∀ cur, poolSays cur c = none) : (run b cs).pool = b.pool := by
  induction cs generalizing b with
  | nil => rfl
  | cons c cs ih =>
    simp only [run, List.foldl_cons]
    have h1 : (apply b c).pool = b.pool := by rw [apply_pool, hq c (by simp) b.pool]; rfl
    have := ih (apply b c) (fun c' hc' => hq c' (by simp [hc']))
    simp only [run] at this
    rw [this, h1]

theorem timeout_survives (b : B) (cs : List Call) (hq : ∀ c ∈ cs, timeoutSays c = none) : (run b cs).timeout = b.timeout := by
  induction cs generalizing b with
  | nil => rfl
  | cons c cs ih =>
    simp only [run, List.foldl_cons]
    have h1 : (apply b c).timeout = b.timeout := by rw [apply_timeout, hq c (by simp)]; rfl
    have := ih (apply b c) (fun c' hc' => hq c' (by simp [hc']))
    simp only [run] at this
    rw [this, h1]

theorem redirect_survives (b : B) (cs : List Call) (hq : ∀ c ∈ cs, redirectSays c = none) : (run b cs).redirect = b.redirect := by
  induction cs generalizing b with
  | nil => rfl
  | cons c cs ih =>
    simp only [run, List.foldl_cons]
    have h1 : (apply b c).redirect = b.redirect := by rw [apply_redirect, hq c (by simp)]; rfl
    have := ih (apply b c) (fun c' hc' => hq c' (by simp [hc']))
    simp only [run] at this
    rw [this, h1]

theorem tls_survives (b : B) (cs : List Call) (hq : ∀ c ∈ cs, tlsSays c = none) : (run b cs).tls = b.tls := by
  induction cs generalizing b with
  | nil => rfl
  | cons c cs ih =>
    simp only [run, List.foldl_cons]
    have h1 : (apply b c).tls = b.tls := by rw [apply_tls, hq c (by simp)]; rfl
    have := ih (apply b c) (fun c' hc' => hq c' (by simp [hc']))
    simp only [run] at this
    rw [this, h1]

theorem userAgent_survives (b : B) (cs : List Call) (hq : ∀ c ∈ cs, uaSays c = none) : (run b cs).userAgent = b.userAgent := by
  induction cs generalizing b with
  | nil => rfl
  | cons c cs ih =>
    simp only [run, List.foldl_cons]
    have h1 : (apply b c).userAgent = b.userAgent := by rw [apply_userAgent, hq c (by simp)]; rfl
    have := ih (apply b c) (fun c' hc' => hq c' (by simp [hc']))
    simp only [run] at this
    rw [this, h1]

/-- **What is in effect is what was said last.** For any calls before and any calls after that do not touch the pool,
    `… .with_pool(cfg) …` leaves the pool configured with `cfg`. -/
theorem C15_with_pool_in_effect (b : B) (before after : List Call) (cfg : PoolCfg) (hq : ∀ c ∈ after, ∀ cur, poolSays cur c = none) :
    (run b (before ++ [.withPool cfg] ++ after)).pool = some cfg := by
  have : run b (before ++ [.withPool cfg] ++ after) = run (apply (run b before) (.withPool cfg)) after := by
    simp [run, List.foldl_append]
  rw [this, pool_survives _ after hq]
  rfl

theorem C19_with_timeout_in_effect (b : B) (before after : List Call) (o : Option Nat) (hq : ∀ c ∈ after, timeoutSays c = none) :
    (run b (before ++ [.withOptionalTimeout o] ++ after)).timeout = o := by
  have : run b (before ++ [.withOptionalTimeout o] ++ after) = run (apply (run b before) (.withOptionalTimeout o)) after := by
    simp [run, List.foldl_append]
  rw [this, timeout_survives _ after hq]
  rfl

theorem C12_with_tls_in_effect (b : B) (before after : List Call) (hq : ∀ c ∈ after, tlsSays c = none) :
    (run b (before ++ [.withTls] ++ after)).tls = true := by
  have : run b (before ++ [.withTls] ++ after) = run (apply (run b before) .withTls) after := by
    simp [run, List.foldl_append]
  rw [this, tls_survives _ after hq]
  rfl

/-- non-vacuity: the chain of C04-a7 / C05-a7 - pool first, then the calls that rebuild the builder -/
example : (run new [.withPool ⟨1, some 80⟩, .withOptionalTimeout (some 150), .withTransport, .withAutoHttp, .withRedirectPolicy 3,
                    .withStandardRedirectPolicy, .layer, .withBody, .withoutTls]).pool = some ⟨1, some 80⟩ := by decide

end Hd.Builder
