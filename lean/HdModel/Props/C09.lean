import HdModel.Spec.Server
/-! # C09 — one misbehaving connection never takes the server down

Theorems about the accept-loop model `Hd.Server` for **every** sequence of operations (connects,
cancelled connects, partial / garbage / complete requests, client disconnects, handler releases,
shutdown signal, listener loss) on every configuration. OS-level accept errors (EMFILE,
ECONNABORTED on a TCP/Unix listener) are outside the model. -/
namespace Hd.Server

theorem endServer_srv (s : St) (r : Srv) : (endServer s r).srv = r := rfl
theorem modClient_srv (s : St) (i : Nat) (f : Client → Client) : (modClient s i f).srv = s.srv := rfl

theorem getClient_modClient (s : St) (i j : Nat) (f : Client → Client) :
    getClient (modClient s i f) j =
      if j = i ∧ j < s.clients.length then f (getClient s j) else getClient s j := by
  unfold getClient modClient
  simp only [List.getD_eq_getElem?_getD, List.getElem?_mapIdx]
  by_cases hj : j < s.clients.length
  · simp [hj]
  · simp [hj]

/-- The reasons for which the serving future may end only ever accumulate. -/
theorem legitEnd_stepBasic (s : St) (op : Op) (h : legitEnd s = true) : legitEnd (stepBasic s op) = true := by
  unfold legitEnd at h ⊢
  have key : ∀ s' : St, s'.cfg = s.cfg → (s.signalled = true → s'.signalled = true) →
      (s.listener = false → s'.listener = false) → s.made ≤ s'.made →
      ((s'.cfg.graceful && s'.signalled) || !s'.listener ||
        (match s'.cfg.makefail with | some k => decide (k < s'.made) | none => false)) = true := by
    intro s' hc hs hl hm
    rw [hc]
    simp only [Bool.or_eq_true, Bool.and_eq_true, Bool.not_eq_true'] at h ⊢
    rcases h with (⟨h1, h2⟩ | h2) | h3
    · exact Or.inl (Or.inl ⟨h1, hs h2⟩)
    · exact Or.inl (Or.inr (hl h2))
    · right
      cases hk : s.cfg.makefail with
      | none => simp [hk] at h3
      | some k => simp [hk] at h3 ⊢; omega
  cases op with
  | conn i =>
    simp only [stepBasic]
    split
    · exact h
    · split
      · exact key _ rfl id id (Nat.le_refl _)
      · split
        · exact key _ rfl id id (by simp [endServer, modClient])
        · exact key _ rfl id id (by simp [modClient])
  | connx i => exact h
  | send i k => simp only [stepBasic]; split <;> first | exact h | exact key _ rfl id id (Nat.le_refl _)
  | gate i => exact key _ rfl id id (Nat.le_refl _)
  | close i => exact key _ rfl id id (Nat.le_refl _)
  | signal =>
    simp only [stepBasic]; split
    · exact h
    · split
      · exact key _ rfl (fun _ => rfl) id (Nat.le_refl _)
      · exact key _ rfl (fun _ => rfl) id (Nat.le_refl _)
  | dropListener =>
    simp only [stepBasic]; split
    · exact key _ rfl id (fun _ => rfl) (Nat.le_refl _)
    · exact key _ rfl id (fun _ => rfl) (Nat.le_refl _)
  | sigConn i => exact h
  | sigDrop => exact h

/-- A step either leaves the serving future's state alone or ends it for a legitimate reason. -/
theorem stepBasic_srv_cases (s : St) (op : Op) (hs : s.srv = .pending) :
    (stepBasic s op).srv = .pending ∨ legitEnd (stepBasic s op) = true := by
  cases op with
  | conn i =>
    simp only [stepBasic]
    split
    · exact Or.inl hs
    · split
      · exact Or.inl hs
      · split
        · rename_i hmf
          right
          simp only [legitEnd, endServer, modClient]
          cases hk : s.cfg.makefail with
          | none => simp [hk] at hmf
          | some k =>
            have hk' : k = s.made := by simpa [hk] using hmf
            subst hk'
            simp
        · exact Or.inl hs
  | connx i => exact Or.inl hs
  | send i k => simp only [stepBasic]; split <;> exact Or.inl hs
  | gate i => exact Or.inl hs
  | close i => exact Or.inl hs
  | signal =>
    simp only [stepBasic]
    split
    · exact Or.inl hs
    · split
      · rename_i hg
        simp only [Bool.and_eq_true] at hg
        right; simp [legitEnd, endServer, hg.1]
      · exact Or.inl hs
  | dropListener =>
    right
    simp only [stepBasic]
    split <;> simp [legitEnd, endServer]
  | sigConn i => exact Or.inl hs
  | sigDrop => exact Or.inl hs

/-- One basic step keeps "ended ⇒ for a legitimate reason". -/
theorem ended_legit_stepBasic (s : St) (op : Op) (h : s.srv ≠ .pending → legitEnd s = true) :
    (stepBasic s op).srv ≠ .pending → legitEnd (stepBasic s op) = true := by
  intro hne
  by_cases hs : s.srv = .pending
  · rcases stepBasic_srv_cases s op hs with h' | h'
    · exact absurd h' hne
    · exact h'
  · exact legitEnd_stepBasic s op (h hs)

theorem legitEnd_step (s : St) (op : Op) (h : legitEnd s = true) : legitEnd (step s op) = true := by
  cases op <;> first
    | exact legitEnd_stepBasic s _ h
    | exact legitEnd_stepBasic _ _ (legitEnd_stepBasic s _ h)

theorem step_srv_cases (s : St) (op : Op) (hs : s.srv = .pending) :
    (step s op).srv = .pending ∨ legitEnd (step s op) = true := by
  have two : ∀ op2, (stepBasic (stepBasic s .signal) op2).srv = .pending ∨
      legitEnd (stepBasic (stepBasic s .signal) op2) = true := by
    intro op2
    rcases stepBasic_srv_cases s .signal hs with h1 | h1
    · exact stepBasic_srv_cases _ op2 h1
    · exact Or.inr (legitEnd_stepBasic _ op2 h1)
  cases op <;> first
    | exact stepBasic_srv_cases s _ hs
    | exact two _

/-- One step keeps "ended ⇒ for a legitimate reason". -/
theorem ended_legit_step (s : St) (op : Op) (h : s.srv ≠ .pending → legitEnd s = true) :
    (step s op).srv ≠ .pending → legitEnd (step s op) = true := by
  intro hne
  by_cases hs : s.srv = .pending
  · rcases step_srv_cases s op hs with h' | h'
    · exact absurd h' hne
    · exact h'
  · exact legitEnd_step s op (h hs)

/-- **C09 (only three exits).** Whatever the clients do – connect and walk away, disconnect, send
    garbage or truncated requests, stall – the serving future ends only after the shutdown signal
    (graceful mode), after the listener itself was lost, or after a make-service failure. -/
theorem C09_only_three_exits (cfg : Cfg) (ops : List Op) :
    ∀ s ∈ run (init cfg) ops, s.srv ≠ .pending → legitEnd s = true := by
  have key : ∀ (s0 : St) (ops : List Op), (s0.srv ≠ .pending → legitEnd s0 = true) →
      ∀ s ∈ run s0 ops, s.srv ≠ .pending → legitEnd s = true := by
    intro s0 ops
    induction ops generalizing s0 with
    | nil => intro _ s hs; simp [run] at hs
    | cons op ops ih =>
      intro h0 s hs
      simp only [run, List.mem_cons] at hs
      rcases hs with rfl | hs
      · exact ended_legit_step s0 op h0
      · exact ih (step s0 op) (ended_legit_step s0 op h0) s hs
  exact key (init cfg) ops (by intro h; exact absurd rfl h)

/-- **C09 (isolation).** A fault on one connection – disconnect, garbage, partial request, an aborted
    connect, or anything else a client does – leaves every other connection's state untouched. -/
theorem C09_isolation (s : St) (i j : Nat) (hij : i ≠ j) :
    (∀ k, getClient (step s (.send j k)) i = getClient s i) ∧
    getClient (step s (.close j)) i = getClient s i ∧
    getClient (step s (.gate j)) i = getClient s i ∧
    getClient (step s (.connx j)) i = getClient s i := by
  refine ⟨fun k => ?_, ?_, ?_, rfl⟩
  · show getClient (stepBasic s (.send j k)) i = _
    simp only [stepBasic]; split
    · rfl
    · rw [getClient_modClient]; simp [hij]
  · show getClient (stepBasic s (.close j)) i = _
    simp only [stepBasic]; rw [getClient_modClient]; simp [hij]
  · show getClient (stepBasic s (.gate j)) i = _
    simp only [stepBasic]; rw [getClient_modClient]; simp [hij]

/-- A cancelled connect changes nothing at all. -/
theorem C09_cancelled_connect_harmless (s : St) (i : Nat) : step s (.connx i) = s := rfl

end Hd.Server
