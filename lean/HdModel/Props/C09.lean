import HdModel.Spec.Server
/-! # C09 — one misbehaving connection never takes the server down

Theorems about the accept-loop model `Hd.Server` for **every** sequence of operations (connects,
cancelled connects, partial / garbage / complete requests, client disconnects, handler releases,
shutdown signal, listener loss) on every configuration. OS-level accept errors (EMFILE,
ECONNABORTED on a TCP/Unix listener) are outside the model. -/
namespace Hd.Server

theorem endServer_srv (s : St) (r : Srv) : (endServer s r).srv = r := rfl
theorem modClient_srv (s : St) (i : Nat) (f : Client → Client) : (modClient s i f).srv = s.srv := rfl

theorem getClient_modClient (s : St) (i j : Nat) (f : Client → Client) :
    getClient (modClient s i f) j =
      if j = i ∧ j < s.clients.length then f (getClient s j) else getClient s j := by
  unfold getClient modClient
  simp only [List.getD_eq_getElem?_getD, List.getElem?_mapIdx]
  by_cases hj : j < s.clients.length
  · simp [hj]
  · simp [hj]

/-- The reasons for which the serving future may end only ever accumulate. -/
theorem legitEnd_stepBasic (s : St) (op : Op) (h : legitEnd s = true) : legitEnd (stepBasic s op) = true := by
  unfold legitEnd at h ⊢
  have key : ∀ s' : St, s'.cfg = s.cfg → (s.signalled = true → s'.signalled = true) →
      (s.listener = false → s'.listener = false) → s.made ≤ s'.made →
      ((s'.cfg.graceful && s'.signalled) || !s'.listener ||
        (match s'.cfg.makefail with | some k => decide (k < s'.made) | none => false)) = true := by
    intro s' hc hs hl hm
    rw [hc]
    simp only [Bool.or_eq_true, Bool.and_eq_true, Bool.not_eq_true'] at h ⊢
    rcases h with (⟨h1, h2⟩ | h2) | h3
    · exact Or.inl (Or.inl ⟨h1, hs h2⟩)
    · exact Or.inl (Or.inr (hl h2))
    · right
      cases hk : s.cfg.makefail with
      | none => simp [hk] at h3
      | some k => simp [hk] at h3 ⊢; omega
  cases op with
  | conn i =>
    simp only [stepBasic]
    split
    · exact h
    · split
      · exact key _ rfl id id (Nat.le_refl _)
      · split
        · exact key _ rfl id id (by simp [endServer, modClient])
        · exact key _ rfl id id (by simp [modClient])
  | connx i => exact h
  | send i k => simp only [stepBasic]; split <;> first | exact h | exact key _ rfl id id (Nat.le_refl _)
  | gate i => exact key _ rfl id id (Nat.le_refl _)
  | close i => exact key _ rfl id id (Nat.le_refl _)
  | signal =>
    simp only [stepBasic]; split
    · exact h
    · split
      · exact key _ rfl (fun _ => rfl) id (Nat.le_refl _)
      · exact key _ rfl (fun _ => rfl) id (Nat.le_refl _)
  | dropListener =>
    simp only [stepBasic]; split
    · exact key _ rfl id (fun _ => rfl) (Nat.le_refl _)
    · exact key _ rfl id (fun _ => rfl) (Nat.le_refl _)
  | sigConn i => exact h
  | sigDrop => exact h

/-- A step either leaves the serving future's state alone or ends it for a legitimate reason. -/
theorem stepBasic_srv_cases (s : St) (op : Op) (hs : s.srv = .pending) :
    (stepBasic s op).srv = .pending ∨ legitEnd (stepBasic s op) = true := by
  cases op with
  | conn i =>
    simp only [stepBasic]
    split
    · exact Or.inl hs
    · split
      · exact Or.inl hs
      · split
        · rename_i hmf
          right
          simp only [legitEnd, endServer, modClient]
          cases hk : s.cfg.makefail with
          | none => simp [hk] at hmf
          | some k =>
            have hk' : k = s.made := by simpa [hk] using hmf
            subst hk'
            simp
        · exact Or.inl hs
  | connx i => exact Or.inl hs
  | send i k => simp only [stepBasic]; split <;> exact Or.inl hs
  | gate i => exact Or.inl hs
  | close i => exact Or.inl hs
  | signal =>
    simp only [stepBasic]
    split
    · exact Or.inl hs
    · split
      · rename_i hg
        simp only [Bool.and_eq_true] at hg
        right; simp [legitEnd, endServer, hg.1]
      · exact Or.inl hs
  | dropListener =>
    right
    simp only [stepBasic]
    split <;> simp [legitEnd, endServer]
  | sigConn i => exact Or.inl hs
  | sigDrop => exact Or.inl hs

/-- One basic step keeps "ended ⇒ for a legitimate reason". -/
theorem ended_legit_stepBasic (s : St) (op : Op) (h : s.srv ≠ .pending → legitEnd s = true) :
    (stepBasic s op).srv ≠ .pending → legitEnd (stepBasic s op) = true := by
  intro hne
  by_cases hs : s.srv = .pending
  · rcases stepBasic_srv_cases s op hs with h' | h'
    · exact absurd h' hne
    · exact h'
  · exact legitEnd_stepBasic s op (h hs)

theorem legitEnd_step (s : St) (op : Op) (h : legitEnd s = true) : legitEnd (step s op) = true := by
  cases op <;> first
    | exact legitEnd_stepBasic s _ h
    | exact legitEnd_stepBasic _ _ (legitEnd_stepBasic s _ h)

theorem step_srv_cases (s : St) (op : Op) (hs : s.srv = .pending) :
    (step s op).srv = .pending ∨ legitEnd (step s op) = true := by
  have two : ∀ op2, (stepBasic (stepBasic s .signal) op2).srv = .pending ∨
      legitEnd (stepBasic (stepBasic s .signal) op2) = true := by
    intro op2
    rcases stepBasic_srv_cases s .signal hs with h1 | h1
    · exact stepBasic_srv_cases _ op2 h1
    · exact Or.inr (legitEnd_stepBasic _ op2 h1)
  cases op <;> first
    | exact stepBasic_srv_cases s _ hs
    | exact two _

/-- One step keeps "ended ⇒ for a legitimate reason". -/
theorem ended_legit_step (s : St) (op : Op) (h : s.srv ≠ .pending → legitEnd s = true) :
    (step s op).srv ≠ .pending → legitEnd (step s op) = true := by
  intro hne
  by_cases hs : s.srv = .pending
  · rcases step_srv_cases s op hs with h' | h'
    · exact absurd h' hne
    · exact h'
  · exact legitEnd_step s op (h hs)

/-- **C09 (only three exits).** Whatever the clients do – connect and walk away, disconnect, send
    garbage or truncated requests, stall – the serving future ends only after the shutdown signal
    (graceful mode), after the listener itself was lost, or after a make-service failure. -/
theorem C09_only_three_exits (cfg : Cfg) (ops : List Op) :
    ∀ s ∈ run (init cfg) ops, s.srv ≠ .pending → legitEnd s = true := by
  have key : ∀ (s0 : St) (ops : List Op), (s0.srv ≠ .pending → legitEnd s0 = true) →
      ∀ s ∈ run s0 ops, s.srv ≠ .pending → legitEnd s = true := by
    intro s0 ops
    induction ops generalizing s0 with
    | nil => intro _ s hs; simp [run] at hs
    | cons op ops ih =>
      intro h0 s hs
      simp only [run, List.mem_cons] at hs
      rcases hs with rfl | hs
      · exact ended_legit_step s0 op h0
      · exact ih (step s0 op) (ended_legit_step s0 op h0) s hs
  exact key (init cfg) ops (by intro h; exact absurd rfl h)

/-- **C09 (isolation).** A fault on one connection – disconnect, garbage, partial request, an aborted
    connect, or anything else a client does – leaves every other connection's state untouched. -/
theorem C09_isolation (s : St) (i j : Nat) (hij : i ≠ j) :
    (∀ k, getClient (step s (.send j k)) i = getClient s i) ∧
    getClient (step s (.close j)) i = getClient s i ∧
    getClient (step s (.gate j)) i = getClient s i ∧
    getClient (step s (.connx j)) i = getClient s i := by
  refine ⟨fun k => ?_, ?_, ?_, rfl⟩
  · show getClient (stepBasic s (.send j k)) i = _
    simp only [stepBasic]; split
    · rfl
    · rw [getClient_modClient]; simp [hij]
  · show getClient (stepBasic s (.close j)) i = _
    simp only [stepBasic]; rw [getClient_modClient]; simp [hij]
  · show getClient (stepBasic s (.gate j)) i = _
    simp only [stepBasic]; rw [getClient_modClient]; simp [hij]

/-- A cancelled connect changes nothing at all. -/
theorem C09_cancelled_connect_harmless (s : St) (i : Nat) : step s (.connx i) = s := rfl

end Hd.Server

namespace Hd.Server

/-! ## Misbehaving clients cannot keep a well-behaved one from being served

Everything a client can do to the server — connect, abandon a connect, send a complete head, part
of one, garbage, a (partial) HTTP/2 preface, close at any point — in any order and any number, on
any clients other than `n`. -/

/-- `op` is something done by a client other than `n`. -/
def otherClientOp (n : Nat) : Op → Bool
  | .conn i | .connx i | .send i _ | .gate i | .close i => i != n
  | _ => false

/-- the server is running normally and client `n` has not done anything yet -/
structure Untouched (s : St) (n : Nat) : Prop where
  srv : s.srv = .pending
  listener : s.listener = true
  makefail : s.cfg.makefail = none
  lt : n < s.clients.length
  fresh : getClient s n = {}

theorem modClient_untouched (s : St) (n i : Nat) (f : Client → Client) (hi : i ≠ n) (h : Untouched s n) :
    Untouched (modClient s i f) n := by
  refine ⟨h.srv, h.listener, h.makefail, ?_, ?_⟩
  · simp [modClient, h.lt]
  · rw [getClient_modClient]
    have : ¬ (n = i ∧ n < s.clients.length) := fun hh => hi hh.1.symm
    simp [this, h.fresh]

theorem untouched_step (s : St) (n : Nat) (op : Op) (hop : otherClientOp n op = true) (h : Untouched s n) :
    Untouched (step s op) n := by
  cases op with
  | conn i =>
    have hi : i ≠ n := by simpa [otherClientOp] using hop
    show Untouched (stepBasic s (.conn i)) n
    simp only [stepBasic]
    split
    · exact h
    · split
      · rename_i hc; simp [h.srv, h.listener] at hc
      · have h' : Untouched { s with made := s.made + 1 } n := ⟨h.srv, h.listener, h.makefail, h.lt, h.fresh⟩
        split
        · rename_i hc; simp [h.makefail] at hc
        · exact modClient_untouched _ n i _ hi h'
  | connx i => exact h
  | send i k =>
    have hi : i ≠ n := by simpa [otherClientOp] using hop
    show Untouched (stepBasic s (.send i k)) n
    simp only [stepBasic]
    split
    · exact h
    · exact modClient_untouched _ n i _ hi h
  | gate i =>
    have hi : i ≠ n := by simpa [otherClientOp] using hop
    exact modClient_untouched _ n i _ hi h
  | close i =>
    have hi : i ≠ n := by simpa [otherClientOp] using hop
    exact modClient_untouched _ n i _ hi h
  | signal => simp [otherClientOp] at hop
  | dropListener => simp [otherClientOp] at hop
  | sigConn i => simp [otherClientOp] at hop
  | sigDrop => simp [otherClientOp] at hop

theorem untouched_foldl (ops : List Op) (s : St) (n : Nat) (hops : ∀ op ∈ ops, otherClientOp n op = true)
    (h : Untouched s n) : Untouched (ops.foldl step s) n := by
  induction ops generalizing s with
  | nil => exact h
  | cons op ops ih =>
    simp only [List.foldl_cons]
    exact ih _ (fun o ho => hops o (List.mem_cons_of_mem _ ho)) (untouched_step s n op (hops op (List.mem_cons_self)) h)

/-- A fresh client of a normally running server that connects, sends one request and whose handler
    is released gets exactly one response, on an open connection, and the server keeps running. -/
theorem probe_served (s : St) (n : Nat) (h : Untouched s n) :
    let s' := step (step (step s (.conn n)) (.send n .full)) (.gate n)
    s'.srv = .pending ∧ (getClient s' n).resp = 1 ∧ (getClient s' n).st = .opened ∧ (getClient s' n).eof = false := by
  have hlt := h.lt
  have h1 : step s (.conn n) = modClient { s with made := s.made + 1 } n
      (fun c => { c with st := .opened, srvOpen := true, sniffing := s.cfg.auto }) := by
    show stepBasic s (.conn n) = _
    simp only [stepBasic, h.fresh, h.srv, h.listener, h.makefail]
    simp
  have g1 : getClient (step s (.conn n)) n = { st := .opened, srvOpen := true, sniffing := s.cfg.auto } := by
    rw [h1, getClient_modClient]
    have hf : getClient { s with made := s.made + 1 } n = {} := h.fresh
    simp [hlt, hf]
  have hs1 : (step s (.conn n)).srv = .pending := by rw [h1]; exact h.srv
  have hl1 : n < (step s (.conn n)).clients.length := by rw [h1]; simp [modClient, hlt]
  generalize step s (.conn n) = s1 at g1 hs1 hl1
  have g2 : getClient (step s1 (.send n .full)) n = { st := .opened, srvOpen := true, hc := 1, inHandler := true } := by
    show getClient (stepBasic s1 (.send n .full)) n = _
    simp only [stepBasic, g1]
    simp only [bne_self_eq_false, Bool.not_true, Bool.or_self, Bool.false_eq_true, if_false]
    rw [getClient_modClient]
    simp only [hl1, and_self, if_true, g1]
    cases s.cfg.auto <;> simp [startHandler]
  have hs2 : (step s1 (.send n .full)).srv = .pending := by
    show (stepBasic s1 (.send n .full)).srv = _
    simp only [stepBasic]; split <;> simp [modClient, hs1]
  have hl2 : n < (step s1 (.send n .full)).clients.length := by
    show n < (stepBasic s1 (.send n .full)).clients.length
    simp only [stepBasic]; split <;> simp [modClient, hl1]
  generalize step s1 (.send n .full) = s2 at g2 hs2 hl2
  have g3 : getClient (step s2 (.gate n)) n = { st := .opened, srvOpen := true, hc := 1, resp := 1 } := by
    show getClient (modClient s2 n _) n = _
    rw [getClient_modClient]
    simp [hl2, g2]
  refine ⟨?_, ?_, ?_, ?_⟩
  · exact hs2
  · rw [g3]
  · rw [g3]
  · rw [g3]

/-- **C09 (per-connection faults stay per-connection).** After *any* sequence of operations by
    other clients — no shutdown signal, the listener kept, make-service not failing — the server
    is still running and a new well-behaved client is accepted and served. -/
theorem C09_faults_do_not_stop_service (s : St) (n : Nat) (ops : List Op)
    (hops : ∀ op ∈ ops, otherClientOp n op = true) (h : Untouched s n) :
    let s' := (ops ++ [Op.conn n, Op.send n .full, Op.gate n]).foldl step s
    s'.srv = .pending ∧ (getClient s' n).resp = 1 ∧ (getClient s' n).eof = false := by
  have hu := untouched_foldl ops s n hops h
  have hp := probe_served (ops.foldl step s) n hu
  simp only [List.foldl_append, List.foldl_cons, List.foldl_nil]
  exact ⟨hp.1, hp.2.1, hp.2.2.2⟩

theorem faultOps_other (n k : Nat) (f : String) (hk : k < n) : ∀ op ∈ faultOps k f, otherClientOp n op = true := by
  have hne : k ≠ n := Nat.ne_of_lt hk
  intro op hop
  unfold faultOps at hop
  simp only [] at hop
  split at hop <;> simp at hop <;> (try rcases hop with h | h | h) <;> (try rcases hop with h | h) <;> simp_all [otherClientOp]

/-- **C09 on the kernel-acceptor stream.** Whatever the misbehaving clients of a `srvk` case are
    (any number, any kind, before or after the server first runs), the model says: the server is
    still running and the probe client is served. -/
theorem C09_kernel_stream (auto : Bool) (faults : List String) : kernelRun auto faults = (.pending, true) := by
  unfold kernelRun kernelOps
  simp only []
  have hops : ∀ op ∈ (List.range faults.length |>.zip faults).flatMap (fun p => faultOps p.1 p.2),
      otherClientOp faults.length op = true := by
    intro op hop
    rw [List.mem_flatMap] at hop
    obtain ⟨⟨k, f⟩, hkf, hop⟩ := hop
    have hk : k < faults.length := by
      have := (List.of_mem_zip hkf).1
      simpa using this
    exact faultOps_other _ k f hk op hop
  have h0 : Untouched (kernelInit auto faults.length) faults.length := by
    refine ⟨rfl, rfl, rfl, by simp [kernelInit], ?_⟩
    simp [getClient, kernelInit]
  have := C09_faults_do_not_stop_service _ faults.length _ hops h0
  simp only [] at this
  obtain ⟨h1, h2, _⟩ := this
  simp only [List.foldl_append, List.foldl_cons, List.foldl_nil, getClient, List.getD_eq_getElem?_getD] at h1 h2 ⊢
  rw [Prod.mk.injEq]
  exact ⟨h1, by simp [h2]⟩

end Hd.Server
