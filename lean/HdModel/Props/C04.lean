import HdModel.Props.C05
import HdModel.Lemmas.PoolMarker
import HdModel.Props.Builder
/-! # C04 — idle connections are reused; HTTP/2 requests to an origin share one connection

Step-level theorems about the pool model, valid in **every** state. -/
namespace Hd.Pool

/-- **C04 (reuse).** When `pop` finds an open, ready, unexpired idle connection for the origin, the
    new checkout is equipped with it and no connection attempt is prepared … -/
theorem C04_reuse_issue (s : State) (r : ReqId) (k : KeyId) (mux : Bool) (t : Token) (c : ConnId) :
    (issueFound s r k mux t c).co r =
      some { key := k, token := t, mux := mux, waiter := .idle, inner := .connected, conn := some c } ∧
    (issueFound s r k mux t c).dialCount = s.dialCount ∧
    (issueFound s r k mux t c).connecting = s.connecting := by
  unfold issueFound
  refine ⟨by simp, ?_, ?_⟩ <;> (simp only []; split <;> rfl)

/-- The state `issue` works on after the token lookup and the `pop`. -/
def afterPop (s : State) (k : KeyId) : State :=
  let tk := tokenOf s k
  let pr := idlePop tk.1 (tk.1.idle tk.2)
  noteDropped { tk.1 with idle := upd tk.1.idle tk.2 pr.2.1 } pr.2.2

theorem issue_found (s : State) (r : ReqId) (k : KeyId) (mux : Bool) (c : ConnId)
    (hpop : (idlePop (tokenOf s k).1 ((tokenOf s k).1.idle (tokenOf s k).2)).1 = some c) :
    issue s r k mux = issueFound (afterPop s k) r k mux (tokenOf s k).2 c := by
  unfold issue afterPop; simp only [hpop]

theorem issue_missing (s : State) (r : ReqId) (k : KeyId) (mux : Bool)
    (hpop : (idlePop (tokenOf s k).1 ((tokenOf s k).1.idle (tokenOf s k).2)).1 = none) :
    issue s r k mux = issueMissing (afterPop s k) r k mux (tokenOf s k).2 := by
  unfold issue afterPop; simp only [hpop]

/-- … and its first poll hands that very connection out without any dial. -/
theorem C04_reuse_poll (s : State) (r : ReqId) (co : Checkout) (c : ConnId)
    (hcn : co.conn = some c) (hi : co.inner = .connected) (hw : co.waiter = .idle)
    (hch : ∀ p, s.chan r ≠ .full p) :
    (∃ p, (pollCheckout s r co).2.2 = .got p ∧ p.conn = c) ∧
    (pollCheckout s r co).1.dialCount = s.dialCount := by
  unfold pollCheckout pollWaiter
  cases hch' : s.chan r with
  | full p => exact absurd hch' (hch p)
  | txGone =>
    simp only [hw, hi, hcn]
    refine ⟨⟨_, rfl, ?_⟩, ?_⟩
    · unfold checkedOut; split <;> rfl
    · unfold dropRx; simp [hch']
  | empty =>
    simp only [hw, hi, hcn]
    refine ⟨⟨_, rfl, ?_⟩, ?_⟩
    · unfold checkedOut; split <;> rfl
    · unfold dropRx; simp [hch']
  | none =>
    simp only [hw, hi, hcn]
    refine ⟨⟨_, rfl, ?_⟩, ?_⟩
    · unfold checkedOut; split <;> rfl
    · unfold dropRx; simp [hch']
  | rxGone =>
    simp only [hw, hi, hcn]
    refine ⟨⟨_, rfl, ?_⟩, ?_⟩
    · unfold checkedOut; split <;> rfl
    · unfold dropRx; simp [hch']

/-- **C04 (share).** Taking a shareable connection out of the idle list leaves it available: it is
    again at the head of the origin's idle list when `checkout` returns, so concurrent and later
    requests find it. -/
theorem C04_share_stays_pooled (s : State) (r : ReqId) (k : KeyId) (mux : Bool) (t : Token) (c : ConnId)
    (hsh : canShare s c = true) :
    (issueFound s r k mux t c).idle t = (c, s.now) :: s.idle t := by
  unfold issueFound
  simp [hsh]

/-- **C04 (dedup).** While a multiplexed attempt for the origin is in flight (marker set) and
    nothing is idle, a newly issued request becomes a pure waiter that owns no marker … -/
theorem C04_dedup_issue (s : State) (r : ReqId) (k : KeyId) (mux : Bool) (t : Token)
    (hm : s.connecting.contains t = true) :
    (issueMissing s r k mux t).co r =
      some { key := k, token := t, mux := mux, waiter := .connecting, inner := .waiting } ∧
    r ∈ (issueMissing s r k mux t).waiting t ∧ (issueMissing s r k mux t).chan r = .empty := by
  have hm' : t ∈ s.connecting := by simpa using hm
  unfold issueMissing
  simp [hm']

/-- … and polling a pure waiter never dials. -/
theorem C04_dedup_poll (s : State) (r : ReqId) (c : Checkout) (hi : c.inner = .waiting) :
    (pollCheckout s r c).1.dialCount = s.dialCount := by
  unfold pollCheckout
  have hw : (pollWaiter s r c).1.dialCount = s.dialCount ∧ (pollWaiter s r c).2.1.inner = c.inner := by
    unfold pollWaiter
    split
    · split <;> simp
    · split <;> simp
    · simp
  generalize pollWaiter s r c = res at hw
  obtain ⟨s1, c1, w⟩ := res
  simp only [] at hw ⊢
  cases w with
  | none => exact hw.1
  | some o =>
    cases o with
    | some p => exact hw.1
    | none =>
      simp only []
      rw [hw.2, hi]
      exact hw.1

/-- A request for a multiplexed connection that starts the attempt places the marker and owns it;
    a non-multiplexed one places none. -/
theorem C04_marker_owner (s : State) (r : ReqId) (k : KeyId) (mux : Bool) (t : Token)
    (hm : s.connecting.contains t = false) :
    ∃ co, (issueMissing s r k mux t).co r = some co ∧ co.marker = mux ∧
      ((issueMissing s r k mux t).connecting.contains t = mux) := by
  have hm' : t ∉ s.connecting := by simpa using hm
  unfold issueMissing
  cases mux <;> simp [hm']

/-- the delivery loop passes over a queue in which nobody is listening, and empties it -/
theorem pushLoop_skips (t : Token) (c : ConnId) : ∀ (q : List ReqId) (s : State), (∀ r, r ∈ q → s.chan r ≠ .empty) →
    pushLoop s t c q = ({ s with waiting := upd s.waiting t [] }, false)
  | [], s, _ => by simp [pushLoop]
  | r0 :: rest, s, h => by
    have h0 : s.chan r0 ≠ .empty := h r0 List.mem_cons_self
    have ih := pushLoop_skips t c rest s (fun r hr => h r (List.mem_cons_of_mem _ hr))
    simp only [pushLoop]
    cases hc : s.chan r0 with
    | empty => exact absurd hc h0
    | none => simpa using ih
    | full p => simpa using ih
    | rxGone => simpa using ih
    | txGone => simpa using ih

/-- **C04 (a released connection is kept).** A non-shareable connection handed back for an origin
    for which nobody is listening, with room in the idle list, becomes the newest idle entry of that
    origin; it is not dropped. (With a listener it goes to the listener instead: `C14_release_serves_a_listener`;
    that it is only handed back when it is open and ready again: `C02_handback_only_when_ready`.) -/
theorem C04_released_connection_is_kept (s : State) (t : Token) (c : ConnId)
    (hns : canShare s c = false) (hnl : ∀ r, r ∈ s.waiting t → s.chan r ≠ .empty)
    (hroom : (s.idle t).length < s.cfg.maxIdle) :
    (push s t c).idle t = (c, s.now) :: s.idle t ∧ (push s t c).dropped = s.dropped := by
  have hcm : clearMarker s t c = s := by unfold clearMarker; simp [hns]
  unfold push
  simp only [hcm, pushLoop_skips t c (s.waiting t) s hnl]
  simp [hroom]

/-- **C04 (a request cancelled before it used its connection gives it back).** The connection a
    checkout took out of the pool and never handed out goes through `push` again when the checkout is
    dropped, if it is still open (and it never left the pool if it can be shared) … -/
theorem C04_cancel_returns_unused (s : State) (r : ReqId) (c : Checkout) (cid : ConnId)
    (hcn : c.conn = some cid) (hop : isOpenC s cid = true) (hns : canShare s cid = false) :
    returnUnused (takeConn s r c) c = push (takeConn s r c) c.token cid := by
  have h1 : isOpenC (takeConn s r c) cid = true := by unfold takeConn isOpenC at *; exact hop
  have h2 : canShare (takeConn s r c) cid = false := by unfold takeConn canShare at *; exact hns
  unfold returnUnused
  simp [hcn, h1, h2]

/-! ### nothing but a poll of a dialing checkout calls the transport -/

theorem spawn_dials (s : State) (t : Task) : (spawn s t).dialCount = s.dialCount := rfl

theorem dropPooled_dials (s : State) (p : Pooled) : (dropPooled s p).dialCount = s.dialCount := by
  unfold dropPooled; split <;> rfl

theorem dropRx_dials (s : State) (r : ReqId) : (dropRx s r).dialCount = s.dialCount := by
  unfold dropRx; split
  · rw [dropPooled_dials]
  · rfl
  · rfl

theorem pushLoop_dials (t : Token) (c : ConnId) : ∀ (q : List ReqId) (s : State), (pushLoop s t c q).1.dialCount = s.dialCount
  | [], _ => by simp [pushLoop]
  | r0 :: rest, s => by
    simp only [pushLoop]
    split
    · split
      · rw [pushLoop_dials t c rest]
      · rfl
    · exact pushLoop_dials t c rest s

theorem push_dials (s : State) (t : Token) (c : ConnId) : (push s t c).dialCount = s.dialCount := by
  unfold push
  simp only []
  have h0 : (clearMarker s t c).dialCount = s.dialCount := by unfold clearMarker; split <;> rfl
  have h1 := pushLoop_dials t c ((clearMarker s t c).waiting t) (clearMarker s t c)
  generalize pushLoop (clearMarker s t c) t c ((clearMarker s t c).waiting t) = pl at h1
  obtain ⟨x1, d⟩ := pl
  simp only [] at h1 ⊢
  split
  · rw [h1, h0]
  · split
    · show x1.dialCount = _; rw [h1, h0]
    · split
      · rw [h1, h0]
      · show x1.dialCount = _; rw [h1, h0]

theorem dropSenders_dials : ∀ (l : List ReqId) (s : State), (dropSenders s l).dialCount = s.dialCount
  | [], _ => rfl
  | r0 :: rest, s => by
    simp only [dropSenders]
    rw [dropSenders_dials rest]
    split <;> rfl

theorem cancelIfOwner_dials (s : State) (c : Checkout) : (cancelIfOwner s c).dialCount = s.dialCount := by
  unfold cancelIfOwner cancelConnection
  split
  · split
    · show (dropSenders _ _).dialCount = _
      rw [dropSenders_dials]
    · rfl
  · rfl

theorem returnUnused_dials (s : State) (c : Checkout) : (returnUnused s c).dialCount = s.dialCount := by
  unfold returnUnused
  split
  · split
    · rw [push_dials]
    · split <;> rfl
  · rfl

/-- dropping a checkout – cancelling a request, or the end of a poll that resolved – calls no transport -/
theorem dropCheckout_dials (s : State) (r : ReqId) : (dropCheckout s r).dialCount = s.dialCount := by
  unfold dropCheckout
  cases hco : s.co r with
  | none => rfl
  | some c =>
    simp only []
    split
    · rfl
    · have h1 : (returnUnused (takeConn s r c) c).dialCount = s.dialCount := by rw [returnUnused_dials]; rfl
      split
      · show (dropRx (spawn (returnUnused (takeConn s r c) c) (.delayed r)) r).dialCount = _
        rw [dropRx_dials, spawn_dials, h1]
      · show (dropRx (cancelIfOwner (returnUnused (takeConn s r c) c) c) r).dialCount = _
        rw [dropRx_dials, cancelIfOwner_dials, h1]

theorem abortTask_dials (s : State) (i : Nat) : (abortTask s i).dialCount = s.dialCount := by
  unfold abortTask
  split
  · rfl
  · rfl
  · split
    · rfl
    · simp only []
      show (cancelIfOwner _ _).dialCount = _
      rw [cancelIfOwner_dials]; rfl

theorem abortAll_dials : ∀ (fuel : Nat) (s : State), (abortAll fuel s).dialCount = s.dialCount
  | 0, _ => rfl
  | fuel + 1, s => by
    simp only [abortAll]
    split
    · rfl
    · rw [abortAll_dials fuel]
      unfold abortTask
      split
      · rfl
      · rfl
      · split
        · rfl
        · simp only []
          show (cancelIfOwner _ _).dialCount = _
          rw [cancelIfOwner_dials]; rfl

/-- **C04 (cancelling causes no dial).** Cancelling a request – before its first poll, while it waits,
    while it dials, or after it was given a connection –, a response arriving, a connection becoming
    ready or being closed by the peer, the outcome of a dial, the passing of time and the issue of a
    request never call the transport: `dialCount` only moves in `poll` and in `run` (the first poll of a
    dialing checkout, `startDial`, once per request). -/
theorem C04_only_polls_dial (s : State) (op : Op) (hp : ∀ r, op ≠ .poll r) (hr : op ≠ .run) :
    (step s op).1.dialCount = s.dialCount := by
  cases op with
  | poll r => exact absurd rfl (hp r)
  | run => exact absurd rfl hr
  | issue r k mux =>
    simp only [step]
    cases hco : s.co r with
    | some _ => rfl
    | none =>
      simp only []
      unfold issue
      have h0 : (tokenOf s k).1.dialCount = s.dialCount := by unfold tokenOf; split <;> rfl
      generalize tokenOf s k = tk at h0
      obtain ⟨s0, t⟩ := tk
      simp only [] at h0 ⊢
      cases hpop : (idlePop s0 (s0.idle t)).1 with
      | none =>
        simp only []
        unfold issueMissing
        simp only []
        split
        · exact h0
        · split <;> exact h0
      | some c =>
        simp only []
        unfold issueFound
        simp only []
        split <;> exact h0
  | cancel r =>
    simp only [step]
    cases hh : s.held r with
    | some p => simp only []; rw [dropPooled_dials]
    | none =>
      simp only []
      cases hco : s.co r with
      | none => rfl
      | some c =>
        simp only []
        split
        · exact dropCheckout_dials s r
        · rfl
  | cancelOff r =>
    simp only [step]
    cases hh : s.held r with
    | some p => simp only []; rw [abortTask_dials, dropPooled_dials]
    | none => rfl
  | dialDone r o =>
    simp only [step]
    split <;> rfl
  | finish r =>
    simp only [step]
    cases hh : s.held r with
    | some p => simp only []; rw [dropPooled_dials]
    | none => rfl
  | connReady c =>
    simp only [step]
    split
    · show (setConn s c _).dialCount = _
      unfold setConn; split <;> rfl
    · rfl
  | connClose c =>
    simp only [step]
    split
    · show (setConn s c _).dialCount = _
      unfold setConn; split <;> rfl
    · rfl
  | connFail c =>
    simp only [step]
    split
    · split
      · show (setConn s c _).dialCount = _
        unfold setConn; split <;> rfl
      · rfl
    · rfl
  | tick ms => rfl
  | mark => rfl
  | shutdown => exact abortAll_dials _ s

/-! ## Reachable-state theorem (from the invariant of `Lemmas/PoolMarker.lean`) -/

/-- **C04 (one HTTP/2 attempt per origin at a time), over all reachable states.** While the
    attempt-in-progress marker of an origin is in place, exactly one checkout is *the* attempt other
    requests wait for: two checkouts that both placed a marker for the origin and whose attempt id is
    the one stored with the marker in place are the same request. Together with `C04_dedup_issue` /
    `C04_dedup_poll` (a request issued while the marker is in place becomes a pure waiter and never
    dials) and `C03_only_owner_cancels` (nobody but that checkout removes the marker other than by
    providing a shareable connection): while an HTTP/2 attempt to an origin is in flight, further HTTP/2
    requests to it wait for it rather than dialing. -/
theorem C04_one_attempt_per_origin (cfg : Config) (ops : List Op) (r r' : ReqId) (c c' : Checkout)
    (h1 : (run (init cfg) ops).1.co r = some c) (h2 : (run (init cfg) ops).1.co r' = some c')
    (m1 : c.marker = true) (m2 : c'.marker = true)
    (o1 : c.attempt = (run (init cfg) ops).1.owner c.token) (o2 : c'.attempt = (run (init cfg) ops).1.owner c'.token)
    (ht : c.token = c'.token) : r = r' := by
  have h := run_minv ops (init cfg) (minv_init cfg)
  refine h.uniq r r' c.token c'.token c.attempt ?_ ?_
  · unfold holder; rw [h1]; simp [m1]
  · unfold holder; rw [h2]; simp [m2, o1, o2, ht]

/-- … and ids are never reused: any two checkouts that ever placed a marker (stale or not) carry
    different attempt ids. -/
theorem C04_attempt_ids_distinct (cfg : Config) (ops : List Op) (r r' : ReqId) (c c' : Checkout)
    (h1 : (run (init cfg) ops).1.co r = some c) (h2 : (run (init cfg) ops).1.co r' = some c')
    (m1 : c.marker = true) (m2 : c'.marker = true) (ha : c.attempt = c'.attempt) : r = r' := by
  have h := run_minv ops (init cfg) (minv_init cfg)
  refine h.uniq r r' c.token c'.token c.attempt ?_ ?_
  · unfold holder; rw [h1]; simp [m1]
  · unfold holder; rw [h2]; simp [m2, ha]

end Hd.Pool
