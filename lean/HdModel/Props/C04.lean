import HdModel.Props.C05
import HdModel.Lemmas.PoolMarker
/-! # C04 — idle connections are reused; HTTP/2 requests to an origin share one connection

Step-level theorems about the pool model, valid in **every** state. -/
namespace Hd.Pool

/-- **C04 (reuse).** When `pop` finds an open, ready, unexpired idle connection for the origin, the
    new checkout is equipped with it and no connection attempt is prepared … -/
theorem C04_reuse_issue (s : State) (r : ReqId) (k : KeyId) (mux : Bool) (t : Token) (c : ConnId) :
    (issueFound s r k mux t c).co r =
      some { key := k, token := t, mux := mux, waiter := .idle, inner := .connected, conn := some c } ∧
    (issueFound s r k mux t c).dialCount = s.dialCount ∧
    (issueFound s r k mux t c).connecting = s.connecting := by
  unfold issueFound
  refine ⟨by simp, ?_, ?_⟩ <;> (simp only []; split <;> rfl)

/-- The state `issue` works on after the token lookup and the `pop`. -/
def afterPop (s : State) (k : KeyId) : State :=
  let tk := tokenOf s k
  let pr := idlePop tk.1 (tk.1.idle tk.2)
  noteDropped { tk.1 with idle := upd tk.1.idle tk.2 pr.2.1 } pr.2.2

theorem issue_found (s : State) (r : ReqId) (k : KeyId) (mux : Bool) (c : ConnId)
    (hpop : (idlePop (tokenOf s k).1 ((tokenOf s k).1.idle (tokenOf s k).2)).1 = some c) :
    issue s r k mux = issueFound (afterPop s k) r k mux (tokenOf s k).2 c := by
  unfold issue afterPop; simp only [hpop]

theorem issue_missing (s : State) (r : ReqId) (k : KeyId) (mux : Bool)
    (hpop : (idlePop (tokenOf s k).1 ((tokenOf s k).1.idle (tokenOf s k).2)).1 = none) :
    issue s r k mux = issueMissing (afterPop s k) r k mux (tokenOf s k).2 := by
  unfold issue afterPop; simp only [hpop]

/-- … and its first poll hands that very connection out without any dial. -/
theorem C04_reuse_poll (s : State) (r : ReqId) (co : Checkout) (c : ConnId)
    (hcn : co.conn = some c) (hi : co.inner = .connected) (hw : co.waiter = .idle)
    (hch : ∀ p, s.chan r ≠ .full p) :
    (∃ p, (pollCheckout s r co).2.2 = .got p ∧ p.conn = c) ∧
    (pollCheckout s r co).1.dialCount = s.dialCount := by
  unfold pollCheckout pollWaiter
  cases hch' : s.chan r with
  | full p => exact absurd hch' (hch p)
  | txGone =>
    simp only [hw, hi, hcn]
    refine ⟨⟨_, rfl, ?_⟩, ?_⟩
    · unfold checkedOut; split <;> rfl
    · unfold dropRx; simp [hch']
  | empty =>
    simp only [hw, hi, hcn]
    refine ⟨⟨_, rfl, ?_⟩, ?_⟩
    · unfold checkedOut; split <;> rfl
    · unfold dropRx; simp [hch']
  | none =>
    simp only [hw, hi, hcn]
    refine ⟨⟨_, rfl, ?_⟩, ?_⟩
    · unfold checkedOut; split <;> rfl
    · unfold dropRx; simp [hch']
  | rxGone =>
    simp only [hw, hi, hcn]
    refine ⟨⟨_, rfl, ?_⟩, ?_⟩
    · unfold checkedOut; split <;> rfl
    · unfold dropRx; simp [hch']

/-- **C04 (share).** Taking a shareable connection out of the idle list leaves it available: it is
    again at the head of the origin's idle list when `checkout` returns, so concurrent and later
    requests find it. -/
theorem C04_share_stays_pooled (s : State) (r : ReqId) (k : KeyId) (mux : Bool) (t : Token) (c : ConnId)
    (hsh : canShare s c = true) :
    (issueFound s r k mux t c).idle t = (c, s.now) :: s.idle t := by
  unfold issueFound
  simp [hsh]

/-- **C04 (dedup).** While a multiplexed attempt for the origin is in flight (marker set) and
    nothing is idle, a newly issued request becomes a pure waiter that owns no marker … -/
theorem C04_dedup_issue (s : State) (r : ReqId) (k : KeyId) (mux : Bool) (t : Token)
    (hm : s.connecting.contains t = true) :
    (issueMissing s r k mux t).co r =
      some { key := k, token := t, mux := mux, waiter := .connecting, inner := .waiting } ∧
    r ∈ (issueMissing s r k mux t).waiting t ∧ (issueMissing s r k mux t).chan r = .empty := by
  have hm' : t ∈ s.connecting := by simpa using hm
  unfold issueMissing
  simp [hm']

/-- … and polling a pure waiter never dials. -/
theorem C04_dedup_poll (s : State) (r : ReqId) (c : Checkout) (hi : c.inner = .waiting) :
    (pollCheckout s r c).1.dialCount = s.dialCount := by
  unfold pollCheckout
  have hw : (pollWaiter s r c).1.dialCount = s.dialCount ∧ (pollWaiter s r c).2.1.inner = c.inner := by
    unfold pollWaiter
    split
    · split <;> simp
    · split <;> simp
    · simp
  generalize pollWaiter s r c = res at hw
  obtain ⟨s1, c1, w⟩ := res
  simp only [] at hw ⊢
  cases w with
  | none => exact hw.1
  | some o =>
    cases o with
    | some p => exact hw.1
    | none =>
      simp only []
      rw [hw.2, hi]
      exact hw.1

/-- A request for a multiplexed connection that starts the attempt places the marker and owns it;
    a non-multiplexed one places none. -/
theorem C04_marker_owner (s : State) (r : ReqId) (k : KeyId) (mux : Bool) (t : Token)
    (hm : s.connecting.contains t = false) :
    ∃ co, (issueMissing s r k mux t).co r = some co ∧ co.marker = mux ∧
      ((issueMissing s r k mux t).connecting.contains t = mux) := by
  have hm' : t ∉ s.connecting := by simpa using hm
  unfold issueMissing
  cases mux <;> simp [hm']

/-! ## Reachable-state theorem (from the invariant of `Lemmas/PoolMarker.lean`) -/

/-- **C04 (one HTTP/2 attempt per origin at a time), over all reachable states.** While the
    attempt-in-progress marker of an origin is in place, exactly one checkout is *the* attempt other
    requests wait for: two checkouts that both placed a marker for the origin and whose attempt id is
    the one stored with the marker in place are the same request. Together with `C04_dedup_issue` /
    `C04_dedup_poll` (a request issued while the marker is in place becomes a pure waiter and never
    dials) and `C03_only_owner_cancels` (nobody but that checkout removes the marker other than by
    providing a shareable connection): while an HTTP/2 attempt to an origin is in flight, further HTTP/2
    requests to it wait for it rather than dialing. -/
theorem C04_one_attempt_per_origin (cfg : Config) (ops : List Op) (r r' : ReqId) (c c' : Checkout)
    (h1 : (run (init cfg) ops).1.co r = some c) (h2 : (run (init cfg) ops).1.co r' = some c')
    (m1 : c.marker = true) (m2 : c'.marker = true)
    (o1 : c.attempt = (run (init cfg) ops).1.owner c.token) (o2 : c'.attempt = (run (init cfg) ops).1.owner c'.token)
    (ht : c.token = c'.token) : r = r' := by
  have h := run_minv ops (init cfg) (minv_init cfg)
  refine h.uniq r r' c.token c'.token c.attempt ?_ ?_
  · unfold holder; rw [h1]; simp [m1]
  · unfold holder; rw [h2]; simp [m2, o1, o2, ht]

/-- … and ids are never reused: any two checkouts that ever placed a marker (stale or not) carry
    different attempt ids. -/
theorem C04_attempt_ids_distinct (cfg : Config) (ops : List Op) (r r' : ReqId) (c c' : Checkout)
    (h1 : (run (init cfg) ops).1.co r = some c) (h2 : (run (init cfg) ops).1.co r' = some c')
    (m1 : c.marker = true) (m2 : c'.marker = true) (ha : c.attempt = c'.attempt) : r = r' := by
  have h := run_minv ops (init cfg) (minv_init cfg)
  refine h.uniq r r' c.token c'.token c.attempt ?_ ?_
  · unfold holder; rw [h1]; simp [m1]
  · unfold holder; rw [h2]; simp [m2, ha]

end Hd.Pool
