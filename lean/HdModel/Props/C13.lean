import HdModel.Spec.Wire
/-! # C13 — the request put on the wire matches the connection's protocol

Theorems about `Hd.Wire.send` / `handshakeProtocol` (mirrors of the client's layer stack below the
pool and of `HttpConnectionBuilder::handshake`) for **every** request: any method, scheme, host
string, port, path, query, version constant and header list. -/
namespace Hd.Wire

/-- **C13 (protocol choice).** The connection speaks HTTP/2 exactly when the request asked for
    HTTP/2 or TLS negotiated `h2` via ALPN, and HTTP/1.1 otherwise. -/
theorem C13_protocol_choice (requested : Conn) (alpnH2 : Bool) :
    handshakeProtocol requested alpnH2 = .h2 ↔ (requested = .h2 ∨ alpnH2 = true) := by
  cases requested <;> cases alpnH2 <;> simp [handshakeProtocol]

/-- HTTP/1.0 and HTTP/1.1 requests ask for HTTP/1, HTTP/2 requests for HTTP/2. -/
theorem C13_requested (v : Ver) :
    (v = .h10 ∨ v = .h11 → protocolOf v = some .h1) ∧ (v = .h2 → protocolOf v = some .h2) := by
  cases v <;> simp [protocolOf]

/-- **C13 (HTTP/1 target).** On an HTTP/1 connection a well-formed non-CONNECT request goes out in
    origin-form: no scheme, no authority, path and query exactly as given, an empty path `/`;
    CONNECT goes out in authority-form. Method unchanged, connection version stamped. -/
theorem C13_h1_target (r : Req) (hw : wellFormed r = true) :
    ∃ s, send .h1 r = .sent s ∧ s.method = r.method ∧ s.version = .h1 ∧
      s.target = (if r.connect then specAuthority r.uri else specOrigin r.uri) := by
  unfold wellFormed at hw
  simp only [Bool.and_eq_true] at hw
  obtain ⟨hs, hh⟩ := hw
  obtain ⟨sc, hsc⟩ := Option.isSome_iff_exists.mp hs
  obtain ⟨h, hh'⟩ := Option.isSome_iff_exists.mp hh
  have huri : (setHostHeader r).uri = r.uri := by
    unfold setHostHeader; rw [hh']; simp only []; split <;> rfl
  have hconn : (setHostHeader r).connect = r.connect := by
    unfold setHostHeader; rw [hh']; simp only []; split <;> rfl
  have hmeth : (setHostHeader r).method = r.method := by
    unfold setHostHeader; rw [hh']; simp only []; split <;> rfl
  unfold send http1Target
  simp only [huri, hconn, hmeth, hh', hsc]
  cases r.connect <;> simp [specAuthority, specOrigin, authorityForm, originForm]

/-- **C13 (HTTP/1 Host header).** A Host header is present; if the caller supplied one it is left
    untouched, otherwise it is the URI host plus the port unless that is the scheme's default;
    every other header is preserved in order. -/
theorem C13_h1_host (r : Req) (h : String) (hw : wellFormed r = true)
    (hh : r.uri.host = some h) :
    ∃ s, send .h1 r = .sent s ∧
      s.headers.filter (·.1 != "host") = r.headers.filter (·.1 != "host") ∧
      (hasHeader r.headers "host" = true → s.headers = r.headers) ∧
      (hasHeader r.headers "host" = false →
        s.headers = r.headers ++ [("host", hostHeaderValue r.uri h)]) := by
  obtain ⟨s, hs, _, _, _⟩ := C13_h1_target r hw
  refine ⟨s, hs, ?_⟩
  have hsh : s.headers = (setHostHeader r).headers := by
    unfold send at hs
    simp only [] at hs
    split at hs
    · cases hs
    · simp at hs; rw [← hs]
  rw [hsh]
  unfold setHostHeader
  rw [hh]
  simp only []
  cases hp : hasHeader r.headers "host" <;> simp [List.filter_append]

/-- The port rule of the Host header: omitted exactly for 80 on non-secure and 443 on secure schemes. -/
theorem C13_host_value (u : Uri) (h : String) (hk : knownScheme u = true) :
    hostHeaderValue u h = specHostValue u h := by
  unfold knownScheme at hk
  unfold hostHeaderValue specHostValue nonDefaultPort defaultPort isSecure
  cases hs : u.scheme with
  | none => simp [hs] at hk
  | some sc =>
    simp only [hs] at hk ⊢
    cases hp : u.port with
    | none => simp
    | some p =>
      by_cases h1 : sc = "http" <;> by_cases h2 : sc = "https" <;> by_cases h3 : sc = "ws" <;>
        by_cases h4 : sc = "wss" <;> by_cases p80 : p = 80 <;> by_cases p443 : p = 443 <;>
        simp_all <;> omega

/-- **C13 (HTTP/2 sanitised).** On an HTTP/2 connection the version is HTTP/2, the five
    connection-specific headers and Host are removed, everything else is preserved in order, and
    the target is untouched. -/
theorem C13_h2_sanitised (r : Req) (hc : r.connect = false) :
    ∃ s, send .h2 r = .sent s ∧ s.version = .h2 ∧ s.method = r.method ∧
      s.headers = r.headers.filter (fun h => !(connectionHeaders ++ ["host"]).contains h.1) ∧
      (∀ h ∈ s.headers, h.1 ∉ connectionHeaders ++ ["host"]) ∧
      s.target = untouched r.uri := by
  refine ⟨{ method := r.method, target := untouched r.uri, version := .h2,
            headers := removeHeaders r.headers (connectionHeaders ++ ["host"]) },
    by simp [send, hc], rfl, rfl, rfl, ?_, rfl⟩
  intro h hh
  simp only [removeHeaders, List.mem_filter] at hh
  simpa using hh.2

/-- **C13 (HTTP/2 CONNECT rejected).** -/
theorem C13_h2_connect_rejected (r : Req) (hc : r.connect = true) :
    send .h2 r = .errInvalidMethod := by
  simp [send, hc]

/-- Non-vacuity: an `https` request with an explicit default port and an empty path. -/
example :
    let r : Req := ⟨false, "GET", ⟨some "https", some "example.com", some 443, "", some "q=1"⟩, .h11, [("accept", "*/*")]⟩
    wellFormed r = true ∧
    send .h1 r = .sent ⟨"GET", ⟨none, none, none, "/", some "q=1"⟩, .h1,
      [("accept", "*/*"), ("host", "example.com")]⟩ := by
  decide

/-! ## Without any well-formedness hypothesis -/

theorem setHostHeader_method (r : Req) : (setHostHeader r).method = r.method := by
  unfold setHostHeader; split
  · rfl
  · split <;> rfl

/-- **C13 (the stamp matches the connection), every request.** Whatever the request - well-formed or not, any
    version constant it carries - if it is put on the wire at all it carries the connection's protocol version and
    the caller's method. -/
theorem C13_version_matches (c : Conn) (r : Req) (s : Sent) (h : send c r = .sent s) :
    s.version = c ∧ s.method = r.method := by
  cases c with
  | h1 =>
    simp only [send] at h
    split at h
    · simp at h
    · simp only [Outcome.sent.injEq] at h
      subst h
      exact ⟨rfl, setHostHeader_method r⟩
  | h2 =>
    simp only [send] at h
    split at h
    · simp at h
    · simp only [Outcome.sent.injEq] at h
      subst h
      exact ⟨rfl, rfl⟩

/-- **C13 (HTTP/1 always names its host).** Every request with a URI host that goes out on an HTTP/1 connection
    carries a Host header - whatever its scheme, method or other headers. -/
theorem C13_h1_host_present (r : Req) (s : Sent) (hh : r.uri.host.isSome = true) (h : send .h1 r = .sent s) :
    hasHeader s.headers "host" = true := by
  obtain ⟨hst, hhst⟩ := Option.isSome_iff_exists.mp hh
  simp only [send] at h
  split at h
  · simp at h
  · simp only [Outcome.sent.injEq] at h
    subst h
    simp only [setHostHeader, hhst]
    split
    · assumption
    · simp [hasHeader]

/-- … and no request goes out on an HTTP/2 connection with one. -/
theorem C13_h2_no_host (r : Req) (s : Sent) (h : send .h2 r = .sent s) : hasHeader s.headers "host" = false := by
  simp only [send] at h
  split at h
  · simp at h
  · simp only [Outcome.sent.injEq] at h
    subst h
    simp [hasHeader, removeHeaders]

/-- non-vacuity: a request carrying the HTTP/1.0 constant and no scheme, on both kinds of connection -/
example :
    let r : Req := ⟨false, "GET", ⟨none, some "example.com", some 8080, "/x", none⟩, .h10, [("upgrade", "h2c")]⟩
    send .h1 r = .sent ⟨"GET", ⟨none, some "example.com", some 8080, "/x", none⟩, .h1,
      [("upgrade", "h2c"), ("host", "example.com:8080")]⟩ ∧
    send .h2 r = .sent ⟨"GET", ⟨none, some "example.com", some 8080, "/x", none⟩, .h2, []⟩ := by
  decide

end Hd.Wire
