import HdModel.Lemmas.Dns
/-! # C16 — address preference sorting loses nothing and puts the preferred family first

Property theorems about the model `Hd.Dns.sortPreferred` (mirror of
`SocketAddrs::sort_preferred`), for **every** address list and preference. -/
namespace Hd.Dns

theorem scan_eq (l : List Addr) :
    scanLoop l 0 none none = (l.findIdx? isV4, l.findIdx? isV6) := by
  rw [scanLoop_spec]; simp

theorem find_of_findIdx (p : Addr → Bool) (l : List Addr) (i : Nat) (h : l.findIdx? p = some i) :
    ∃ b, l.find? p = some b := by
  obtain ⟨hl, hp, _⟩ := List.findIdx?_eq_some_iff_getElem.mp h
  cases hf : l.find? p with
  | some b => exact ⟨b, rfl⟩
  | none => exact absurd hp (by simpa using List.find?_eq_none.mp hf _ (List.getElem_mem hl))

theorem find_none_of_findIdx (p : Addr → Bool) (l : List Addr) (h : l.findIdx? p = none) :
    l.find? p = none := by
  rw [List.find?_eq_none]; intro x hx
  simpa using List.findIdx?_eq_none_iff.mp h x hx

/-- The index-based double removal extracts the first IPv4 and the first IPv6 address. -/
theorem extract_eq (l : List Addr) :
    extract l (l.findIdx? isV4) (l.findIdx? isV6) =
      (l.find? isV4, l.find? isV6, (l.eraseP isV6).eraseP isV4) := by
  cases l with
  | nil => simp [extract, removeIdx]
  | cons a rest =>
    cases hv : a.v6
    · have h4 : isV4 a = true := by simp [isV4, hv]
      have h6 : isV6 a = false := by simp [isV6, hv]
      have e4 : (a :: rest).findIdx? isV4 = some 0 := by simp [List.findIdx?_cons, h4]
      have r6 := removeIdx_findIdx isV6 (a :: rest)
      unfold extract
      rw [e4]
      cases h : (a :: rest).findIdx? isV6 with
      | none =>
        rw [h] at r6
        simp only [removeIdx] at r6
        obtain ⟨hf, he⟩ := Prod.mk.inj r6
        rw [← hf, ← he]
        simp [removeIdx, h4]
      | some j =>
        rw [h] at r6
        have hj : ¬ (0 > j) := by omega
        simp only [hj, decide_false, Bool.false_eq_true, ↓reduceIte, r6]
        simp [List.eraseP_cons, h6, h4, removeIdx]
    · have h4 : isV4 a = false := by simp [isV4, hv]
      have h6 : isV6 a = true := by simp [isV6, hv]
      have e6 : (a :: rest).findIdx? isV6 = some 0 := by simp [List.findIdx?_cons, h6]
      have r4 := removeIdx_findIdx isV4 (a :: rest)
      unfold extract
      rw [e6]
      cases h : (a :: rest).findIdx? isV4 with
      | none =>
        rw [h] at r4
        simp only [removeIdx] at r4
        obtain ⟨hf, he⟩ := Prod.mk.inj r4
        rw [← hf]
        simp only [List.eraseP_cons, h4, cond_false, List.cons.injEq, true_and] at he
        simp [removeIdx, h6, ← he]
      | some j =>
        rw [h] at r4
        have hj : j > 0 := by
          cases j with
          | zero => simp [List.findIdx?_cons, h4] at h
          | succ k => omega
        simp only [hj, decide_true, ↓reduceIte, r4]
        simp [List.eraseP_cons, h6, h4, removeIdx]

theorem eraseP_comm (l : List Addr) :
    (l.eraseP isV6).eraseP isV4 = (l.eraseP isV4).eraseP isV6 := by
  induction l with
  | nil => simp
  | cons a rest ih =>
    cases hv : a.v6 <;> simp [List.eraseP_cons, isV4, isV6, hv]
    all_goals (try simpa [isV4, isV6] using ih)

/-- **C16 (order).** The code's index juggling equals the specification: first address of the
    preferred family, first address of the other family, then the rest in the resolver's order. -/
theorem C16_eq_spec (prefer : Option Fam) (l : List Addr) :
    sortPreferred prefer l = spec prefer l := by
  unfold sortPreferred
  rw [scan_eq]
  simp only [extract_eq]
  unfold spec arrange
  cases h4 : l.find? isV4 <;> cases h6 : l.find? isV6 <;>
    (cases prefer with
     | none => simp [prefPred, otherPred, h4, h6]
     | some f => cases f <;> simp [prefPred, otherPred, h4, h6, eraseP_comm])

theorem find_eraseP_disjoint (p q : Addr → Bool) (hd : ∀ a, p a = true → q a = false)
    (l : List Addr) : (l.eraseP p).find? q = l.find? q := by
  induction l with
  | nil => simp
  | cons a rest ih =>
    by_cases hp : p a
    · simp [List.eraseP_cons, hp, List.find?_cons, hd a hp]
    · by_cases hq : q a <;> simp [List.eraseP_cons, hp, List.find?_cons, hq, ih]

theorem prefOther_disjoint (prefer : Option Fam) (a : Addr) :
    prefPred prefer a = true → otherPred prefer a = false := by
  cases prefer with
  | none => simp [prefPred, otherPred, isV4, isV6]
  | some f => cases f <;> simp [prefPred, otherPred, isV4, isV6]

theorem spec_perm (prefer : Option Fam) (l : List Addr) : (spec prefer l).Perm l := by
  unfold spec
  have hd := prefOther_disjoint prefer
  generalize prefPred prefer = p at *
  generalize otherPred prefer = q at *
  have hq := find_eraseP_disjoint p q hd l
  cases hp : l.find? p with
  | none =>
    rw [find_none_eraseP p l hp] at hq ⊢
    cases hq' : l.find? q with
    | none => simp [find_none_eraseP q l hq']
    | some b => simpa using find_perm q l b hq'
  | some a =>
    have h1 := find_perm p l a hp
    cases hq' : l.find? q with
    | none =>
      rw [hq'] at hq
      simpa [find_none_eraseP q _ hq] using h1
    | some b =>
      rw [hq'] at hq
      have h2 := find_perm q _ b hq
      simpa using (h2.cons a).trans h1

/-- **C16 (nothing lost, nothing duplicated).** Sorting is a permutation of the resolver's answer. -/
theorem C16_perm (prefer : Option Fam) (l : List Addr) : (sortPreferred prefer l).Perm l := by
  rw [C16_eq_spec]; exact spec_perm prefer l

theorem pref_or_other (prefer : Option Fam) (a : Addr) :
    prefPred prefer a = false → otherPred prefer a = true := by
  cases prefer with
  | none => simp [prefPred, otherPred, isV4, isV6]
  | some f => cases f <;> simp [prefPred, otherPred, isV4, isV6]

/-- **C16 (first, second, rest).** When both families are present the result is: first address of
    the preferred family, first address of the other family, then all remaining addresses, and
    those remaining addresses are a subsequence of the resolver's answer (order kept). -/
theorem C16_both (prefer : Option Fam) (l : List Addr) (a b : Addr)
    (ha : l.find? (prefPred prefer) = some a) (hb : l.find? (otherPred prefer) = some b) :
    ∃ rest, sortPreferred prefer l = a :: b :: rest ∧ rest.Sublist l ∧
      rest = (l.eraseP (prefPred prefer)).eraseP (otherPred prefer) := by
  refine ⟨_, ?_, ?_, rfl⟩
  · rw [C16_eq_spec]; simp [spec, ha, hb]
  · exact (List.eraseP_sublist).trans List.eraseP_sublist

/-- **C16 (single family).** With only one family present the first such address leads and the
    list is unchanged – in particular when the preferred family is absent. -/
theorem C16_no_preferred (prefer : Option Fam) (l : List Addr)
    (ha : l.find? (prefPred prefer) = none) : sortPreferred prefer l = l := by
  rw [C16_eq_spec]; unfold spec
  rw [ha, find_none_eraseP _ l ha]
  cases l with
  | nil => simp
  | cons x xs =>
    have hx : prefPred prefer x = false := by
      have := List.find?_eq_none.mp ha x (by simp); simpa using this
    have := pref_or_other prefer x hx
    simp [List.find?_cons, List.eraseP_cons, this]

theorem C16_no_other (prefer : Option Fam) (l : List Addr) (a : Addr)
    (ha : l.find? (prefPred prefer) = some a)
    (hb : l.find? (otherPred prefer) = none) : sortPreferred prefer l = l := by
  rw [C16_eq_spec]; unfold spec
  have hd := prefOther_disjoint prefer
  have h2 := find_eraseP_disjoint _ _ hd l
  rw [hb] at h2
  rw [ha, hb, find_none_eraseP _ _ h2]
  cases l with
  | nil => simp at ha
  | cons x xs =>
    have hx : otherPred prefer x = false := by
      have := List.find?_eq_none.mp hb x (by simp); simpa using this
    have hp : prefPred prefer x = true := by
      cases h : prefPred prefer x with
      | true => rfl
      | false => rw [pref_or_other prefer x h] at hx; cases hx
    simp [List.find?_cons, hp] at ha
    subst ha
    simp [List.eraseP_cons, hp]

/-- **C16 (port).** After `set_port p` every address carries port `p`, identities and families
    are untouched, and sorting keeps it that way. -/
theorem C16_port (prefer : Option Fam) (p : Nat) (l : List Addr) :
    (∀ a ∈ sortPreferred prefer (setPort p l), a.port = p) ∧
    (setPort p l).map (fun a => (a.v6, a.id)) = l.map (fun a => (a.v6, a.id)) := by
  constructor
  · intro a ha
    have := (C16_perm prefer (setPort p l)).mem_iff.mp ha
    simp [setPort] at this
    obtain ⟨b, _, rfl⟩ := this
    rfl
  · simp [setPort, Function.comp_def]

/-- **C16 (which family is preferred).** IPv6 unless only an IPv4 local address is bound. -/
theorem C16_preference (b4 b6 : Bool) :
    prefPred (fromBinding b4 b6) = (if b4 && !b6 then isV4 else isV6) := by
  cases b4 <;> cases b6 <;> rfl

/-- **C16 (glue).** `TcpTransport::connecting` hands the sorted list to the connection attempts
    whenever happy-eyeballs is enabled, and the untouched list otherwise. -/
theorem C16_connecting (he b4 b6 : Bool) (l : List Addr) :
    connectingOrder he b4 b6 l = (if he then spec (fromBinding b4 b6) l else l) := by
  unfold connectingOrder; split <;> simp [C16_eq_spec]

/-- Non-vacuity: a concrete mixed list meets the hypotheses of `C16_both`, and the model
    produces the expected order on it. -/
example :
    let l : List Addr := [⟨false, 1, 0⟩, ⟨false, 2, 0⟩, ⟨true, 3, 0⟩, ⟨true, 4, 0⟩, ⟨false, 5, 0⟩]
    l.find? (prefPred none) = some ⟨true, 3, 0⟩ ∧ l.find? (otherPred none) = some ⟨false, 1, 0⟩ ∧
    sortPreferred none l = [⟨true, 3, 0⟩, ⟨false, 1, 0⟩, ⟨false, 2, 0⟩, ⟨true, 4, 0⟩, ⟨false, 5, 0⟩] := by
  decide

/-! ## Sorting twice is sorting once

An algebraic law of the routine as a whole: the sorted answer is a fixed point (a caller that sorts an already
sorted list - e.g. a resolver layered on a sorting resolver - changes nothing). -/

theorem find_none_sub (q : Addr → Bool) (l r : List Addr) (hs : ∀ a ∈ r, a ∈ l) (h : l.find? q = none) :
    r.find? q = none ∧ r.eraseP q = r := by
  have hn : ∀ a ∈ r, ¬ q a = true := fun a ha => by
    have := List.find?_eq_none.mp h a (hs a ha); simpa using this
  exact ⟨List.find?_eq_none.mpr (fun a ha => by simpa using hn a ha), List.eraseP_of_forall_not hn⟩

/-- **Sorting is idempotent.** Sorting an already sorted answer changes nothing. -/
theorem C16_idempotent (prefer : Option Fam) (l : List Addr) :
    sortPreferred prefer (sortPreferred prefer l) = sortPreferred prefer l := by
  simp only [C16_eq_spec]
  have hd := prefOther_disjoint prefer
  have ho := pref_or_other prefer
  unfold spec
  generalize prefPred prefer = p at *
  generalize otherPred prefer = q at *
  cases hp : l.find? p with
  | none =>
    have e1 : l.eraseP p = l := (find_none_sub p l l (fun _ h => h) hp).2
    cases hq : l.find? q with
    | none =>
      cases l with
      | nil => simp
      | cons a t =>
        have h1 := List.find?_eq_none.mp hp a List.mem_cons_self
        have h2 := List.find?_eq_none.mp hq a List.mem_cons_self
        have := ho a (by simpa using h1)
        simp_all
    | some b =>
      have hb : q b = true := List.find?_some hq
      have hpb : p b = false := by
        cases h : p b
        · rfl
        · have := hd b h; simp_all
      simp only [e1, Option.toList_none, Option.toList_some, List.nil_append, List.singleton_append]
      have hsub : ∀ a ∈ l.eraseP q, a ∈ l := fun a h => List.mem_of_mem_eraseP h
      have := find_none_sub p l (l.eraseP q) hsub hp
      simp [hpb, hb, this.1, this.2]
  | some a =>
    have ha : p a = true := List.find?_some hp
    have hqa : q a = false := hd a ha
    cases hq : l.find? q with
    | none =>
      have hsub : ∀ x ∈ l.eraseP p, x ∈ l := fun x h => List.mem_of_mem_eraseP h
      have := find_none_sub q l (l.eraseP p) hsub hq
      simp [ha, hqa, this.1, this.2]
    | some b =>
      have hb : q b = true := List.find?_some hq
      have hpb : p b = false := by
        cases h : p b
        · rfl
        · have := hd b h; simp_all
      simp [ha, hqa, hb]

example : sortPreferred none [⟨false, 1, 80⟩, ⟨false, 2, 80⟩, ⟨true, 3, 80⟩, ⟨true, 4, 80⟩]
    = [⟨true, 3, 80⟩, ⟨false, 1, 80⟩, ⟨false, 2, 80⟩, ⟨true, 4, 80⟩] := by decide

/-! ## Order within each family -/

theorem filter_eraseP_disjoint (p q : Addr → Bool) (hd : ∀ a, q a = true → p a = false) (l : List Addr) :
    (l.eraseP q).filter p = l.filter p := by
  induction l with
  | nil => simp
  | cons a rest ih =>
    by_cases hq : q a = true
    · simp [hq, hd a hq]
    · by_cases hp : p a = true <;> simp [hq, hp, ih]

theorem find_eraseP_filter (p : Addr → Bool) (l : List Addr) :
    (l.find? p).toList ++ (l.eraseP p).filter p = l.filter p := by
  induction l with
  | nil => simp
  | cons a rest ih =>
    by_cases hp : p a = true
    · simp [hp]
    · simp [hp, ih]

theorem otherPref_disjoint (prefer : Option Fam) (a : Addr) :
    otherPred prefer a = true → prefPred prefer a = false := by
  intro h
  cases hp : prefPred prefer a
  · rfl
  · have := prefOther_disjoint prefer a hp; simp_all

theorem find_filter_none (p q : Addr → Bool) (hd : ∀ a, q a = true → p a = false) (l : List Addr) :
    (l.find? q).toList.filter p = [] := by
  cases h : l.find? q with
  | none => simp
  | some b => simp [hd b (List.find?_some h)]

theorem find_filter_self (p : Addr → Bool) (l : List Addr) : (l.find? p).toList.filter p = (l.find? p).toList := by
  cases h : l.find? p with
  | none => simp
  | some b => simp [List.find?_some h]

/-- **C16 (order kept within each family).** Restricted to either family, the sorted list is the resolver's answer
    restricted to that family: sorting only ever moves one address of each family to the front, it never reorders
    two addresses of the same family. -/
theorem C16_family_order (prefer : Option Fam) (l : List Addr) :
    (sortPreferred prefer l).filter (prefPred prefer) = l.filter (prefPred prefer) ∧
    (sortPreferred prefer l).filter (otherPred prefer) = l.filter (otherPred prefer) := by
  rw [C16_eq_spec]
  unfold spec
  have hpo := prefOther_disjoint prefer
  have hop := otherPref_disjoint prefer
  generalize prefPred prefer = p at *
  generalize otherPred prefer = q at *
  constructor
  · rw [List.filter_append, List.filter_append, find_filter_self, find_filter_none p q hop,
      filter_eraseP_disjoint p q hop, List.append_nil, find_eraseP_filter]
  · rw [List.filter_append, List.filter_append, find_filter_self, find_filter_none q p hpo, List.nil_append,
      ← find_eraseP_disjoint p q hpo l, find_eraseP_filter]
    exact filter_eraseP_disjoint q p hpo l

end Hd.Dns
