import HdModel.Model.NoPanic
/-! # C17 — no request value makes the client panic

`Hd.NoPanic.run` keeps the panic sites of the real code as `panic` outcomes of the helpers they
live in; the theorems say the services' guards keep every request away from them. -/
namespace Hd.NoPanic

/-- The conversion itself does panic: the guard is needed. -/
theorem protocolFrom_panics : (protocolFrom .h09).isPanic = true ∧ (protocolFrom .h3).isPanic = true := by decide
theorem authorityForm_panics : (authorityForm none).isPanic = true := by decide
theorem tlsStreamNew_panics : (tlsStreamNew false).isPanic = true := by decide

theorem bind_isPanic {α β} (x : Out α) (f : α → Out β) (hx : x.isPanic = false)
    (hf : ∀ a, (f a).isPanic = false) : (x.bind f).isPanic = false := by
  cases x with
  | val a => exact hf a
  | err e => rfl
  | panic s => simp [Out.isPanic] at hx

/-- **C17 (version constants).** Every `http::Version` constant gives a protocol or an error. -/
theorem C17_version (v : Ver) : (requestProtocol v).isPanic = false := by
  cases v <;> simp [requestProtocol, fromVersion, protocolFrom, Out.isPanic]

/-- Unsupported versions are errors, supported ones pick HTTP/1 or HTTP/2. -/
theorem C17_version_result (v : Ver) :
    (v = .h09 ∨ v = .h3 → requestProtocol v = .err .version) ∧
    (v = .h10 ∨ v = .h11 → requestProtocol v = .val .h1) ∧ (v = .h2 → requestProtocol v = .val .h2) := by
  cases v <;> simp [requestProtocol, fromVersion, protocolFrom]

/-- **C17 (TLS server name).** Whatever the host string, the TLS stage errors or succeeds. -/
theorem innerConnect_noPanic (r : Req) : (innerConnect r).isPanic = false := by
  unfold innerConnect
  split
  · unfold tcpHostPort; split
    · rfl
    · split <;> rfl
  · rfl

theorem C17_connect_stage (r : Req) : (connectStage r).isPanic = false := by
  unfold connectStage
  split
  · split
    · rfl
    · split
      · rfl
      · rename_i h
        have hv : r.nameValid = true := by simpa using h
        apply bind_isPanic _ _ (innerConnect_noPanic r)
        intro _
        simp only [hv, tlsStreamNew, if_true, Out.bind]
        split <;> rfl
  · exact innerConnect_noPanic r

/-- **C17 (URI forms).** Origin-form, authority-form, asterisk-form and absolute URIs with any
    method, on either protocol: the request checks error or succeed. -/
theorem C17_checks (p : Proto) (r : Req) : (checks p r).isPanic = false := by
  unfold checks
  cases p
  · simp only []
    split
    · split
      · rfl
      · rename_i h
        cases hh : r.host with
        | none => simp [hh] at h
        | some x => rfl
    · rfl
  · simp only []
    split
    · rfl
    · split
      · rfl
      · split <;> rfl

/-- **C17.** For every request — any service entry point, with or without TLS, any version
    constant, CONNECT or not, any combination of scheme / host / port being present, any host
    string whatever rustls thinks of it — the client returns a response or an error. -/
theorem C17_no_panic (r : Req) : (run r).isPanic = false := by
  unfold run
  apply bind_isPanic
  · split
    · unfold poolKey; split <;> rfl
    · rfl
  · intro _
    apply bind_isPanic _ _ (C17_version r.ver)
    intro proto
    apply bind_isPanic _ _ (C17_connect_stage r)
    intro _
    apply bind_isPanic _ _ (C17_checks (connectionProtocol proto r) r)
    intro _
    unfold sendStage; split <;> rfl

/-- The pooled services reject relative URIs before anything else happens. -/
theorem C17_pool_rejects_relative (r : Req) (hs : usesPoolKey r.svc = true)
    (hrel : r.scheme = none ∨ r.host = none) : run r = .err .uri := by
  unfold run
  simp only [hs, if_true, poolKey]
  rcases hrel with h | h <;> simp [h, Out.bind]

/-! Non-vacuity / reachability of the guarded branches. -/
example : run { svc := .connector, tls := false, tcpcheck := false, connect := true, scheme := none, host := none, port := none, ver := .h11, nameValid := true } = .err .protocol := by decide
example : run { svc := .client, tls := true, tcpcheck := true, connect := false, scheme := some "https", host := some "[::1]", port := none, ver := .h2, nameValid := true } = .val () := by decide
example : run { svc := .nopool, tls := true, tcpcheck := false, connect := false, scheme := some "wss", host := some "exa$mple.com", port := none, ver := .h11, nameValid := false } = .err .tlsName := by decide
example : run { svc := .pool, tls := false, tcpcheck := false, connect := false, scheme := some "http", host := some "example.com", port := none, ver := .h3, nameValid := true } = .err .version := by decide

end Hd.NoPanic
