import HdModel.Lemmas.PoolFrame
import HdModel.Props.Builder
/-! # C05 — the pool never hands out a closed or expired connection

`idlePop` mirrors `IdleConnections::pop`. Theorems for **every** idle list, clock value, timeout and
connection table. -/
namespace Hd.Pool

/-- **C05 (what `pop` returns).** The connection taken from the idle list is open (and ready), it
    has not sat idle longer than the non-zero timeout, and everything that was more recent than
    it in the list was closed (and is discarded). -/
theorem C05_pop_spec (s : State) (l : List (ConnId × Nat)) (c : ConnId)
    (h : (idlePop s l).1 = some c) :
    isOpenC s c = true ∧ ∃ at_, (c, at_) ∈ l ∧ expired s at_ = false := by
  induction l with
  | nil => simp [idlePop] at h
  | cons x rest ih =>
    obtain ⟨c', at'⟩ := x
    simp only [idlePop] at h
    split at h
    · simp at h
    · rename_i hexp
      split at h
      · rename_i hopen
        simp at h; subst h
        exact ⟨hopen, at', by simp, by simpa using hexp⟩
      · generalize hres : idlePop s rest = res at h ih
        obtain ⟨r, l', d⟩ := res
        simp only [] at h
        obtain ⟨ho, a, hm, he⟩ := ih h
        exact ⟨ho, a, List.mem_cons_of_mem _ hm, he⟩

/-- **C05 (expiry clears the list).** Once an expired entry is met, nothing is returned and nothing
    at or beyond it survives; a `None` or zero timeout never expires anything. -/
theorem C05_expired_head (s : State) (c : ConnId) (at_ : Nat) (rest : List (ConnId × Nat))
    (h : expired s at_ = true) : idlePop s ((c, at_) :: rest) = (none, [], c :: rest.map (·.1)) := by
  simp [idlePop, h]

theorem C05_no_timeout_never_expires (s : State) (at_ : Nat)
    (h : s.cfg.idleTimeout = none ∨ s.cfg.idleTimeout = some 0) : expired s at_ = false := by
  unfold expired
  rcases h with h | h <;> simp [h]

/-- The remaining list is a suffix of the original (order kept, nothing invented). -/
theorem C05_pop_suffix (s : State) (l : List (ConnId × Nat)) : (idlePop s l).2.1 <:+ l := by
  induction l with
  | nil => simp [idlePop]
  | cons x rest ih =>
    obtain ⟨c', at'⟩ := x
    simp only [idlePop]
    split
    · exact List.nil_suffix
    · split
      · exact List.suffix_cons _ _
      · generalize idlePop s rest = res at ih
        obtain ⟨r, l', d⟩ := res
        exact ih.trans (List.suffix_cons _ _)

/-- **C05 (a fresh request never gets a stale connection).** The connection `issue` equips a new
    checkout with is the one `pop` returned – open, ready and unexpired at that moment. -/
theorem C05_issue_fresh (s : State) (r : ReqId) (k : KeyId) (mux : Bool) (c : ConnId)
    (hpop : (idlePop (tokenOf s k).1 ((tokenOf s k).1.idle (tokenOf s k).2)).1 = some c) :
    isOpenC (tokenOf s k).1 c = true ∧
    ∃ co, (issue s r k mux).co r = some co ∧ co.conn = some c := by
  refine ⟨(C05_pop_spec _ _ c hpop).1, ?_⟩
  unfold issue
  simp only [hpop]
  unfold issueFound
  exact ⟨{ key := k, token := (tokenOf s k).2, mux := mux, waiter := .idle, inner := .connected, conn := some c },
    by simp, rfl⟩

/-! ## What `pop` throws away -/

/-- **C05 (`pop` accounts for every handle).** The handles it discards, the one it returns and the ones it leaves in
    the list are together exactly the list it was given, in order: nothing vanishes and nothing is invented. -/
theorem C05_pop_conserves (s : State) (l : List (ConnId × Nat)) :
    (idlePop s l).2.2 ++ (idlePop s l).1.toList ++ (idlePop s l).2.1.map (·.1) = l.map (·.1) := by
  induction l with
  | nil => simp [idlePop]
  | cons x rest ih =>
    obtain ⟨c', at'⟩ := x
    simp only [idlePop]
    split
    · simp
    · split
      · simp
      · generalize idlePop s rest = res at ih
        obtain ⟨r, l', d⟩ := res
        simpa using ih

/-- **C05 (only dead connections are discarded).** If nothing in the list has expired, every handle `pop` throws
    away is a closed connection - a usable idle connection is never dropped on the way to an older one. -/
theorem C05_pop_drops_only_closed (s : State) (l : List (ConnId × Nat))
    (hne : ∀ x ∈ l, expired s x.2 = false) : ∀ c ∈ (idlePop s l).2.2, isOpenC s c = false := by
  induction l with
  | nil => simp [idlePop]
  | cons x rest ih =>
    obtain ⟨c', at'⟩ := x
    have h0 : expired s at' = false := hne (c', at') (by simp)
    have ih' := ih (fun y hy => hne y (List.mem_cons_of_mem _ hy))
    simp only [idlePop]
    rw [if_neg (by simp [h0])]
    by_cases hopen : isOpenC s c' = true
    · simp [hopen]
    · rw [if_neg hopen]
      generalize idlePop s rest = res at ih'
      obtain ⟨r, l', d⟩ := res
      intro c hc
      simp only [List.mem_cons] at hc
      rcases hc with rfl | hc
      · simpa using hopen
      · exact ih' c hc

/-- the hypothesis above is met by every list when no (or a zero) idle timeout is configured -/
theorem C05_no_timeout_drops_only_closed (s : State) (l : List (ConnId × Nat))
    (h : s.cfg.idleTimeout = none ∨ s.cfg.idleTimeout = some 0) : ∀ c ∈ (idlePop s l).2.2, isOpenC s c = false :=
  C05_pop_drops_only_closed s l (fun x _ => C05_no_timeout_never_expires s x.2 h)


/-- **C05 (exactly which connection `pop` returns).** It is the most recent entry that is open; everything more
    recent was closed (and unexpired) and is exactly what is discarded; everything older stays, untouched. -/
theorem C05_pop_split (s : State) (l : List (ConnId × Nat)) (c : ConnId) (h : (idlePop s l).1 = some c) :
    ∃ pre at_, l = pre ++ (c, at_) :: (idlePop s l).2.1 ∧
      (∀ x ∈ pre, isOpenC s x.1 = false ∧ expired s x.2 = false) ∧
      isOpenC s c = true ∧ expired s at_ = false ∧ (idlePop s l).2.2 = pre.map (·.1) := by
  induction l with
  | nil => simp [idlePop] at h
  | cons x rest ih =>
    obtain ⟨c', at'⟩ := x
    simp only [idlePop] at h ⊢
    by_cases hexp : expired s at' = true
    · simp [hexp] at h
    · rw [if_neg hexp] at h ⊢
      by_cases hopen : isOpenC s c' = true
      · rw [if_pos hopen] at h ⊢
        simp at h; subst h
        exact ⟨[], at', by simp, by simp, hopen, by simpa using hexp, by simp⟩
      · rw [if_neg hopen] at h ⊢
        generalize hres : idlePop s rest = res at h ih ⊢
        obtain ⟨r, l', d⟩ := res
        simp only [] at h ih ⊢
        obtain ⟨pre, a, h1, h2, h3, h4, h5⟩ := ih h
        refine ⟨(c', at') :: pre, a, by simp [h1], ?_, h3, h4, by simp [h5]⟩
        intro y hy
        simp only [List.mem_cons] at hy
        rcases hy with rfl | hy
        · exact ⟨by simpa using hopen, by simpa using hexp⟩
        · exact h2 y hy

end Hd.Pool
