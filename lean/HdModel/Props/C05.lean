import HdModel.Lemmas.PoolFrame
import HdModel.Props.Builder
/-! # C05 — the pool never hands out a closed or expired connection

`idlePop` mirrors `IdleConnections::pop`. Theorems for **every** idle list, clock value, timeout and
connection table. -/
namespace Hd.Pool

/-- **C05 (what `pop` returns).** The connection taken from the idle list is open (and ready), it
    has not sat idle longer than the non-zero timeout, and everything that was more recent than
    it in the list was closed (and is discarded). -/
theorem C05_pop_spec (s : State) (l : List (ConnId × Nat)) (c : ConnId)
    (h : (idlePop s l).1 = some c) :
    isOpenC s c = true ∧ ∃ at_, (c, at_) ∈ l ∧ expired s at_ = false := by
  induction l with
  | nil => simp [idlePop] at h
  | cons x rest ih =>
    obtain ⟨c', at'⟩ := x
    simp only [idlePop] at h
    split at h
    · simp at h
    · rename_i hexp
      split at h
      · rename_i hopen
        simp at h; subst h
        exact ⟨hopen, at', by simp, by simpa using hexp⟩
      · generalize hres : idlePop s rest = res at h ih
        obtain ⟨r, l', d⟩ := res
        simp only [] at h
        obtain ⟨ho, a, hm, he⟩ := ih h
        exact ⟨ho, a, List.mem_cons_of_mem _ hm, he⟩

/-- **C05 (expiry clears the list).** Once an expired entry is met, nothing is returned and nothing
    at or beyond it survives; a `None` or zero timeout never expires anything. -/
theorem C05_expired_head (s : State) (c : ConnId) (at_ : Nat) (rest : List (ConnId × Nat))
    (h : expired s at_ = true) : idlePop s ((c, at_) :: rest) = (none, [], c :: rest.map (·.1)) := by
  simp [idlePop, h]

theorem C05_no_timeout_never_expires (s : State) (at_ : Nat)
    (h : s.cfg.idleTimeout = none ∨ s.cfg.idleTimeout = some 0) : expired s at_ = false := by
  unfold expired
  rcases h with h | h <;> simp [h]

/-- The remaining list is a suffix of the original (order kept, nothing invented). -/
theorem C05_pop_suffix (s : State) (l : List (ConnId × Nat)) : (idlePop s l).2.1 <:+ l := by
  induction l with
  | nil => simp [idlePop]
  | cons x rest ih =>
    obtain ⟨c', at'⟩ := x
    simp only [idlePop]
    split
    · exact List.nil_suffix
    · split
      · exact List.suffix_cons _ _
      · generalize idlePop s rest = res at ih
        obtain ⟨r, l', d⟩ := res
        exact ih.trans (List.suffix_cons _ _)

/-- **C05 (a fresh request never gets a stale connection).** The connection `issue` equips a new
    checkout with is the one `pop` returned – open, ready and unexpired at that moment. -/
theorem C05_issue_fresh (s : State) (r : ReqId) (k : KeyId) (mux : Bool) (c : ConnId)
    (hpop : (idlePop (tokenOf s k).1 ((tokenOf s k).1.idle (tokenOf s k).2)).1 = some c) :
    isOpenC (tokenOf s k).1 c = true ∧
    ∃ co, (issue s r k mux).co r = some co ∧ co.conn = some c := by
  refine ⟨(C05_pop_spec _ _ c hpop).1, ?_⟩
  unfold issue
  simp only [hpop]
  unfold issueFound
  exact ⟨{ key := k, token := (tokenOf s k).2, mux := mux, waiter := .idle, inner := .connected, conn := some c },
    by simp, rfl⟩

end Hd.Pool
