import HdModel.Spec.Streams
import HdModel.Props.C08
/-! # C18 — stream adapters deliver exactly the bytes written, in order

Theorems about the adapter-stack model `Hd.Streams` (bridge in both directions, `Rewind`, dispatch
wrappers) for **every** stack, every read/write script of the inner io, and every sequence of
read / write / vectored write / flush / shutdown operations with arbitrary buffer sizes; and about
the in-process pipe for every operation sequence on both ends. `C18_rewind_fifo` (in `Props/C08`)
covers `Rewind::poll_read` in isolation. Memory safety of the `unsafe` blocks is not modelled. -/
namespace Hd.Streams
open Hd.Sniff

def resBytes : Res → Bytes
  | .bytes bs => bs
  | _ => []

theorem takePrefix_some {ls ls' : List Layer} {cap : Nat} {bs : Bytes}
    (h : takePrefix ls cap = some (bs, ls')) : bs ++ prefixesOf ls' = prefixesOf ls ∧ bs.length ≤ cap := by
  induction ls generalizing ls' bs with
  | nil => simp [takePrefix] at h
  | cons l rest ih =>
    cases l with
    | wrapper =>
      simp only [takePrefix, Option.map_eq_some_iff] at h
      obtain ⟨⟨b, r'⟩, hr, he⟩ := h
      simp at he; obtain ⟨rfl, rfl⟩ := he
      simpa [prefixesOf] using ih hr
    | bridge =>
      simp only [takePrefix, Option.map_eq_some_iff] at h
      obtain ⟨⟨b, r'⟩, hr, he⟩ := h
      simp at he; obtain ⟨rfl, rfl⟩ := he
      simpa [prefixesOf] using ih hr
    | rewind pre =>
      cases pre with
      | nil =>
        simp only [takePrefix, Option.map_eq_some_iff] at h
        obtain ⟨⟨b, r'⟩, hr, he⟩ := h
        simp at he; obtain ⟨rfl, rfl⟩ := he
        simpa [prefixesOf] using ih hr
      | cons p ps =>
        simp only [takePrefix, Option.some.injEq, Prod.mk.injEq] at h
        obtain ⟨rfl, rfl⟩ := h
        constructor
        · simp only [prefixesOf, ← List.append_assoc, List.take_append_drop]
        · simp; omega

theorem takePrefix_none {ls : List Layer} {cap : Nat} (h : takePrefix ls cap = none) : prefixesOf ls = [] := by
  induction ls with
  | nil => rfl
  | cons l rest ih =>
    cases l with
    | wrapper => simp only [takePrefix, Option.map_eq_none_iff] at h; simpa [prefixesOf] using ih h
    | bridge => simp only [takePrefix, Option.map_eq_none_iff] at h; simpa [prefixesOf] using ih h
    | rewind pre =>
      cases pre with
      | nil => simp only [takePrefix, Option.map_eq_none_iff] at h; simpa [prefixesOf] using ih h
      | cons p ps => simp [takePrefix] at h

/-- One read conserves the stream and respects the caller's capacity. -/
theorem read_conserve (s : St) (cap : Nat) :
    resBytes (read s cap).1 ++ prefixesOf (read s cap).2.layers ++ drainAll (read s cap).2.revs =
      prefixesOf s.layers ++ drainAll s.revs ∧ (resBytes (read s cap).1).length ≤ cap := by
  unfold read
  cases hp : takePrefix s.layers cap with
  | some p =>
    obtain ⟨bs, ls'⟩ := p
    obtain ⟨h1, h2⟩ := takePrefix_some hp
    simp only [resBytes]
    exact ⟨by rw [← h1], h2⟩
  | none =>
    have h0 := takePrefix_none hp
    simp only []
    cases hr : s.revs with
    | nil => simp [resBytes, h0, drainAll, hr]
    | cons ev rest =>
      cases ev with
      | pending => simp [resBytes, h0, drainAll]
      | err => simp [resBytes, h0, drainAll]
      | eof => simp [resBytes, h0, drainAll]
      | data bs =>
        simp only [resBytes, h0, List.append_nil, List.nil_append]
        constructor
        · split
          · rename_i he
            have := List.take_append_drop (min bs.length cap) bs
            rw [List.isEmpty_iff.mp he, List.append_nil] at this
            simp [drainAll, this]
          · simp [drainAll, take_drop_app]
        · simp; omega

theorem step_layers_revs (s : St) (op : Op) (h : ∀ cap, op ≠ .read cap) :
    (step s op).2.layers = s.layers ∧ (step s op).2.revs = s.revs ∧ resBytes (step s op).1 = [] := by
  cases op with
  | read cap => exact absurd rfl (h cap)
  | write bs =>
    simp only [step, write, innerWrite]
    cases s.wevs with
    | nil => simp [resBytes]
    | cons w ws => cases w <;> simp [resBytes]
  | writev sl =>
    simp only [step, writeVectored, innerWrite]
    split <;> (cases s.wevs with
      | nil => simp [resBytes]
      | cons w ws => cases w <;> simp [resBytes])
  | flush => simp [step, flush, resBytes]
  | shutdown => simp [step, shutdown, resBytes]

theorem deliveredBytes_cons (r : Res) (rs : List Res) : deliveredBytes (r :: rs) = resBytes r ++ deliveredBytes rs := by
  cases r <;> simp [deliveredBytes, resBytes]

/-- **C18 (reads are FIFO through any stack).** For every stack, script and operation sequence the
    bytes delivered by the reads, followed by what is still buffered or unread, are exactly
    replay-prefix ++ inner stream: nothing lost, duplicated, reordered or invented. -/
theorem C18_read_fifo (s : St) (ops : List Op) :
    deliveredBytes (run s ops).1 ++ prefixesOf (run s ops).2.layers ++ drainAll (run s ops).2.revs =
      prefixesOf s.layers ++ drainAll s.revs := by
  induction ops generalizing s with
  | nil => simp [run, deliveredBytes]
  | cons op ops ih =>
    simp only [run]
    rw [deliveredBytes_cons, List.append_assoc, List.append_assoc, ← List.append_assoc (deliveredBytes _), ih]
    by_cases hr : ∃ cap, op = .read cap
    · obtain ⟨cap, rfl⟩ := hr
      have := (read_conserve s cap).1
      simpa [step, List.append_assoc] using this
    · have := step_layers_revs s op (by intro cap h; exact hr ⟨cap, h⟩)
      rw [this.1, this.2.1, this.2.2]; simp

/-- … hence what the reads deliver is a prefix of the source stream. -/
theorem C18_read_prefix (s : St) (ops : List Op) :
    deliveredBytes (run s ops).1 <+: prefixesOf s.layers ++ drainAll s.revs := by
  rw [← C18_read_fifo s ops, List.append_assoc]
  exact List.prefix_append _ _

theorem innerWrite_written (s : St) (bs : Bytes) :
    (innerWrite s bs).2.written = s.written ++ (match (innerWrite s bs).1 with | .count n => bs.take n | _ => []) ∧
    (innerWrite s bs).2.flushes = s.flushes ∧ (innerWrite s bs).2.shutdowns = s.shutdowns := by
  unfold innerWrite
  cases s.wevs with
  | nil => simp
  | cons w ws =>
    cases w with
    | acc n => simp
    | pending => simp
    | err => simp

theorem innerWrite_count_le (s : St) (bs : Bytes) (n : Nat) (h : (innerWrite s bs).1 = .count n) : n ≤ bs.length := by
  unfold innerWrite at h
  cases hw : s.wevs with
  | nil => simp [hw] at h; omega
  | cons w ws =>
    cases w with
    | acc k => simp [hw] at h; omega
    | pending => simp [hw] at h
    | err => simp [hw] at h

theorem first_nonempty_prefix (sl : List Bytes) :
    ∃ t, sl.flatten = ((sl.find? (fun b => !b.isEmpty)).getD []) ++ t := by
  induction sl with
  | nil => exact ⟨[], by simp⟩
  | cons b rest ih =>
    cases b with
    | nil => simpa [List.find?_cons] using ih
    | cons x xs => exact ⟨rest.flatten, by simp [List.find?_cons]⟩

/-- **C18 (writes are forwarded unchanged).** What reaches the inner io is exactly, in order, the part
    of each plain or vectored write that was reported as accepted; a vectored write never reports
    more than it was given. -/
theorem C18_write_forward (s : St) (ops : List Op) :
    (run s ops).2.written = s.written ++ acceptedBytes ops (run s ops).1 := by
  induction ops generalizing s with
  | nil => simp [run, acceptedBytes]
  | cons op ops ih =>
    simp only [run]
    rw [ih]
    cases op with
    | read cap =>
      have : (step s (.read cap)).2.written = s.written := by
        simp only [step, read]; split
        · rfl
        · split <;> rfl
      rw [this]
      cases (step s (.read cap)).1 <;> simp [acceptedBytes]
    | write bs =>
      have h := (innerWrite_written s bs).1
      simp only [step, write]
      rw [h]
      cases hr : (innerWrite s bs).1 <;> simp [acceptedBytes, List.append_assoc]
    | writev sl =>
      simp only [step, writeVectored]
      split
      · have h := (innerWrite_written s sl.flatten).1
        rw [h]
        cases hr : (innerWrite s sl.flatten).1 <;> simp [acceptedBytes, List.append_assoc]
      · -- a dispatch wrapper passes on the first non-empty slice only: a prefix of the concatenation
        have h := (innerWrite_written s ((sl.find? (fun b => !b.isEmpty)).getD [])).1
        rw [h]
        cases hr : (innerWrite s ((sl.find? (fun b => !b.isEmpty)).getD [])).1 with
        | count n =>
          simp only [acceptedBytes, List.append_assoc, List.append_cancel_left_eq]
          congr 1
          have hle := innerWrite_count_le s _ n hr
          obtain ⟨t, ht⟩ := first_nonempty_prefix sl
          rw [ht, List.take_append_of_le_length hle]
        | _ => simp [acceptedBytes]
    | flush => simp [step, flush, acceptedBytes]
    | shutdown => simp [step, shutdown, acceptedBytes]

/-- **C18 (flush and shutdown reach the inner io).** -/
theorem C18_flush_shutdown_forwarded (s : St) (ops : List Op) :
    (run s ops).2.flushes = s.flushes + (ops.filter (· == .flush)).length ∧
    (run s ops).2.shutdowns = s.shutdowns + (ops.filter (· == .shutdown)).length := by
  induction ops generalizing s with
  | nil => simp [run]
  | cons op ops ih =>
    simp only [run]
    obtain ⟨i1, i2⟩ := ih (step s op).2
    rw [i1, i2]
    cases op with
    | read cap =>
      have : (step s (.read cap)).2.flushes = s.flushes ∧ (step s (.read cap)).2.shutdowns = s.shutdowns := by
        simp only [step, read]; split
        · exact ⟨rfl, rfl⟩
        · split <;> exact ⟨rfl, rfl⟩
      rw [this.1, this.2]; simp [List.filter_cons]
    | write bs =>
      have h := innerWrite_written s bs
      simp only [step, write]; rw [h.2.1, h.2.2]; simp [List.filter_cons]
    | writev sl =>
      simp only [step, writeVectored]
      split
      · have h := innerWrite_written s sl.flatten
        rw [h.2.1, h.2.2]; simp [List.filter_cons]
      · have h := innerWrite_written s ((sl.find? (fun b => !b.isEmpty)).getD [])
        rw [h.2.1, h.2.2]; simp [List.filter_cons]
    | flush => simp [step, flush, List.filter_cons]; omega
    | shutdown => simp [step, shutdown, List.filter_cons]; omega

/-- **C18 (the model meets the FIFO specification)** for every stack, script and operation sequence. -/
theorem C18_run_spec (layers : List Layer) (revs : List Ev) (wevs : List WEv) (ops : List Op) :
    let s0 : St := { layers := layers, revs := revs, wevs := wevs }
    verdict s0 ops (run s0 ops).1 (run s0 ops).2.written (run s0 ops).2.flushes (run s0 ops).2.shutdowns = none := by
  intro s0
  unfold verdict
  have h1 : (deliveredBytes (run s0 ops).1).isPrefixOf (prefixesOf s0.layers ++ drainAll s0.revs) = true :=
    List.isPrefixOf_iff_prefix.mpr (C18_read_prefix s0 ops)
  have h3 := C18_write_forward s0 ops
  have h4 := C18_flush_shutdown_forwarded s0 ops
  have h2 : readOverflow ops (run s0 ops).1 = false := by
    clear h1 h3 h4
    generalize s0 = s
    induction ops generalizing s with
    | nil => simp [run, readOverflow]
    | cons op ops ih =>
      simp only [run]
      cases op with
      | read cap =>
        have := (read_conserve s cap).2
        simp only [step]
        cases hr : (read s cap).1 <;> simp [hr, resBytes, readOverflow, ih] at this ⊢
        omega
      | write bs => cases (step s (.write bs)).1 <;> simp [readOverflow, ih]
      | writev sl => cases (step s (.writev sl)).1 <;> simp [readOverflow, ih]
      | flush => cases (step s .flush).1 <;> simp [readOverflow, ih]
      | shutdown => cases (step s .shutdown).1 <;> simp [readOverflow, ih]
  simp only [h1, h2, Bool.not_true, Bool.false_eq_true, ↓reduceIte]
  have e3 : ((run s0 ops).2.written != acceptedBytes ops (run s0 ops).1) = false := by
    rw [h3]; simp [s0]
  have e4 : ((run s0 ops).2.flushes != (ops.filter (· == .flush)).length) = false := by
    rw [h4.1]; simp [s0]
  have e5 : ((run s0 ops).2.shutdowns != (ops.filter (· == .shutdown)).length) = false := by
    rw [h4.2]; simp [s0]
  simp [e3, e4, e5]

/-! ### The pipe -/

theorem pipe_ab_conserve (d : Duplex) (ops : List POp) :
    pDelivered false ops (prun d ops).1 ++ (prun d ops).2.ab.buf = d.ab.buf ++ pAccepted true ops (prun d ops).1 := by
  induction ops generalizing d with
  | nil => simp [prun, pDelivered, pAccepted]
  | cons op ops ih =>
    simp only [prun]
    cases op with
    | write side bs =>
      cases side with
      | true =>
        simp only [pstep, Pipe.write]
        split
        · simpa [pDelivered, pAccepted] using ih _
        · split
          · simpa [pDelivered, pAccepted] using ih _
          · have := ih { d with ab := { d.ab with buf := d.ab.buf ++ bs.take (d.ab.cap - d.ab.buf.length) } }
            simp only [pDelivered, pAccepted, beq_self_eq_true, ↓reduceIte] at this ⊢
            rw [this]
            simp [List.take_take, Nat.min_comm]
      | false =>
        simp only [pstep, Pipe.write]
        split
        · simpa [pDelivered, pAccepted] using ih _
        · split
          · simpa [pDelivered, pAccepted] using ih _
          · simpa [pDelivered, pAccepted] using ih _
    | read side cap =>
      cases side with
      | true =>
        simp only [pstep, Pipe.read]
        split
        · simpa [pDelivered, pAccepted] using ih _
        · split <;> simpa [pDelivered, pAccepted] using ih _
      | false =>
        simp only [pstep, Pipe.read]
        split
        · rename_i b bs' hb
          have := ih { d with ab := { d.ab with buf := (b :: bs').drop (min (b :: bs').length cap) } }
          simp only [pDelivered, pAccepted, beq_self_eq_true, ↓reduceIte, List.append_assoc] at this ⊢
          rw [this, hb, ← List.append_assoc, List.take_append_drop]
        · split <;> simpa [pDelivered, pAccepted] using ih _
    | flush side => simpa [pstep, pDelivered, pAccepted] using ih _
    | shutdown side =>
      cases side <;> simpa [pstep, Pipe.shutdown, pDelivered, pAccepted] using ih _

/-- **C18 (the in-process pipe is FIFO).** Whatever the two ends do – any sizes, any interleaving,
    partial writes when the buffer is full – what B has read is a prefix of what A's writes
    were told was accepted. -/
theorem C18_pipe_fifo (cap : Nat) (ops : List POp) :
    let d0 : Duplex := { ab := { cap := cap }, ba := { cap := cap } }
    pDelivered false ops (prun d0 ops).1 <+: pAccepted true ops (prun d0 ops).1 := by
  intro d0
  have := pipe_ab_conserve d0 ops
  simp only [d0, List.nil_append] at this
  rw [← this]
  exact List.prefix_append _ _

/-- The bookkeeping of the specification matches the state of a pipe direction. -/
def FlowOk (f : Flow) (p : Pipe) : Prop := f.acc = f.del + p.buf.length ∧ f.shut = p.closed

/-- **C18 (data and end-of-stream get through the pipe).** In every run a read is `Pending` only
    while nothing is in flight and the writer has not shut down; once the writer has shut down and
    its bytes have been consumed the reader sees end-of-stream; no spurious end-of-stream. -/
theorem pipe_progress (d : Duplex) (ops : List POp) (fab fba : Flow)
    (hab : FlowOk fab d.ab) (hba : FlowOk fba d.ba) :
    progress ops (prun d ops).1 fab fba = none := by
  induction ops generalizing d fab fba with
  | nil => simp [prun, progress]
  | cons op ops ih =>
    simp only [prun]
    obtain ⟨a1, a2⟩ := hab
    obtain ⟨b1, b2⟩ := hba
    cases op with
    | write side bs =>
      cases side with
      | true =>
        simp only [pstep, Pipe.write]
        split
        · simp only [progress]; exact ih _ _ _ ⟨a1, a2⟩ ⟨b1, b2⟩
        · split
          · simp only [progress]; exact ih _ _ _ ⟨a1, a2⟩ ⟨b1, b2⟩
          · simp only [progress, ↓reduceIte]
            refine ih _ _ _ ⟨?_, a2⟩ ⟨b1, b2⟩
            simp [a1]; omega
      | false =>
        simp only [pstep, Pipe.write]
        split
        · simp only [progress]; exact ih _ _ _ ⟨a1, a2⟩ ⟨b1, b2⟩
        · split
          · simp only [progress]; exact ih _ _ _ ⟨a1, a2⟩ ⟨b1, b2⟩
          · simp only [progress, Bool.false_eq_true, ↓reduceIte]
            refine ih _ _ _ ⟨a1, a2⟩ ⟨?_, b2⟩
            simp [b1]; omega
    | read side cap =>
      cases side with
      | true =>
        simp only [pstep, Pipe.read]
        split
        · rename_i b bs' hb
          simp only [progress, ↓reduceIte]
          have hne : ¬ ((List.take (min (b :: bs').length cap) (b :: bs')).isEmpty = true ∧ cap > 0) := by
            intro ⟨h, hc⟩
            have := List.isEmpty_iff.mp h
            have hl := congrArg List.length this
            simp at hl; omega
          by_cases hc : cap > 0
          · have : (List.take (min (b :: bs').length cap) (b :: bs')).isEmpty = false := by
              cases h : (List.take (min (b :: bs').length cap) (b :: bs')).isEmpty with
              | true => exact absurd ⟨h, hc⟩ hne
              | false => rfl
            simp only [this, Bool.false_and, Bool.false_eq_true, ↓reduceIte]
            refine ih _ _ _ ⟨a1, a2⟩ ⟨?_, b2⟩
            simp [b1, hb]; omega
          · have hc0 : cap = 0 := by omega
            subst hc0
            simp only [gt_iff_lt, Nat.lt_irrefl, decide_false, Bool.and_false, Bool.false_and, Bool.false_eq_true, ↓reduceIte]
            refine ih _ _ _ ⟨a1, a2⟩ ⟨?_, b2⟩
            simp [b1, hb]
        · rename_i hb
          split
          · rename_i hcl
            simp only [progress, ↓reduceIte]
            have hdel : fba.del = fba.acc := by rw [b1, hb]; simp
            have hsh : fba.shut = true := by rw [b2, hcl]
            simp only [List.isEmpty_nil, hsh, hdel, beq_self_eq_true, Bool.and_self, Bool.not_true, Bool.and_false,
              Bool.false_eq_true, ↓reduceIte, List.length_nil, Nat.add_zero]
            exact ih _ _ _ ⟨a1, a2⟩ ⟨by simp [hb], by simp [hcl]⟩
          · rename_i hcl
            simp only [progress, ↓reduceIte]
            have hdel : fba.del = fba.acc := by rw [b1, hb]; simp
            have hsh : fba.shut = false := by rw [b2]; simpa using hcl
            simp only [hdel, Nat.lt_irrefl, decide_false, Bool.false_and, Bool.false_eq_true, ↓reduceIte, hsh]
            exact ih _ _ _ ⟨a1, a2⟩ ⟨b1, b2⟩
      | false =>
        simp only [pstep, Pipe.read]
        split
        · rename_i b bs' hb
          simp only [progress, Bool.false_eq_true, ↓reduceIte]
          have hne : ¬ ((List.take (min (b :: bs').length cap) (b :: bs')).isEmpty = true ∧ cap > 0) := by
            intro ⟨h, hc⟩
            have := List.isEmpty_iff.mp h
            have hl := congrArg List.length this
            simp at hl; omega
          by_cases hc : cap > 0
          · have : (List.take (min (b :: bs').length cap) (b :: bs')).isEmpty = false := by
              cases h : (List.take (min (b :: bs').length cap) (b :: bs')).isEmpty with
              | true => exact absurd ⟨h, hc⟩ hne
              | false => rfl
            simp only [this, Bool.false_and, Bool.false_eq_true, ↓reduceIte]
            refine ih _ _ _ ⟨?_, a2⟩ ⟨b1, b2⟩
            simp [a1, hb]; omega
          · have hc0 : cap = 0 := by omega
            subst hc0
            simp only [gt_iff_lt, Nat.lt_irrefl, decide_false, Bool.and_false, Bool.false_and, Bool.false_eq_true, ↓reduceIte]
            refine ih _ _ _ ⟨?_, a2⟩ ⟨b1, b2⟩
            simp [a1, hb]
        · rename_i hb
          split
          · rename_i hcl
            simp only [progress, Bool.false_eq_true, ↓reduceIte]
            have hdel : fab.del = fab.acc := by rw [a1, hb]; simp
            have hsh : fab.shut = true := by rw [a2, hcl]
            simp only [List.isEmpty_nil, hsh, hdel, beq_self_eq_true, Bool.and_self, Bool.not_true, Bool.and_false,
              Bool.false_eq_true, ↓reduceIte, List.length_nil, Nat.add_zero]
            exact ih _ _ _ ⟨by simp [hb], by simp [hcl]⟩ ⟨b1, b2⟩
          · rename_i hcl
            simp only [progress, Bool.false_eq_true, ↓reduceIte]
            have hdel : fab.del = fab.acc := by rw [a1, hb]; simp
            have hsh : fab.shut = false := by rw [a2]; simpa using hcl
            simp only [hdel, Nat.lt_irrefl, decide_false, Bool.false_and, Bool.false_eq_true, ↓reduceIte, hsh]
            exact ih _ _ _ ⟨a1, a2⟩ ⟨b1, b2⟩
    | flush side =>
      simp only [pstep, progress]; exact ih _ _ _ ⟨a1, a2⟩ ⟨b1, b2⟩
    | shutdown side =>
      cases side with
      | true => simp only [pstep, Pipe.shutdown, progress, ↓reduceIte]; exact ih _ _ _ ⟨a1, rfl⟩ ⟨b1, b2⟩
      | false => simp only [pstep, Pipe.shutdown, progress, Bool.false_eq_true, ↓reduceIte]; exact ih _ _ _ ⟨a1, a2⟩ ⟨b1, rfl⟩

/-- **C18 (pipe meets its specification)**: FIFO in both directions, data and end-of-stream propagate. -/
theorem C18_pipe_progress (cap : Nat) (ops : List POp) :
    let d0 : Duplex := { ab := { cap := cap }, ba := { cap := cap } }
    progress ops (prun d0 ops).1 {} {} = none :=
  pipe_progress _ ops {} {} ⟨rfl, rfl⟩ ⟨rfl, rfl⟩

/-! ## The pipe's buffers are bounded -/

def Pipe.Bounded (p : Pipe) : Prop := p.buf.length ≤ p.cap

theorem Pipe.write_bounded (p : Pipe) (bs : Sniff.Bytes) (h : p.Bounded) :
    (p.write bs).2.Bounded ∧ (p.write bs).2.cap = p.cap := by
  unfold Pipe.write Pipe.Bounded at *
  split
  · exact ⟨h, rfl⟩
  · by_cases ha : p.cap - p.buf.length = 0
    · simp only [ha, if_true]; exact ⟨h, trivial⟩
    · simp only [ha, if_false]
      refine ⟨?_, trivial⟩
      simp only [List.length_append, List.length_take]
      omega

theorem Pipe.read_bounded (p : Pipe) (cap : Nat) (h : p.Bounded) :
    (p.read cap).2.Bounded ∧ (p.read cap).2.cap = p.cap := by
  unfold Pipe.read Pipe.Bounded at *
  split
  · rename_i b bs hb
    refine ⟨?_, rfl⟩
    rw [hb] at h
    simp only [List.length_drop]
    omega
  · split <;> exact ⟨h, rfl⟩

theorem Pipe.shutdown_bounded (p : Pipe) (h : p.Bounded) : (p.shutdown).2.Bounded ∧ (p.shutdown).2.cap = p.cap :=
  ⟨h, rfl⟩

def Duplex.Bounded (d : Duplex) (cap : Nat) : Prop :=
  d.ab.Bounded ∧ d.ba.Bounded ∧ d.ab.cap = cap ∧ d.ba.cap = cap

theorem pstep_bounded (d : Duplex) (op : POp) (cap : Nat) (h : d.Bounded cap) : (pstep d op).2.Bounded cap := by
  obtain ⟨h1, h2, h3, h4⟩ := h
  cases op with
  | write side bs =>
    cases side
    · have := Pipe.write_bounded d.ba bs h2
      exact ⟨h1, this.1, h3, this.2.trans h4⟩
    · have := Pipe.write_bounded d.ab bs h1
      exact ⟨this.1, h2, this.2.trans h3, h4⟩
  | read side c =>
    cases side
    · have := Pipe.read_bounded d.ab c h1
      exact ⟨this.1, h2, this.2.trans h3, h4⟩
    · have := Pipe.read_bounded d.ba c h2
      exact ⟨h1, this.1, h3, this.2.trans h4⟩
  | flush side => exact ⟨h1, h2, h3, h4⟩
  | shutdown side =>
    cases side
    · exact ⟨h1, h2, h3, h4⟩
    · exact ⟨h1, h2, h3, h4⟩

/-- **C18 (the pipe's memory is bounded).** Whatever the two sides do - however much is written and however little
    is read - neither direction ever buffers more than the capacity the pipe was made with: a writer that is ahead
    is told `Pending`, never buffered without bound. -/
theorem C18_pipe_bounded (cap : Nat) (ops : List POp) :
    let d0 : Duplex := { ab := { cap := cap }, ba := { cap := cap } }
    (prun d0 ops).2.Bounded cap := by
  have key : ∀ (ops : List POp) (d : Duplex), d.Bounded cap → (prun d ops).2.Bounded cap := by
    intro ops
    induction ops with
    | nil => intro d h; exact h
    | cons op ops ih => intro d h; simp only [prun]; exact ih _ (pstep_bounded d op cap h)
  exact key ops _ ⟨by simp [Pipe.Bounded], by simp [Pipe.Bounded], rfl, rfl⟩

/-- non-vacuity: a full pipe refuses the next write and stays at its capacity -/
example : (prun { ab := { cap := 2 }, ba := { cap := 2 } } [.write true [1, 2, 3], .write true [4]]).1 = [.count 2, .pending] := by
  decide

end Hd.Streams
