import HdModel.Props.C14
import HdModel.Lemmas.PoolWaiters
import HdModel.Lemmas.PoolMarker
import HdModel.Lemmas.PoolChan
/-! # C03 — every request's connection acquisition terminates; nobody is stranded

Step-level theorems about the pool model, valid in **every** state. Together they cover the three
clauses of the property: waiters are released when the attempt they wait for fails or is abandoned;
a released or served waiter resolves at its next poll; cancelling never leaves the marker behind. -/
namespace Hd.Pool

theorem dropSenders_chan (s : State) (l : List ReqId) (r : ReqId) :
    (dropSenders s l).chan r =
      if r ∈ l ∧ s.chan r = .empty then .txGone else s.chan r := by
  induction l generalizing s with
  | nil => simp [dropSenders]
  | cons x xs ih =>
    simp only [dropSenders]
    rw [ih]
    by_cases hx : r = x
    · subst hx
      cases hc : s.chan r <;> simp [hc, upd]
    · cases hcx : s.chan x <;> simp [upd, hx]

theorem dropSenders_connecting (s : State) (l : List ReqId) : (dropSenders s l).connecting = s.connecting := by
  induction l generalizing s with
  | nil => rfl
  | cons x xs ih => simp only [dropSenders]; rw [ih]; split <;> rfl

/-- **C03 (waiters are released).** When the marker's owner goes away without a connection, the
    marker is removed, the origin's waiter queue is emptied, and every queued checkout whose channel
    was still open sees its sender dropped – tokio wakes the receiver, and the checkout resolves
    at its next poll (next two theorems). -/
theorem C03_cancel_releases (s : State) (t : Token) (r : ReqId)
    (hm : s.connecting.contains t = true) (hq : r ∈ s.waiting t) (hc : s.chan r = .empty) :
    (cancelConnection s t).chan r = .txGone ∧ (cancelConnection s t).waiting t = [] ∧
    (cancelConnection s t).connecting = s.connecting.erase t := by
  unfold cancelConnection
  simp only [hm, ↓reduceIte]
  refine ⟨?_, by simp, ?_⟩
  · show (dropSenders _ _).chan r = _
    rw [dropSenders_chan]
    simp [hq, hc]
  · show (dropSenders _ _).connecting = _
    rw [dropSenders_connecting]

/-- The owner's drop does cancel: a checkout whose marker is the one in place (same attempt id) and
    that goes away without a delayed drop runs `cancel_connection` for its token … -/
theorem C03_owner_drop_cancels (s : State) (c : Checkout) (h : c.marker = true) (ho : s.owner c.token = c.attempt) :
    cancelIfOwner s c = cancelConnection s c.token := by
  simp [cancelIfOwner, h, ho]

/-- … and nobody else does: a checkout that placed no marker, or whose marker has since been replaced
    by a later attempt's (its own was removed when somebody provided a shareable connection), leaves the
    pool's bookkeeping alone when it goes away. -/
theorem C03_only_owner_cancels (s : State) (c : Checkout) (h : c.marker = false ∨ s.owner c.token ≠ c.attempt) :
    cancelIfOwner s c = s := by
  rcases h with h | h <;> simp [cancelIfOwner, h]

/-- **C03 (a released pure waiter resolves with an error instead of hanging).** -/
theorem C03_released_waiter_resolves (s : State) (r : ReqId) (c : Checkout)
    (hc : s.co r = some c) (ha : c.alive = true) (hw : c.waiter = .connecting) (hi : c.inner = .waiting)
    (hch : s.chan r = .txGone) : (step s (.poll r)).2 = .err 0 := by
  simp only [step, hc, ha]
  have : pollCheckout s r c = (s, { c with waiter := .noPool }, .err 0) := by
    unfold pollCheckout pollWaiter
    simp [hw, hch, hi]
  simp [this]

/-- **C03 (a dialing checkout whose sender was dropped carries on with its own attempt).** -/
theorem C03_released_dialer_continues (s : State) (r : ReqId) (c : Checkout)
    (hw : c.waiter = .idle) (hch : s.chan r = .txGone) :
    (pollWaiter s r c).2.2 = some none := by
  simp [pollWaiter, hw, hch]

/-- **C03 (quiescent progress, one checkout).** Once the attempt a checkout depends on has
    terminated – its own dial has an outcome, and if it waits for somebody else's attempt its channel
    has been served or released – its next poll is not `Pending`. -/
theorem C03_resolves_when_attempt_done (s : State) (r : ReqId) (c : Checkout)
    (hd : (s.dial r).outcome ≠ none)
    (hw : c.waiter = .connecting → (∃ p, s.chan r = .full p) ∨ s.chan r = .txGone) :
    (pollCheckout s r c).2.2 ≠ .pending := by
  unfold pollCheckout
  cases hwk : c.waiter with
  | connecting =>
    rcases hw hwk with ⟨p, hp⟩ | htx
    · simp [pollWaiter, hwk, hp]
    · simp only [pollWaiter, hwk, htx]
      cases hi : c.inner <;> simp
      · cases c.conn <;> simp
      all_goals
        cases ho : (s.dial r).outcome with
        | none => exact absurd ho hd
        | some o => cases o <;> simp [ho]
  | idle =>
    cases hch : s.chan r with
    | full p => simp [pollWaiter, hwk, hch]
    | _ =>
      simp only [pollWaiter, hwk, hch]
      cases hi : c.inner <;> simp
      · cases c.conn <;> simp
      all_goals
        cases ho : (s.dial r).outcome with
        | none => exact absurd ho hd
        | some o => cases o <;> simp [ho]
  | noPool =>
    simp only [pollWaiter, hwk]
    cases hi : c.inner <;> simp
    · cases c.conn <;> simp
    all_goals
      cases ho : (s.dial r).outcome with
      | none => exact absurd ho hd
      | some o => cases o <;> simp [ho]

/-! ## Reachable-state theorems (from the invariant of `Lemmas/PoolWaiters.lean`) -/

/-- **C03 (nobody is stranded).** In every state reachable by any operation sequence: a live checkout
    that only waits for another request's connection attempt and whose channel is still empty is
    queued for its origin, and the origin's attempt-in-progress marker is set. Whenever the marker
    has gone away – the attempt succeeded, failed, or was cancelled or abandoned at any point – no
    such waiter is left with an empty channel: each has been handed a connection or a closed channel. -/
theorem C03_waiter_only_while_attempt_in_flight (cfg : Config) (ops : List Op) (r : ReqId) (c : Checkout)
    (hco : (run (init cfg) ops).1.co r = some c) (ha : c.alive = true) (hi : c.inner = .waiting)
    (hch : (run (init cfg) ops).1.chan r = .empty) :
    (run (init cfg) ops).1.connecting.contains c.token = true ∧ r ∈ (run (init cfg) ops).1.waiting c.token :=
  run_waiters ops (init cfg) (waiters_init cfg) r c.token ⟨c, hco, ha, hi, rfl, hch⟩

/-- … and what its next poll does with a non-empty channel (any state): a delivered connection is
    taken, a closed channel is an error; so a pure waiter is `Pending` with a live channel only while
    an attempt is in flight. -/
theorem C03_waiter_poll (s : State) (r : ReqId) (c : Checkout) (hi : c.inner = .waiting) (hw : c.waiter = .connecting) :
    (∀ p, s.chan r = .full p → (pollCheckout s r c).2.2 = .got p) ∧
    (s.chan r = .txGone → (pollCheckout s r c).2.2 = .err 0) ∧
    (s.chan r = .empty → (pollCheckout s r c).2.2 = .pending) := by
  refine ⟨fun p hp => ?_, fun ht => ?_, fun he => ?_⟩
  · simp [pollCheckout, pollWaiter, hw, hp]
  · simp [pollCheckout, pollWaiter, hw, ht, hi]
  · simp [pollCheckout, pollWaiter, hw, he]

/-- **C03 (the attempt a marker stands for is really running), over all reachable states.** Whenever
    the attempt-in-progress marker of an origin is in place, exactly the checkout that placed it (its
    attempt id is the one stored with the marker) still runs: it is alive, or a delayed-drop task is
    carrying its connection attempt on. (`Lemmas/PoolMarker.lean`; with ownership as a plain flag this
    is false – a checkout whose marker had been removed by somebody else's shareable connection could
    cancel the marker of a later attempt – which is the defect repaired in 2d583d3.) -/
theorem C03_marker_has_running_owner (cfg : Config) (ops : List Op) (t : Token)
    (ht : t ∈ (run (init cfg) ops).1.connecting) :
    ∃ r c, (run (init cfg) ops).1.co r = some c ∧ c.marker = true ∧ c.token = t ∧
      c.attempt = (run (init cfg) ops).1.owner t ∧ Running (run (init cfg) ops).1 r c := by
  have h := run_minv ops (init cfg) (minv_init cfg)
  obtain ⟨r, hr⟩ := h.own t ht
  unfold holder at hr
  cases hco : (run (init cfg) ops).1.co r with
  | none => rw [hco] at hr; cases hr
  | some c =>
    rw [hco] at hr
    simp only [] at hr
    split at hr
    · rename_i hm
      simp only [Option.some.injEq, Prod.mk.injEq] at hr
      exact ⟨r, c, hco, hm, hr.1, hr.2, h.run r c (by intro e; cases e) hco hm⟩
    · cases hr

/-- **C03 (a waiting request waits for something).** In every reachable state, a live checkout that
    only waits for another request's connection attempt and whose channel is still empty is waiting on
    an attempt that is really in progress: the checkout that placed the origin's marker is alive or
    continued by a background task. When that one terminates – with a connection, with an error, or
    by being dropped – `C03_owner_drop_cancels` / `C03_cancel_releases` / the delivery loop release
    the waiter; nobody else can take the marker away except by providing a shareable connection, which
    serves every waiter (`C03_only_owner_cancels`). -/
theorem C03_waiter_waits_for_running_attempt (cfg : Config) (ops : List Op) (r : ReqId) (c : Checkout)
    (hco : (run (init cfg) ops).1.co r = some c) (ha : c.alive = true) (hi : c.inner = .waiting)
    (hch : (run (init cfg) ops).1.chan r = .empty) :
    ∃ r' c', (run (init cfg) ops).1.co r' = some c' ∧ c'.marker = true ∧ c'.token = c.token ∧
      Running (run (init cfg) ops).1 r' c' := by
  have hw := (C03_waiter_only_while_attempt_in_flight cfg ops r c hco ha hi hch).1
  obtain ⟨r', c', h1, h2, h3, _, h5⟩ := C03_marker_has_running_owner cfg ops c.token (by simpa using hw)
  exact ⟨r', c', h1, h2, h3, h5⟩

/-- **C03 (a live pure waiter's channel is always usable), over all reachable states**: never
    receiver-gone, never absent (`Lemmas/PoolChan.lean`). -/
theorem C03_waiter_channel_usable (cfg : Config) (ops : List Op) (r : ReqId) (c : Checkout)
    (hco : (run (init cfg) ops).1.co r = some c) (ha : c.alive = true) (hi : c.inner = .waiting) (hw : c.waiter = .connecting) :
    (run (init cfg) ops).1.chan r = .empty ∨ (∃ p, (run (init cfg) ops).1.chan r = .full p) ∨
      (run (init cfg) ops).1.chan r = .txGone := by
  have h := run_waitChan ops (init cfg) (waitChan_init cfg) r c hco ⟨ha, hi, hw⟩
  cases hch : (run (init cfg) ops).1.chan r with
  | none => exact absurd (Or.inr hch) h
  | empty => exact Or.inl rfl
  | full p => exact Or.inr (Or.inl ⟨p, rfl⟩)
  | rxGone => exact absurd (Or.inl hch) h
  | txGone => exact Or.inr (Or.inr rfl)

/-- **C03 (whoever is told to wait, waits for something real) – the three invariants composed.** In
    every reachable state: if a live checkout that only waits for another request's attempt polls
    `Pending`, then its channel is empty, it is queued for its origin, the origin's marker is in place,
    and the checkout that placed that marker is alive or carried on by a background task. In every
    other case its poll resolves (`C03_waiter_poll`). -/
theorem C03_pending_waiter_waits_for_running_attempt (cfg : Config) (ops : List Op) (r : ReqId) (c : Checkout)
    (hco : (run (init cfg) ops).1.co r = some c) (ha : c.alive = true) (hi : c.inner = .waiting) (hw : c.waiter = .connecting)
    (hp : (pollCheckout (run (init cfg) ops).1 r c).2.2 = .pending) :
    (run (init cfg) ops).1.chan r = .empty ∧ r ∈ (run (init cfg) ops).1.waiting c.token ∧
    ∃ r' c', (run (init cfg) ops).1.co r' = some c' ∧ c'.marker = true ∧ c'.token = c.token ∧
      Running (run (init cfg) ops).1 r' c' := by
  obtain ⟨pf, pt, _⟩ := C03_waiter_poll (run (init cfg) ops).1 r c hi hw
  have hch : (run (init cfg) ops).1.chan r = .empty := by
    rcases C03_waiter_channel_usable cfg ops r c hco ha hi hw with h | ⟨p, h⟩ | h
    · exact h
    · rw [pf p h] at hp; cases hp
    · rw [pt h] at hp; cases hp
  exact ⟨hch, (C03_waiter_only_while_attempt_in_flight cfg ops r c hco ha hi hch).2,
         C03_waiter_waits_for_running_attempt cfg ops r c hco ha hi hch⟩

/-- Non-vacuity of the two theorems above, and the repaired defect as a model run: request 1 (HTTP/2)
    places the marker; request 0's connection turns out to be HTTP/2 by ALPN and removes it; request 1
    is served by it and its own dial carries on in the background; the connection dies; request 2
    places a new marker, request 3 waits on it; request 1's background dial fails. The marker of
    request 2 stays (one entry in `connecting`), request 3 keeps waiting, and a further request does
    not dial (3 dials in all). -/
example :
    let ops : List Op := [.issue 0 0 false, .poll 0, .issue 1 0 true, .poll 1, .dialDone 0 (.ok .alpnH2), .poll 0, .poll 1,
                          .finish 0, .finish 1, .connClose 0, .issue 2 0 true, .poll 2, .issue 3 0 true, .poll 3,
                          .dialDone 1 .failConnect, .run, .poll 3, .issue 4 0 true, .poll 4]
    let s := (run (init { cap := true }) ops).1
    s.connecting = [1] ∧ s.dialCount = 3 ∧ (run (init { cap := true }) ops).2.getLast? = some .pending := by
  decide

/-- Non-vacuity: an HTTP/2 attempt with two waiters fails; both waiters get an error at their next
    poll instead of hanging, and a later request starts a fresh attempt. -/
example :
    let ops : List Op := [.issue 0 7 true, .poll 0, .issue 1 7 true, .poll 1, .issue 2 7 true, .poll 2,
                          .dialDone 0 .failConnect, .poll 0, .poll 1, .poll 2, .issue 3 7 true, .poll 3]
    let res := (run (init {}) ops).2
    res = [.done, .pending, .done, .pending, .done, .pending, .done, .err 1, .err 0, .err 0, .done, .pending] := by
  decide

end Hd.Pool
