import HdModel.Props.C14
/-! # C03 — every request's connection acquisition terminates; nobody is stranded

Step-level theorems about the pool model, valid in **every** state. Together they cover the three
clauses of the property: waiters are released when the attempt they wait for fails or is abandoned;
a released or served waiter resolves at its next poll; cancelling never leaves the marker behind. -/
namespace Hd.Pool

theorem dropSenders_chan (s : State) (l : List ReqId) (r : ReqId) :
    (dropSenders s l).chan r =
      if r ∈ l ∧ s.chan r = .empty then .txGone else s.chan r := by
  induction l generalizing s with
  | nil => simp [dropSenders]
  | cons x xs ih =>
    simp only [dropSenders]
    rw [ih]
    by_cases hx : r = x
    · subst hx
      cases hc : s.chan r <;> simp [hc, upd]
    · cases hcx : s.chan x <;> simp [upd, hx]

theorem dropSenders_connecting (s : State) (l : List ReqId) : (dropSenders s l).connecting = s.connecting := by
  induction l generalizing s with
  | nil => rfl
  | cons x xs ih => simp only [dropSenders]; rw [ih]; split <;> rfl

/-- **C03 (waiters are released).** When the marker's owner goes away without a connection, the
    marker is removed, the origin's waiter queue is emptied, and every queued checkout whose channel
    was still open sees its sender dropped – tokio wakes the receiver, and the checkout resolves
    at its next poll (next two theorems). -/
theorem C03_cancel_releases (s : State) (t : Token) (r : ReqId)
    (hm : s.connecting.contains t = true) (hq : r ∈ s.waiting t) (hc : s.chan r = .empty) :
    (cancelConnection s t).chan r = .txGone ∧ (cancelConnection s t).waiting t = [] ∧
    (cancelConnection s t).connecting = s.connecting.erase t := by
  unfold cancelConnection
  simp only [hm, ↓reduceIte]
  refine ⟨?_, by simp, ?_⟩
  · show (dropSenders _ _).chan r = _
    rw [dropSenders_chan]
    simp [hq, hc]
  · show (dropSenders _ _).connecting = _
    rw [dropSenders_connecting]

/-- The owner's drop does cancel: a checkout that owns the marker and goes away without a delayed
    drop runs `cancel_connection` for its token. -/
theorem C03_owner_drop_cancels (s : State) (c : Checkout) (h : c.marker = true) :
    cancelIfOwner s c = cancelConnection s c.token := by
  simp [cancelIfOwner, h]

/-- **C03 (a released pure waiter resolves with an error instead of hanging).** -/
theorem C03_released_waiter_resolves (s : State) (r : ReqId) (c : Checkout)
    (hc : s.co r = some c) (ha : c.alive = true) (hw : c.waiter = .connecting) (hi : c.inner = .waiting)
    (hch : s.chan r = .txGone) : (step s (.poll r)).2 = .err 0 := by
  simp only [step, hc, ha]
  have : pollCheckout s r c = (s, { c with waiter := .noPool }, .err 0) := by
    unfold pollCheckout pollWaiter
    simp [hw, hch, hi]
  simp [this]

/-- **C03 (a dialing checkout whose sender was dropped carries on with its own attempt).** -/
theorem C03_released_dialer_continues (s : State) (r : ReqId) (c : Checkout)
    (hw : c.waiter = .idle) (hch : s.chan r = .txGone) :
    (pollWaiter s r c).2.2 = some none := by
  simp [pollWaiter, hw, hch]

/-- **C03 (quiescent progress, one checkout).** Once the attempt a checkout depends on has
    terminated – its own dial has an outcome, and if it waits for somebody else's attempt its channel
    has been served or released – its next poll is not `Pending`. -/
theorem C03_resolves_when_attempt_done (s : State) (r : ReqId) (c : Checkout)
    (hd : (s.dial r).outcome ≠ none)
    (hw : c.waiter = .connecting → (∃ p, s.chan r = .full p) ∨ s.chan r = .txGone) :
    (pollCheckout s r c).2.2 ≠ .pending := by
  unfold pollCheckout
  cases hwk : c.waiter with
  | connecting =>
    rcases hw hwk with ⟨p, hp⟩ | htx
    · simp [pollWaiter, hwk, hp]
    · simp only [pollWaiter, hwk, htx]
      cases hi : c.inner <;> simp
      · cases c.conn <;> simp
      all_goals
        cases ho : (s.dial r).outcome with
        | none => exact absurd ho hd
        | some o => cases o <;> simp [ho]
  | idle =>
    cases hch : s.chan r with
    | full p => simp [pollWaiter, hwk, hch]
    | _ =>
      simp only [pollWaiter, hwk, hch]
      cases hi : c.inner <;> simp
      · cases c.conn <;> simp
      all_goals
        cases ho : (s.dial r).outcome with
        | none => exact absurd ho hd
        | some o => cases o <;> simp [ho]
  | noPool =>
    simp only [pollWaiter, hwk]
    cases hi : c.inner <;> simp
    · cases c.conn <;> simp
    all_goals
      cases ho : (s.dial r).outcome with
      | none => exact absurd ho hd
      | some o => cases o <;> simp [ho]

end Hd.Pool
