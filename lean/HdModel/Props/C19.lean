import HdModel.Spec.Timeout
import HdModel.Props.Builder
/-! # C19 — a request with a timeout resolves by its deadline (result part)

Theorems about `Hd.Timeout.pollOnce/runPolls` (mirror of `TimeoutFuture::poll`) for **every**
duration (incl. zero), **every** inner completion time (before, at, after the deadline, never) and
**every** schedule of polls. The clean-up part of C19 (a timed-out pooled request leaves the pool
usable) is the pool model's `cancel` – see `Props/C03.lean`. -/
namespace Hd.Timeout

theorem pollOnce_before (d : Nat) (i : Inner) (p : Nat) (h : p < (expected d i).2) :
    pollOnce d i p = none := by
  unfold pollOnce innerReady expected at *
  cases ht : i.at_ with
  | none => simp [ht] at h ⊢; omega
  | some t =>
    simp only [ht] at h ⊢
    split at h <;> simp at h ⊢ <;> (rw [if_neg (by omega), if_neg (by omega)])

theorem pollOnce_at (d : Nat) (i : Inner) :
    pollOnce d i (expected d i).2 = some (expected d i).1 := by
  unfold pollOnce innerReady expected
  cases ht : i.at_ with
  | none => simp
  | some t =>
    simp only []
    split
    · simp
    · rename_i h; simp; omega

theorem runPolls_split (d : Nat) (i : Inner) (pre post : List Nat) (m k : Nat)
    (hpre : ∀ p ∈ pre, pollOnce d i p = none) (o : Outcome) (hm : pollOnce d i m = some o) :
    runPolls d i (pre ++ m :: post) k = (some (o, m), k + pre.length + 1) := by
  induction pre generalizing k with
  | nil => simp [runPolls, hm]
  | cons p pre ih =>
    simp only [List.cons_append, runPolls, hpre p (by simp)]
    rw [ih (k + 1) (fun q hq => hpre q (by simp [hq]))]
    simp; omega

/-- **C19 (result).** Under any ascending poll schedule that contains the decisive instant (the
    executor polls at least when the inner future or the timer wakes it), the future resolves with
    the inner result – unchanged – iff the inner service resolved no later than the deadline, and
    otherwise with the timeout error exactly at the deadline; in both cases at that instant. -/
theorem C19_result (d : Nat) (i : Inner) (ps : List Nat) (h : adequate d i ps = true) :
    (runPolls d i ps 0).1 = some (expected d i) := by
  unfold adequate at h
  simp only [Bool.and_eq_true, decide_eq_true_eq] at h
  obtain ⟨hc, hpw⟩ := h
  have hmem : (expected d i).2 ∈ ps := by simpa using hc
  obtain ⟨pre, post, rfl⟩ := List.append_of_mem hmem
  have hlt : ∀ p ∈ pre, p < (expected d i).2 := by
    intro p hp
    exact (List.pairwise_append.mp hpw).2.2 p hp _ (by simp)
  rw [runPolls_split d i pre post _ 0 (fun p hp => pollOnce_before d i p (hlt p hp)) _ (pollOnce_at d i)]

/-- **C19 (never the timeout error before the deadline)** – for every schedule whatsoever. -/
theorem C19_no_early_timeout (d : Nat) (i : Inner) (ps : List Nat) (k t : Nat)
    (h : (runPolls d i ps k).1 = some (.timeout, t)) : d ≤ t := by
  induction ps generalizing k with
  | nil => simp [runPolls] at h
  | cons p ps ih =>
    simp only [runPolls] at h
    cases hp : pollOnce d i p with
    | none => rw [hp] at h; exact ih _ h
    | some o =>
      rw [hp] at h
      simp at h
      obtain ⟨rfl, rfl⟩ := h
      unfold pollOnce at hp
      by_cases hr : innerReady i p = true
      · simp [hr] at hp
      · simp only [hr] at hp
        by_cases hd : d ≤ p
        · exact hd
        · simp [hd] at hp

/-- **C19 (inner result unchanged; inner wins a tie).** Whenever the inner future is ready at a poll
    – including a poll exactly at the deadline – its own result is returned. -/
theorem C19_inner_first (d : Nat) (i : Inner) (t now : Nat) (ht : i.at_ = some t) (h : t ≤ now) :
    pollOnce d i now = some (.inner i.ok) := by
  simp [pollOnce, innerReady, ht, h]

/-- A run that ended with an inner result reports the inner service's own value, no earlier than
    the inner service produced it. -/
theorem C19_inner_unchanged (d : Nat) (i : Inner) (ps : List Nat) (k t : Nat) (b : Bool)
    (h : (runPolls d i ps k).1 = some (.inner b, t)) : b = i.ok ∧ ∃ ti, i.at_ = some ti ∧ ti ≤ t := by
  induction ps generalizing k with
  | nil => simp [runPolls] at h
  | cons p ps ih =>
    simp only [runPolls] at h
    cases hp : pollOnce d i p with
    | none => rw [hp] at h; exact ih _ h
    | some o =>
      rw [hp] at h
      simp at h
      obtain ⟨rfl, rfl⟩ := h
      unfold pollOnce at hp
      by_cases hr : innerReady i p = true
      · simp [hr] at hp
        refine ⟨hp.symm, ?_⟩
        unfold innerReady at hr
        cases ha : i.at_ with
        | none => simp [ha] at hr
        | some ti => simp [ha] at hr; exact ⟨ti, rfl, hr⟩
      · simp only [hr] at hp
        by_cases hd : d ≤ p <;> simp [hd] at hp

/-- Non-vacuity: an adequate schedule with spurious polls; the inner future completes exactly at
    the deadline and wins. -/
example : adequate 20 ⟨some 20, true⟩ [0, 3, 20, 25] = true ∧
    (runPolls 20 ⟨some 20, true⟩ [0, 3, 20, 25] 0).1 = some (.inner true, 20) := by decide

/-! ## Resolved by the deadline under every schedule -/

/-- a poll at or after the deadline is never `Pending` -/
theorem pollOnce_late (d : Nat) (i : Inner) (m : Nat) (hm : d ≤ m) : ∃ o, pollOnce d i m = some o := by
  unfold pollOnce
  by_cases hr : innerReady i m = true
  · exact ⟨.inner i.ok, by simp [hr]⟩
  · exact ⟨.timeout, by simp [hr, hm]⟩

/-- **C19 (resolved by the deadline, every schedule).** Whatever the polls before it (any order, spurious ones, none
    at the decisive instants): the first poll at or after the deadline finds the future resolved - it resolved at
    that poll or at an earlier one, and is never polled again. -/
theorem C19_late_poll_resolves (d : Nat) (i : Inner) (pre post : List Nat) (m k : Nat) (hm : d ≤ m) :
    ∃ o t, (runPolls d i (pre ++ m :: post) k).1 = some (o, t) ∧ t ∈ pre ++ [m] ∧
      (runPolls d i (pre ++ m :: post) k).2 ≤ k + pre.length + 1 := by
  induction pre generalizing k with
  | nil =>
    obtain ⟨o, ho⟩ := pollOnce_late d i m hm
    exact ⟨o, m, by simp [runPolls, ho], by simp, by simp [runPolls, ho]⟩
  | cons p pre ih =>
    simp only [List.cons_append, runPolls]
    cases hp : pollOnce d i p with
    | some o => exact ⟨o, p, by simp, by simp, by simp⟩
    | none =>
      obtain ⟨o, t, h1, h2, h3⟩ := ih (k + 1)
      exact ⟨o, t, h1, by simp at h2 ⊢; exact Or.inr h2, by simp at h3 ⊢; omega⟩

/-- non-vacuity: descending, spurious polls; the inner future would complete only after the deadline -/
example : (runPolls 20 ⟨some 30, true⟩ [7, 3, 21, 40] 0) = (some (.timeout, 21), 3) := by decide

end Hd.Timeout
