import HdModel.Lemmas.Eyeballs2
/-! # C10 — happy-eyeballs connect succeeds iff some candidate would; first success wins

Theorems about `Hd.Eyeballs.run` (mirror of `EyeballSet::finish`) for **every** list of scripted
attempts (any length; latency finite or never; success or failure) and **every** configuration
(stagger delay, overall timeout, initial concurrency – each absent, zero or finite). -/
namespace Hd.Eyeballs

/-- The state `run` finishes in, before the start trace is trimmed. -/
def finalSt (c : Cfg) (atts : List Attempt) : St :=
  (loop c atts (2 * atts.length + 2) (startN atts (c.conc.getD atts.length) (init atts.length))).2

theorem startN_measure (atts : List Attempt) (k : Nat) (s : St) :
    2 * (startN atts k s).queue.length + (startN atts k s).running.length ≤
      2 * s.queue.length + s.running.length := by
  induction k generalizing s with
  | zero => simp [startN]
  | succ k ih =>
    unfold startN
    split
    · omega
    · rename_i i q hq
      refine Nat.le_trans (ih _) ?_
      simp [start, hq]; omega

theorem run_post2 (c : Cfg) (atts : List Attempt) :
    Post2 c atts (run c atts).1 (finalSt c atts) := by
  apply loop_post2 c atts atts.length
  · exact inv1_startN _ (inv1_init c atts.length)
  · exact inv2_startN _ (inv2_init atts atts.length)
  · have := startN_measure atts (c.conc.getD atts.length) (init atts.length)
    simp [init] at this ⊢; omega

theorem run_starts (c : Cfg) (atts : List Attempt) :
    (run c atts).2.starts = trimStarts atts (run c atts).1 (finalSt c atts).starts := rfl

theorem finalSt_inv1 (c : Cfg) (atts : List Attempt) : Inv1 c atts.length (finalSt c atts) :=
  (loop_inv1 c atts atts.length _ _ (inv1_startN _ (inv1_init c atts.length))).1

/-- Trimming keeps the winner's own entry. -/
theorem trim_keeps_winner {c : Cfg} {n : Nat} {s : St} (h1 : Inv1 c n s) (atts : List Attempt)
    (j t : Nat) (st : Nat × Nat) (hst : st ∈ s.starts) (hj : st.1 = j) :
    st ∈ trimStarts atts (.ok j t) s.starts := by
  unfold trimStarts
  simp only
  split
  · have hsplit := List.takeWhile_append_dropWhile (p := fun (x : Nat × Nat) => x.1 != j) (l := s.starts)
    rw [← hsplit] at hst
    rcases List.mem_append.mp hst with hin | hin
    · have hall := List.all_takeWhile (p := fun (x : Nat × Nat) => x.1 != j) (l := s.starts)
      have := List.all_eq_true.mp hall st hin
      simp [hj] at this
    · apply List.mem_append_right
      cases hd : s.starts.dropWhile (fun x => x.1 != j) with
      | nil => rw [hd] at hin; simp at hin
      | cons x xs =>
        have hx : ¬ (x.1 != j) = true := by
          have := List.head?_dropWhile_not (fun (y : Nat × Nat) => y.1 != j) s.starts
          rw [hd] at this
          simpa using this
        have hxm : x ∈ s.starts := by
          have : x ∈ s.starts.dropWhile (fun x => x.1 != j) := by rw [hd]; simp
          exact (List.dropWhile_sublist _).subset this
        have : x = st := starts_inj h1 x hxm st (by rw [← hsplit]; exact hst) (by simp at hx; rw [hx, hj])
        simp [this]
  · exact hst

/-- **C10 (first success wins).** If the result is the connection of attempt `j` at time `t`, then
    `j` was started, it succeeded exactly then, no later than the deadline, and no attempt that
    was started succeeded earlier. -/
theorem C10_first_success (c : Cfg) (atts : List Attempt) (j t : Nat)
    (h : (run c atts).1 = .ok j t) :
    (∃ st ∈ (run c atts).2.starts, st.1 = j ∧ succeedsAt atts st = some t) ∧
    (∀ st ∈ (run c atts).2.starts, ∀ u, succeedsAt atts st = some u → t ≤ u) ∧
    (∀ d, c.timeout = some d → t ≤ d) := by
  have hp := run_post2 c atts
  rw [h] at hp
  obtain ⟨⟨st, hst, hj, hs⟩, hall⟩ := hp
  refine ⟨⟨st, ?_, hj, hs⟩, ?_, ?_⟩
  · rw [run_starts, h]; exact trim_keeps_winner (finalSt_inv1 c atts) atts j t st hst hj
  · intro st' hst' u hu
    rw [run_starts] at hst'
    exact hall st' ((trimStarts_sub _ _ _) hst') u hu
  · intro d hd
    have hres := (loop_inv1 c atts atts.length (2 * atts.length + 2)
      (startN atts (c.conc.getD atts.length) (init atts.length))
      (inv1_startN _ (inv1_init c atts.length))).2.1
    have h' : (loop c atts (2 * atts.length + 2)
        (startN atts (c.conc.getD atts.length) (init atts.length))).1 = .ok j t := h
    exact hres t d (by rw [h']; rfl) hd
where
  trimStarts_sub (atts : List Attempt) (r : Result) (l : List (Nat × Nat)) :
      ∀ {x}, x ∈ trimStarts atts r l → x ∈ l := by
    intro x hx
    unfold trimStarts at hx
    split at hx
    · split at hx
      · rename_i j _ _
        rcases List.mem_append.mp hx with h | h
        · exact (List.takeWhile_sublist _).subset h
        · exact (List.dropWhile_sublist _).subset ((List.take_sublist _ _).subset h)
      · exact hx
    · exact hx

/-- **C10 (failure only after every candidate failed; first failure reported).** -/
theorem C10_err_only_when_all_failed (c : Cfg) (atts : List Attempt) (i t : Nat)
    (h : (run c atts).1 = .firstErr i t) :
    (run c atts).2.starts.length = atts.length ∧
    (∀ st ∈ (run c atts).2.starts, ∃ u, failsAt atts st = some u ∧ u ≤ t) ∧
    (∃ st ∈ (run c atts).2.starts, st.1 = i ∧ ∃ u, failsAt atts st = some u ∧
      ∀ st' ∈ (run c atts).2.starts, ∀ u', failsAt atts st' = some u' → u ≤ u') := by
  have hp := run_post2 c atts
  rw [h] at hp
  obtain ⟨hq, hall, hfirst⟩ := hp
  have hs : (run c atts).2.starts = (finalSt c atts).starts := by rw [run_starts, h]; rfl
  rw [hs]
  refine ⟨?_, hall, hfirst⟩
  have := (finalSt_inv1 c atts).order
  rw [hq, List.append_nil] at this
  have := congrArg List.length this
  simpa using this

/-- **C10 (timeout only at the deadline, and not while a started candidate has accepted).** -/
theorem C10_timeout (c : Cfg) (atts : List Attempt) (t : Nat) (h : (run c atts).1 = .timeout t) :
    c.timeout = some t ∧ ∀ st ∈ (run c atts).2.starts, ∀ u, succeedsAt atts st = some u → t < u := by
  have hp := run_post2 c atts
  rw [h] at hp
  have hs : (run c atts).2.starts = (finalSt c atts).starts := by rw [run_starts, h]; rfl
  rw [hs]; exact hp

/-- **C10 (succeeds whenever a started candidate accepts by the deadline).** -/
theorem C10_succeeds_if_possible (c : Cfg) (atts : List Attempt) (st : Nat × Nat) (u : Nat)
    (hst : st ∈ (finalSt c atts).starts) (hu : succeedsAt atts st = some u)
    (hd : ∀ d, c.timeout = some d → u ≤ d) :
    ∃ j t, (run c atts).1 = .ok j t ∧ t ≤ u := by
  have hp := run_post2 c atts
  cases hr : (run c atts).1 with
  | ok j t =>
    rw [hr] at hp
    exact ⟨j, t, rfl, hp.2 st hst u hu⟩
  | firstErr i t =>
    rw [hr] at hp
    obtain ⟨u', hf, _⟩ := hp.2.1 st hst
    unfold succeedsAt at hu; unfold failsAt at hf
    split at hu
    · rename_i hok; rw [hok] at hf; simp at hf
    · cases hu
  | timeout t =>
    rw [hr] at hp
    have := hp.2 st hst u hu
    have := hd t hp.1
    omega
  | noProgress t =>
    rw [hr] at hp
    rw [hp.1] at hst; simp at hst
  | hang =>
    rw [hr] at hp
    exact absurd hu (hp.2 st hst u)

/-- **C10 (no candidates).** With no candidates the operation fails immediately with `NoProgress`. -/
theorem C10_no_candidates (c : Cfg) : (run c []).1 = .noProgress 0 := by
  cases h : c.conc with
  | none => simp [run, h, loop, startN, init]
  | some k => cases k <;> simp [run, h, loop, startN, init]

/-- `NoProgress` is reported only when there were no candidates. -/
theorem C10_no_progress_only_if_empty (c : Cfg) (atts : List Attempt) (t : Nat)
    (h : (run c atts).1 = .noProgress t) : atts = [] ∧ t = 0 := by
  have hp := run_post2 c atts
  rw [h] at hp
  obtain ⟨hs, hq, ht⟩ := hp
  have := (finalSt_inv1 c atts).order
  rw [hs, hq] at this
  have := congrArg List.length this
  simp at this
  exact ⟨List.eq_nil_of_length_eq_zero this.symm, ht⟩

/-- Non-vacuity: scenario L of DESIGN.md – four candidates, a failure pulls the third forward,
    the third wins although the second is still running. -/
example : (run ⟨some 10, some 100, some 2⟩
    [⟨some 5, .err⟩, ⟨some 50, .ok⟩, ⟨some 1, .ok⟩, ⟨some 1, .ok⟩]).1 = .ok 2 6 := by decide

end Hd.Eyeballs
