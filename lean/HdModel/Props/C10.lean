import HdModel.Lemmas.Eyeballs
/-! # C10 — happy-eyeballs connect succeeds iff some candidate would; first success wins -/
namespace Hd.Eyeballs

/-- **C10 (no candidates).** With no candidates the operation fails immediately with `NoProgress`. -/
theorem C10_no_candidates (c : Cfg) : (run c []).1 = .noProgress 0 := by
  cases h : c.conc with
  | none => simp [run, h, loop, startN, init]
  | some k => cases k <;> simp [run, h, loop, startN, init]

end Hd.Eyeballs
