import HdModel.Model.Eyeballs
/-! C10 and C11 as decidable predicates over an observed run: the result with its virtual finish
    time, and the trace of (attempt index, time of first poll). -/
namespace Hd.Eyeballs

structure Obs where
  res    : Result
  starts : List (Nat × Nat)
deriving Repr, DecidableEq

/-- Completion time of started attempt `(i, s)`, if it ever completes. -/
def finOf (atts : List Attempt) (st : Nat × Nat) : Option Nat := (latOf atts st.1).map (st.2 + ·)

def succeedsAt (atts : List Attempt) (st : Nat × Nat) : Option Nat :=
  if outOf atts st.1 = .ok then finOf atts st else none

def failsAt (atts : List Attempt) (st : Nat × Nat) : Option Nat :=
  if outOf atts st.1 = .err then finOf atts st else none

def resTime : Result → Option Nat
  | .ok _ t | .firstErr _ t | .timeout t | .noProgress t => some t
  | .hang => none

/-- **C10.** `none` = holds, `some class` = violated. -/
def verdictC10 (c : Cfg) (atts : List Attempt) (o : Obs) : Option String :=
  let succ := o.starts.filterMap (succeedsAt atts)
  -- a started candidate that accepts strictly before the deadline forces success
  let mustSucceed := succ.any fun t => match c.timeout with | some d => decide (t < d) | none => true
  match o.res with
  | .ok i t =>
    match o.starts.find? (·.1 == i) with
    | none => some "C10/winner-never-started"
    | some st =>
      if succeedsAt atts st != some t then some "C10/winner-did-not-succeed-then"
      else if succ.any (· < t) then some "C10/earlier-success-ignored"
      else if past c t then some "C10/success-after-deadline"
      else none
  | .firstErr i t =>
    if atts.isEmpty then some "C10/error-without-candidates"
    else if o.starts.length != atts.length then some "C10/failure-before-all-tried"
    else if !(o.starts.all fun st => match failsAt atts st with | some f => decide (f ≤ t) | none => false) then
      some "C10/failure-while-candidate-alive"
    else
      let fails := o.starts.filterMap fun st => (failsAt atts st).map fun f => (st.1, f)
      match fails.find? (·.1 == i) with
      | none => some "C10/reported-error-not-a-failure"
      | some (_, fi) => if fails.any (·.2 < fi) then some "C10/not-first-failure" else none
  | .timeout t =>
    if c.timeout != some t then some "C10/timeout-not-at-deadline"
    else if mustSucceed then some "C10/timeout-despite-success"
    else none
  | .noProgress t =>
    if !atts.isEmpty then some "C10/no-progress-with-candidates"
    else if t != 0 then some "C10/no-progress-late" else none
  | .hang =>
    if c.timeout.isSome then some "C10/hang-with-deadline"
    else if mustSucceed then some "C10/hang-despite-success"
    else none

/-- The attempts are started in the given order, each at most once. -/
def orderOnce (o : Obs) : Bool := o.starts.map (·.1) == List.range o.starts.length

/-- Times never go backwards. -/
def monotone : List (Nat × Nat) → Bool
  | a :: b :: rest => decide (a.2 ≤ b.2) && monotone (b :: rest)
  | _ => true

/-- **C11** (order, once, initial bound, deadline); pacing is compared with the model's trace. -/
def verdictC11 (c : Cfg) (atts : List Attempt) (o : Obs) : Option String :=
  if !orderOnce o then some "C11/order-or-repeat"
  else if !monotone o.starts then some "C11/time-backwards"
  else if (match resTime o.res, c.timeout with | some t, some d => decide (t > d) | _, _ => false) then
    some "C11/finished-after-deadline"
  else if (match resTime o.res with | some t => o.starts.any (·.2 > t) | none => false) then
    some "C11/start-after-finish"
  else
    -- initial bound: with a positive (or no) stagger delay and no failure at time 0, at most
    -- max(1, initial_concurrency) attempts are first polled at time 0
    let at0 := (o.starts.filter (·.2 == 0)).length
    let fail0 := (o.starts.filter fun st => failsAt atts st == some 0).length
    let bound := max 1 (c.conc.getD atts.length)
    if c.delay != some 0 && at0 > bound + fail0 then some "C11/initial-burst-too-large"
    else none

/-- **C11 pacing.** The observed start trace must be the one the pacing rules prescribe. The rules
    are those of `Hd.Eyeballs.run` (theorems `C11_never_earlier`, `C11_as_soon_as` state them
    declaratively); when two attempts are due at the same instant either order is accepted. -/
def verdictPacing (c : Cfg) (atts : List Attempt) (o : Obs) : Option String :=
  let m := run c atts
  if m.2.tie then none
  else if m.2.starts != o.starts then some "C11/pacing" else none

def verdict (c : Cfg) (atts : List Attempt) (o : Obs) : Option String :=
  (verdictC10 c atts o) <|> (verdictC11 c atts o) <|> (verdictPacing c atts o)

end Hd.Eyeballs
