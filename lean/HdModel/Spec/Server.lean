import HdModel.Model.Server
/-! C07 and C09 as checks on an observed run of the real server. -/
namespace Hd.Server

/-- What the harness reports per client after each op. -/
structure CObs where
  st   : CSt
  resp : Nat
  eof  : Bool
  hc   : Nat
deriving Repr, DecidableEq

structure IObs where
  srv     : Srv
  clients : List CObs
deriving Repr, DecidableEq

def observe (s : St) : IObs :=
  { srv := s.srv, clients := s.clients.map fun c => { st := c.st, resp := c.resp, eof := c.eof, hc := c.hc } }

/-- May the serving future have ended by now? Only on shutdown, loss of the listener, or a
    make-service failure. -/
def legitEnd (s : St) : Bool :=
  (s.cfg.graceful && s.signalled) || !s.listener || (match s.cfg.makefail with | some k => decide (k < s.made) | none => false)

/-- `none` = fine. `s` = model state *after* the op (which agreed with the implementation so far). -/
def verdict (pre post : St) (op : Op) (io : IObs) : Option String :=
  let mo := observe post
  -- C09: the server ends only for one of the three legitimate reasons
  if io.srv != .pending && !legitEnd post then some "C09/server-died"
  -- C07: once the signal resolves the future completes successfully
  else if op == .signal && pre.cfg.graceful && pre.srv == .pending && io.srv != .ok then some "C07/not-stopped-by-signal"
  else if io.srv != mo.srv then some (if post.signalled then "C07/server-result" else "C09/server-result")
  else
    let pairs := (mo.clients.zip io.clients).zip (List.range mo.clients.length)
    let after := post.srv != .pending
    pairs.foldl (fun acc ((m, i), idx) =>
      acc <|>
        (if m == i then none
         else if after && pre.cfg.graceful && post.signalled then
           (if i.hc > m.hc then some "C07/served-after-shutdown"
            else if i.st == .opened && m.st == .refused then some "C07/accepted-after-shutdown"
            else if i.resp < m.resp then some "C07/inflight-response-lost"
            else if m.eof && !i.eof then some "C07/connection-not-closed"
            else if i.eof && !m.eof then some "C07/connection-cut"
            else some "C07/other")
         else
           (match op with
            | .send j _ | .close j | .connx j | .gate j | .conn j =>
              if j != idx then some "C09/fault-leaked-to-other-connection"
              else if i.resp < m.resp then some "C09/response-lost"
              else if i.eof && !m.eof then some "C09/connection-cut"
              else none
            | _ => none))) none

end Hd.Server
