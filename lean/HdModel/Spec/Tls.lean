import HdModel.Model.Tls
/-! Decidable specification of C12 over an *observation* (what the peer saw on the wire and what
    the caller got back), independent of `Hd.Tls.run`. -/
namespace Hd.Tls

/-- the property's own reading of "scheme is https or wss" (URI schemes are case-insensitive) -/
def wantsTls (c : Case) : Bool :=
  c.cfg && (c.scheme.toList.map Char.toLower == "https".toList || c.scheme.toList.map Char.toLower == "wss".toList)

def sniMatchesHost (c : Case) (sni : String) : Bool :=
  lowerAscii sni == lowerAscii (dropDot c.host)

def sniBad (c : Case) : Option String → Bool
  | some s => !sniMatchesHost c s
  | none => false

def verdict (c : Case) (o : Obs) : Option String :=
  if o.res == .panic then some "C12/panic"
  else if wantsTls c then
    if o.res == .okPlain || o.wire == .ascii || o.wire == .other || o.leak then some "C12/secure-scheme-in-clear"
    else if o.res == .okTls && !(isTlsServer c.peer && certOk c) then some "C12/unverified-peer-accepted"
    else if o.res == .okTls && !o.app then some "C12/stream-not-usable"
    else if o.res == .okTls && hostKind c.host == .dns && o.sni.isNone then some "C12/sni-missing"
    else if sniBad c o.sni then some "C12/sni-mismatch"
    else if o.res != .okTls && handshakeOk c && c.nameValid then some "C12/spurious-failure"
    else none
  else
    if o.res == .okTls || o.wire == .tls then some "C12/wrapped-non-secure"
    else if o.res != .okPlain && o.res != .errConn then some "C12/plain-request-failed"
    else none

def specOk (c : Case) (o : Obs) : Bool := (verdict c o).isNone

end Hd.Tls
