import HdModel.Model.Sniff
/-! C08 as a decidable predicate on (script, observation). -/
namespace Hd.Sniff

def hasErr (script : List Ev) : Bool := (truncate script).any (· == .err)

/-- `none` = holds. Detection: HTTP/2 exactly when the byte stream begins with the preface.
    Transparency: the handler sees exactly the client's bytes. (Scripts ending in an i/o error
    may legitimately surface the error instead.) -/
def verdict (script : List Ev) (o : Obs) : Option String :=
  let stream := drain (truncate script)
  match o.version with
  | none => if hasErr script then none else some "C08/spurious-error"
  | some v =>
    if decide (v = .h2) != preface.isPrefixOf stream then
      some (if preface.isPrefixOf stream then "C08/preface-served-as-h1" else "C08/non-preface-served-as-h2")
    else if o.bytes != stream then some "C08/bytes-altered"
    else none

def spec (script : List Ev) (o : Obs) : Bool := (verdict script o).isNone

end Hd.Sniff
