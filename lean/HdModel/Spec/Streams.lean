import HdModel.Model.Streams
/-! C18 as a decidable predicate: compare an observed run with a reference FIFO. -/
namespace Hd.Streams
open Hd.Sniff

def prefixesOf : List Layer → Bytes
  | [] => []
  | .rewind p :: rest => p ++ prefixesOf rest
  | _ :: rest => prefixesOf rest

def deliveredBytes : List Res → Bytes
  | [] => []
  | .bytes bs :: rest => bs ++ deliveredBytes rest
  | _ :: rest => deliveredBytes rest

/-- The bytes the writes of `ops` handed over, truncated to what each write reported as accepted. -/
def acceptedBytes : List Op → List Res → Bytes
  | .write bs :: ops, .count n :: rs => bs.take n ++ acceptedBytes ops rs
  | .writev sl :: ops, .count n :: rs => sl.flatten.take n ++ acceptedBytes ops rs
  | _ :: ops, _ :: rs => acceptedBytes ops rs
  | _, _ => []

/-- Did some read hand back more bytes than the caller's buffer had room for? -/
def readOverflow : List Op → List Res → Bool
  | .read cap :: ops, .bytes bs :: rs => decide (bs.length > cap) || readOverflow ops rs
  | _ :: ops, _ :: rs => readOverflow ops rs
  | _, _ => false

/-- `none` = holds: reads deliver a prefix of (replay prefix ++ inner stream) without exceeding their
    capacity; what reached the inner writer is exactly what the writes were told was accepted;
    every flush and shutdown reached the inner io. -/
def verdict (s0 : St) (ops : List Op) (rs : List Res) (written : Bytes) (flushes shutdowns : Nat) : Option String :=
  let source := prefixesOf s0.layers ++ drainAll s0.revs
  if !(deliveredBytes rs).isPrefixOf source then some "C18/read-bytes-not-fifo"
  else if readOverflow ops rs then some "C18/read-overflows-buffer"
  else if written != acceptedBytes ops rs then some "C18/written-bytes-differ"
  else if flushes != (ops.filter (· == .flush)).length then some "C18/flush-not-forwarded"
  else if shutdowns != (ops.filter (· == .shutdown)).length then some "C18/shutdown-not-forwarded"
  else none

/-- Pipe runs: what B reads is a prefix of what A wrote (accepted), and symmetrically; after a
    shutdown the other side reaches end-of-stream. -/
def pAccepted (side : Bool) : List POp → List Res → Bytes
  | .write s bs :: ops, .count n :: rs => (if s == side then bs.take n else []) ++ pAccepted side ops rs
  | _ :: ops, _ :: rs => pAccepted side ops rs
  | _, _ => []

def pDelivered (side : Bool) : List POp → List Res → Bytes
  | .read s _ :: ops, .bytes bs :: rs => (if s == side then bs else []) ++ pDelivered side ops rs
  | _ :: ops, _ :: rs => pDelivered side ops rs
  | _, _ => []

/-- Progress bookkeeping per direction: bytes accepted from the writer, bytes handed to the reader,
    writer has shut down. Index 0: A→B, 1: B→A. -/
structure Flow where
  acc : Nat := 0
  del : Nat := 0
  shut : Bool := false

/-- End-of-stream and data must get through: a read may be `Pending` only while nothing is in
    flight and the writer has not shut down; once the writer has shut down and everything has been
    delivered a read reports end-of-stream. -/
def progress : List POp → List Res → Flow → Flow → Option String
  | .write s _ :: ops, .count n :: rs, ab, ba =>
    if s then progress ops rs { ab with acc := ab.acc + n } ba else progress ops rs ab { ba with acc := ba.acc + n }
  | .shutdown s :: ops, .ok :: rs, ab, ba =>
    if s then progress ops rs { ab with shut := true } ba else progress ops rs ab { ba with shut := true }
  | .read s cap :: ops, r :: rs, ab, ba =>
    let f := if s then ba else ab          -- side A reads what B wrote
    match r with
    | .pending =>
      if f.del < f.acc && cap > 0 then some "C18/data-not-delivered"
      else if f.shut && f.del == f.acc then some "C18/eof-not-propagated"
      else progress ops rs ab ba
    | .bytes bs =>
      let f' := { f with del := f.del + bs.length }
      if bs.isEmpty && cap > 0 && !(f.shut && f.del == f.acc) && f.del == f.acc then some "C18/spurious-eof"
      else if s then progress ops rs ab f' else progress ops rs f' ba
    | _ => progress ops rs ab ba
  | _ :: ops, _ :: rs, ab, ba => progress ops rs ab ba
  | _, _, _, _ => none

def pverdict (ops : List POp) (rs : List Res) : Option String :=
  if !(pDelivered false ops rs).isPrefixOf (pAccepted true ops rs) then some "C18/pipe-a-to-b-not-fifo"
  else if !(pDelivered true ops rs).isPrefixOf (pAccepted false ops rs) then some "C18/pipe-b-to-a-not-fifo"
  else progress ops rs {} {}

end Hd.Streams
