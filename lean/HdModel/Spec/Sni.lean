import HdModel.Model.Sni
/-! C20 as a decidable predicate on (request, observed outcome). -/
namespace Hd.Sni

/-- The host a request names: the Host header, or for HTTP/2 the authority or, failing that,
    the Host header. -/
def specNamed (r : Req) : Option HostVal :=
  if r.h2 then (r.authority <|> r.hostHdr) else r.hostHdr

/-- Case-insensitive, port-ignoring equality of names. -/
def sameName (a b : HostVal) : Bool := a.host.toLower == b.host.toLower

/-- `none` = the property holds on this observation; `some cls` = violated, with a class. -/
def verdict (r : Req) (o : Outcome) : Option String :=
  match r.tls, specNamed r with
  | some sni, some h =>
    let matches_ := match sni with | some s => sameName h s | none => false
    match o with
    | .forward v =>
      if !matches_ then some "C20/mismatch-forwarded"
      else if !v then some "C20/forwarded-not-marked" else none
    | _ => if matches_ then some "C20/matching-host-rejected" else none
  | _, _ => none

def spec (r : Req) (o : Outcome) : Bool := (verdict r o).isNone

end Hd.Sni
