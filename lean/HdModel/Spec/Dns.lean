import HdModel.Model.Dns
/-! Specification of C16 on observables: what the property sentence says about the output list. -/
namespace Hd.Dns

def isV6 (a : Addr) : Bool := a.v6
def isV4 (a : Addr) : Bool := !a.v6

/-- Preferred family: IPv6 unless the preference is explicitly IPv4. -/
def prefPred : Option Fam → Addr → Bool
  | some .v4 => isV4
  | _ => isV6
def otherPred : Option Fam → Addr → Bool
  | some .v4 => isV6
  | _ => isV4

/-- First address of the preferred family, then first of the other family, then everything
    else in the resolver's order. -/
def spec (prefer : Option Fam) (l : List Addr) : List Addr :=
  (l.find? (prefPred prefer)).toList ++ (l.find? (otherPred prefer)).toList ++
    ((l.eraseP (prefPred prefer)).eraseP (otherPred prefer))

/-- Decidable check used as the oracle on the implementation's output. -/
def specHolds (prefer : Option Fam) (sort : Bool) (port : Option Nat) (inp out : List Addr) : Bool :=
  let inp' := match port with | some p => inp.map (fun a => { a with port := p }) | none => inp
  out == (if sort then spec prefer inp' else inp')

end Hd.Dns
