import HdModel.Model.Wire
/-! C13 as a decidable predicate on (connection protocol, caller's request, what reached the wire). -/
namespace Hd.Wire

/-- Requests the property speaks about: absolute URI with scheme and host. -/
def wellFormed (r : Req) : Bool := r.uri.scheme.isSome && r.uri.host.isSome

def knownScheme (u : Uri) : Bool :=
  u.scheme == some "http" || u.scheme == some "https" || u.scheme == some "ws" || u.scheme == some "wss"

def defaultPort (u : Uri) : Option Nat :=
  if u.scheme == some "http" || u.scheme == some "ws" then some 80
  else if u.scheme == some "https" || u.scheme == some "wss" then some 443
  else none

/-- Host header value the property prescribes. -/
def specHostValue (u : Uri) (h : String) : String :=
  match u.port with
  | some p => if defaultPort u == some p then h else h ++ ":" ++ toString p
  | none => h

/-- Header lists are compared up to the relative order of *different* names (a `HeaderMap` does not
    keep it); values of one name keep their order. -/
def canon (hs : List (String × String)) : List (String × String) := hs.mergeSort (fun a b => a.1 ≤ b.1)

def nonHost (hs : List (String × String)) : List (String × String) := canon (hs.filter (·.1 != "host"))
def hostVals (hs : List (String × String)) : List String := (hs.filter (·.1 == "host")).map (·.2)

/-- authority-form: nothing but `host[:port]`. -/
def specAuthority (u : Uri) : Uri := ⟨none, u.host, u.port, "", none⟩
/-- origin-form: path and query exactly as given, an empty path becoming a single slash. -/
def specOrigin (u : Uri) : Uri := ⟨none, none, none, if u.path == "" then "/" else u.path, u.query⟩

/-- `none` = holds. -/
def verdict (c : Conn) (r : Req) (o : Outcome) : Option String :=
  if !wellFormed r then none else
  match c, o with
  | _, .panic _ => some "C13/panic"
  | .h1, .errInvalidMethod => some "C13/h1-request-rejected"
  | _, .errProtocol => some "C13/request-rejected"
  | .h1, .sent s =>
    if s.version != .h1 then some "C13/h1-version"
    else if s.method != r.method then some "C13/method-changed"
    else if r.connect && s.target != specAuthority r.uri then some "C13/h1-connect-not-authority-form"
    else if !r.connect && s.target != specOrigin r.uri then some "C13/h1-target-not-origin-form"
    else if nonHost s.headers != nonHost r.headers then some "C13/h1-headers-changed"
    else if hasHeader r.headers "host" then
      (if hostVals s.headers != hostVals r.headers then some "C13/h1-caller-host-overridden" else none)
    else
      match r.uri.host with
      | none => none
      | some h =>
        if knownScheme r.uri then
          (if hostVals s.headers != [specHostValue r.uri h] then some "C13/h1-host-header-wrong" else none)
        else
          (if (hostVals s.headers).length != 1 then some "C13/h1-host-header-wrong" else none)
  | .h2, .errInvalidMethod => if r.connect then none else some "C13/h2-request-rejected"
  | .h2, .sent s =>
    if r.connect then some "C13/h2-connect-not-rejected"
    else if s.version != .h2 then some "C13/h2-version"
    else if s.method != r.method then some "C13/method-changed"
    else if s.headers.any (fun h => (connectionHeaders ++ ["host"]).contains h.1) then
      some "C13/h2-connection-header-left"
    else if canon s.headers != canon (r.headers.filter (fun h => !(connectionHeaders ++ ["host"]).contains h.1)) then
      some "C13/h2-headers-changed"
    else if s.target.path != (if r.uri.path == "" then "/" else r.uri.path) || s.target.query != r.uri.query
        || s.target.host != r.uri.host || s.target.port != r.uri.port || s.target.scheme != r.uri.scheme then
      some "C13/h2-target-changed"
    else none

/-- Protocol choice: HTTP/2 exactly when the request asked for it or ALPN negotiated h2. -/
def verdictProtocol (requested : Conn) (alpnH2 : Bool) (got : Conn) : Option String :=
  let want := if requested == .h2 || alpnH2 then Conn.h2 else Conn.h1
  if got != want then some "C13/protocol-choice" else none

end Hd.Wire
