import HdModel.Model.Timeout
/-! C19 (result part) as a decidable predicate on an observed run. -/
namespace Hd.Timeout

/-- What the property prescribes: the inner result iff the inner service resolved no later than the
    deadline, else the timeout error – at that very instant. -/
def expected (d : Nat) (i : Inner) : Outcome × Nat :=
  match i.at_ with
  | some t => if t ≤ d then (.inner i.ok, t) else (.timeout, d)
  | none => (.timeout, d)

/-- The polls an executor performs at least: whenever the future's wakers fire (inner completion,
    deadline). A schedule is adequate if it is ascending and contains the decisive instant. -/
def adequate (d : Nat) (i : Inner) (ps : List Nat) : Bool :=
  ps.contains (expected d i).2 && decide (ps.Pairwise (· < ·))

/-- `none` = holds. `obs` = (outcome, instant) or `none` when still pending after the last poll. -/
def verdict (d : Nat) (i : Inner) (ps : List Nat) (obs : Option (Outcome × Nat)) : Option String :=
  match obs with
  | some (o, t) =>
    if o == .timeout && t < d then some "C19/timeout-before-deadline"
    else if adequate d i ps then
      if (o, t) != expected d i then
        (if o == .timeout && (expected d i).1 != .timeout then some "C19/inner-result-replaced-by-timeout"
         else if t > (expected d i).2 then some "C19/resolved-late"
         else some "C19/wrong-result")
      else none
    else none
  | none => if adequate d i ps then some "C19/never-resolved" else none

end Hd.Timeout
