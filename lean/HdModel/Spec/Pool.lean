import HdModel.Model.Pool
/-! Monitors for the pool properties (C02–C06, C14, C15, and the clean-up half of C19) over the
    trace of an implementation run, and the canonical snapshot used to compare model and
    implementation state. -/
namespace Hd.Pool

/-- What the harness reports after each op. -/
structure IObs where
  res        : Obs
  woke       : Bool                          -- the request's waker fired since its previous poll
  origin     : Option KeyId := none          -- for `got`: origin the connection was dialled for
  isH2       : Bool := false                 -- for `got`
  connecting : List Nat := []
  waiting    : List (Nat × Nat × Nat) := []  -- (token, queued senders, of which still open)
  idle       : List (Nat × List Nat) := []   -- (token, connection ids oldest first)
  drops      : Nat := 0                      -- HTTP/1 handles dropped so far
  dials      : Nat := 0                      -- transport connect calls so far
deriving Repr, DecidableEq

def tokens (s : State) : List Nat := (List.range s.counter).drop 1

def insertSorted (x : Nat) : List Nat → List Nat
  | [] => [x]
  | y :: ys => if x ≤ y then x :: y :: ys else y :: insertSorted x ys

def sortNat (l : List Nat) : List Nat := l.foldr insertSorted []

/-- The model's state in the harness' snapshot format. -/
def snapshot (s : State) (res : Obs) : IObs :=
  { res := res, woke := false,
    connecting := sortNat s.connecting,
    waiting := (tokens s).filterMap fun t =>
      let q := s.waiting t
      if q.isEmpty then none else some (t, q.length, (q.filter fun r => s.chan r == .empty).length),
    idle := (tokens s).filterMap fun t =>
      let l := s.idle t
      if l.isEmpty then none else some (t, (l.map (·.1)).reverse),
    drops := s.dropped.length,
    dials := s.dialCount }

def sameState (m i : IObs) : Bool :=
  m.connecting == i.connecting && m.waiting == i.waiting && m.idle == i.idle && m.drops == i.drops && m.dials == i.dials

/-- Monitor state built from the implementation's own events only. -/
structure Mon where
  keyOf    : List (ReqId × KeyId) := []      -- issued requests
  holders  : List (ReqId × ConnId) := []     -- requests currently inside the inner service
  busy     : List ConnId := []               -- HTTP/1 connections used and not yet ready again
  closed   : List (ConnId × Nat) := []       -- connection closed by the peer at op index
  issuedAt : List (ReqId × Nat) := []
  known    : List ConnId := []               -- connections that have been handed out before
  pend     : List ReqId := []                -- requests whose last poll was `Pending`
  failed   : List ConnId := []               -- released connections whose readiness poll answered with an error
  connKey  : List (ConnId × KeyId) := []     -- the origin a connection was dialled for (reported when it is handed out)
  marks    : Nat := 0                        -- `mark` ops seen (2 = every attempt resolved and every
                                             --   request polled since: nobody may still be pending)
  idx      : Nat := 0
deriving Repr

/-- Implementation-only checks for one op. `none` = fine. -/
def monStep (cfg : Config) (m : Mon) (op : Op) (o : IObs) : Mon × Option String :=
  let m1 := { m with idx := m.idx + 1 }
  -- C15 at every point of every history
  -- … per idle list, and per origin whatever lists its connections sit in
  let idleConns := o.idle.flatMap (·.2)
  let perOrigin := (idleConns.filterMap fun c => m.connKey.lookup c).eraseDups.any fun k =>
    decide ((idleConns.filter fun c => m.connKey.lookup c == some k).length > cfg.maxIdle)
  let over := (o.idle.any fun (_, l) => decide (l.length > cfg.maxIdle)) || perOrigin
  let v15 : Option String := if over then some "C15/idle-over-limit" else none
  -- C02: a connection that answered its readiness poll with an error never reported ready: it may not be back in the pool
  let v15 : Option String := if idleConns.any m.failed.contains then some "C02/failed-connection-returned-to-pool" else v15
  match op with
  | .issue r k _ =>
    ({ m1 with keyOf := (r, k) :: m.keyOf, issuedAt := (r, m.idx) :: m.issuedAt },
     if o.res == .panic then some "C17/pool-panic" else v15)
  | .poll r =>
    let lost : Option String :=
      -- (if what it missed is a connection, the request would have gone on waiting for its own dial with an open connection
      --  parked in its channel - C14 - and later requests dial for nothing - C04)
      if m.pend.contains r && !o.woke && o.res != .pending && o.res != .noop then
        some (match o.res with | .got _ _ => "C03/lost-wakeup,C14/lost-wakeup-for-a-released-connection,C04/lost-wakeup-for-a-released-connection" | _ => "C03/lost-wakeup")
      else none
    let m2 := { m1 with pend := if o.res == .pending then (if m.pend.contains r then m.pend else r :: m.pend)
                                 else m.pend.filter (· != r) }
    match o.res with
    | .got c _ =>
      let v : Option String :=
        if !o.isH2 && m.holders.any (fun h => h.2 == c) then some "C02/double-use"
        else if !o.isH2 && m.busy.contains c then some "C02/busy-handout"
        else if m.failed.contains c then some "C02/failed-connection-handed-out"
        else if (match o.origin, m.keyOf.lookup r with | some a, some b => a != b | _, _ => false) then some "C06/cross-origin"
        else if (match m.closed.lookup c, m.issuedAt.lookup r with
                 | some ci, some ri => m.known.contains c && decide (ci < ri) | _, _ => false) then some "C05/closed-handout"
        else none
      ({ m2 with holders := (r, c) :: m.holders, busy := if o.isH2 then m.busy else c :: m.busy,
                 known := c :: m.known,
                 connKey := match o.origin with
                   | some k => if (m.connKey.lookup c).isSome then m.connKey else (c, k) :: m.connKey
                   | none => m.connKey }, v <|> lost <|> v15)
    | .panic => (m2, some "C17/pool-panic")
    | _ => (m2, lost <|> v15)
  | .finish r => ({ m1 with holders := if o.res == .done then m.holders.filter (·.1 != r) else m.holders }, v15)
  | .cancel r => ({ m1 with holders := if o.res == .done then m.holders.filter (·.1 != r) else m.holders,
                            pend := m.pend.filter (· != r) }, v15)
  | .cancelOff r => ({ m1 with holders := if o.res == .done then m.holders.filter (·.1 != r) else m.holders,
                               pend := if o.res == .done then m.pend.filter (· != r) else m.pend },
                     if o.res == .panic then some "C17/pool-panic" else v15)
  | .connReady c => ({ m1 with busy := if o.res == .done then m.busy.filter (· != c) else m.busy }, v15)
  | .connClose c => ({ m1 with closed := if (m.closed.lookup c).isSome || o.res != .done then m.closed else (c, m.idx) :: m.closed }, v15)
  | .connFail c => ({ m1 with failed := if o.res == .done then c :: m.failed else m.failed }, v15)
  | .mark => ({ m1 with marks := m.marks + 1 }, v15)
  | _ => (m1, v15)

/-- A checkout that is still trying to connect by itself. -/
def dialing (c : Checkout) : Bool := c.inner == .connecting || c.inner == .delayDrop || c.inner == .delayed

/-- **C03 (nobody is stranded) as a check on a trace.** A checkout that started no attempt of its own
    because another one was in flight (`Waiting::Connecting`) may be `Pending` only while that attempt
    is still in flight, i.e. while the origin's in-progress marker is set. Once the marker is gone
    (the attempt succeeded, failed or was abandoned) it must have been served or released. -/
def strandedAt (s : State) (r : ReqId) (res : Obs) : Bool :=
  res == .pending &&
  (match s.co r with
   | some c =>
     c.alive &&
     ((c.inner == .waiting && !s.connecting.contains c.token) ||          -- nobody is connecting for it any more
      (dialing c && (s.dial r).started && (s.dial r).outcome.isSome))    -- its own attempt has terminated
   | none => false)

/-- Classify the first point where the implementation departs from the model (whose behaviour the
    property theorems cover): which property does the implementation's behaviour break, if any?
    `drain` = we are in the drain/probe phase, where every attempt has been resolved. -/
def classify (s : State) (drain : Bool) (op : Op) (mo : IObs) (io : IObs) : Option String :=
  if io.dials > mo.dials then some "C04/extra-dial"
  -- only a background task dials while tasks run: the attempt of a request that was abandoned (pre-empted or cancelled) before
  -- it got under way, carried on because `continue_after_preemption` is set - the implementation let it drop
  else if io.dials < mo.dials && op == .run && s.cfg.cap then some "C14/abandoned-attempt-not-continued"
  else if io.drops > mo.drops then
    -- the model passes the connection on (to a waiting request, or to the idle list after clearing the queue); the implementation destroys
    -- it and leaves the queue as it was
    let queued := fun (o : IObs) => (o.waiting.map fun w => w.2.1).sum
    if queued mo < queued io then some "C04/connection-destroyed,C14/released-connection-destroyed-not-passed-on"
    else some "C04/connection-destroyed"
  else match op with
  | .poll r =>
    match s.co r, mo.res, io.res with
    | some c, .got _ _, .pending =>
      if c.inner == .waiting then some "C03/waiter-not-served"
      else if c.inner == .connected then some "C04/idle-not-reused"
      else some "C14/not-preempted"
    | some _, .err _, .pending => some "C03/stranded"
    -- a request waiting on somebody else's attempt is failed although that attempt is still in flight
    | some c, .pending, .err _ => if c.inner == .waiting then some "C03/waiter-failed-while-attempt-in-flight" else none
    | some _, .got _ _, .err _ => if drain then some "C03/probe-failed" else none
    | _, _, _ => if drain && io.res == .pending && mo.res != .pending then some "C03/stranded" else none
  | .issue _ k _ =>
    -- which connection did the implementation take out of the idle list, and was it allowed to?
    let t := (tokenOf s k).2
    let before := (tokenOf s k).1.idle t
    let implIdle := (io.idle.lookup t).getD []
    let modelIdle := (mo.idle.lookup t).getD []
    let taken := before.filter fun e => !implIdle.contains e.1 && modelIdle != implIdle
    let popped := (idlePop (tokenOf s k).1 before).1
    if taken.any (fun e => expired (tokenOf s k).1 e.2 && some e.1 != popped && !implIdle.isEmpty) ||
       (before.any (fun e => expired (tokenOf s k).1 e.2) && !implIdle.isEmpty && modelIdle.isEmpty)
      then some "C05/expired-connection-kept-or-used"
    -- a shareable connection must stay available while it is checked out
    else if (io.idle.map (fun p => p.2.length)).sum < (mo.idle.map (fun p => p.2.length)).sum
      then some "C04/shared-connection-unavailable" else none
  | _ =>
    -- the model discarded a connection because the peer had closed it; the implementation did not, and
    -- one of the queued waiters is gone from its queue instead: the closed connection was passed on
    let s' := (step s op).1
    let discardedClosed := (s'.dropped.take (s'.dropped.length - s.dropped.length)).any fun c =>
      match s'.conns c with | some k => !k.isOpen | none => false
    let queued := fun (o : IObs) => (o.waiting.map fun w => w.2.1).sum
    if discardedClosed && io.drops < mo.drops && queued io < queued mo && mo.idle == io.idle
      then some "C05/closed-connection-passed-on"
    -- idle/waiting bookkeeping differs
    else if mo.idle != io.idle && (io.idle.map (fun p => p.2.length)).sum < (mo.idle.map (fun p => p.2.length)).sum
      then
        -- … and if the connection that is missing is one that can be shared, later requests cannot share it (C04)
        let have_ := io.idle.flatMap (·.2)
        let missing := (mo.idle.flatMap (·.2)).filter fun c => !have_.contains c
        if missing.any (canShare s') then some "C14/connection-not-returned,C04/shared-connection-unavailable"
        else some "C14/connection-not-returned"
    else none

end Hd.Pool
