/-! Small helpers shared by the executable models and the line-protocol driver.
    Core Lean only (the driver must link without Mathlib). -/
namespace Hd

def natTok (s : String) : Nat := s.toNat?.getD 0

/-- Join naturals with single spaces. -/
def showNats (l : List Nat) : String := " ".intercalate (l.map toString)

def boolTok (b : Bool) : String := if b then "1" else "0"

/-- Split a line at the first `" | "` into (input tokens, implementation observation tokens). -/
def splitBar (toks : List String) : List String × List String :=
  (toks.takeWhile (· != "|"), (toks.dropWhile (· != "|")).drop 1)

def words (s : String) : List String :=
  (s.trimAscii.toString.splitOn " ").filter (· != "")

end Hd

namespace Hd

def hexVal (c : Char) : Nat :=
  if '0' ≤ c ∧ c ≤ '9' then c.toNat - '0'.toNat
  else if 'a' ≤ c ∧ c ≤ 'f' then c.toNat - 'a'.toNat + 10
  else if 'A' ≤ c ∧ c ≤ 'F' then c.toNat - 'A'.toNat + 10
  else 0

def parseHexChars : List Char → List Nat
  | a :: b :: rest => (hexVal a * 16 + hexVal b) :: parseHexChars rest
  | _ => []

/-- `"0aff"` ↦ `[10, 255]`; `"-"` ↦ `[]`. -/
def parseHex (s : String) : List Nat := if s == "-" then [] else parseHexChars s.toList

def hexDigit (n : Nat) : Char :=
  if n < 10 then Char.ofNat (n + '0'.toNat) else Char.ofNat (n - 10 + 'a'.toNat)

def showHex (l : List Nat) : String :=
  if l.isEmpty then "-" else String.ofList (l.flatMap fun b => [hexDigit (b / 16 % 16), hexDigit (b % 16)])

end Hd
