/-! Small helpers shared by the executable models and the line-protocol driver.
    Core Lean only (the driver must link without Mathlib). -/
namespace Hd

def natTok (s : String) : Nat := s.toNat?.getD 0

/-- Join naturals with single spaces. -/
def showNats (l : List Nat) : String := " ".intercalate (l.map toString)

def boolTok (b : Bool) : String := if b then "1" else "0"

/-- Split a line at the first `" | "` into (input tokens, implementation observation tokens). -/
def splitBar (toks : List String) : List String × List String :=
  (toks.takeWhile (· != "|"), (toks.dropWhile (· != "|")).drop 1)

def words (s : String) : List String :=
  (s.trimAscii.toString.splitOn " ").filter (· != "")

end Hd
