/-! Model of the server accept loop and graceful shutdown:
    `Serving::poll_once`, `GracefulShutdown::poll` (signal checked before every accept),
    `ConnectionDriver` / `GracefulConnectionDriver` (src/server/mod.rs, src/server/conn/drivers.rs),
    `DuplexIncoming::poll_accept` (src/stream/duplex.rs), and `UpgradableConnection::graceful_shutdown`
    (src/server/conn/auto.rs: cancel while sniffing).

    After every op all tasks run until stalled, so an op is atomic. Hyper's per-connection behaviour
    is an *assumption*, recorded here as rules and validated by the correspondence run:
    an HTTP/1 connection serves one request at a time; after `graceful_shutdown` it finishes the
    exchange under way (a running handler, or the partly received head of its first request) and then
    closes; an idle one – also one that has only part of a *further* request's head – closes at once;
    garbage is answered by closing; a still-sniffing auto connection is closed by the cancel. -/
namespace Hd.Server

inductive Srv | pending | ok | errAccept | errMake
deriving Repr, DecidableEq

inductive CSt | none | opened | closed | refused
deriving Repr, DecidableEq

structure Client where
  st        : CSt := .none
  resp      : Nat := 0          -- complete 200 responses read by the client
  eof       : Bool := false     -- the client has seen the server close the connection
  hc        : Nat := 0          -- handler invocations for this client
  srvOpen   : Bool := false     -- the server side of the connection is alive
  sniffing  : Bool := false     -- auto: protocol not decided yet (no bytes, or a strict preface prefix)
  h2        : Bool := false     -- auto: decided HTTP/2
  halfHead  : Bool := false     -- part of a request head has been received
  inHandler : Bool := false
  queued    : Nat := 0          -- complete requests buffered behind the one being handled
  permits   : Nat := 0          -- handler gate permits not yet consumed
  graceful  : Bool := false     -- `graceful_shutdown` has been called on it
deriving Repr, DecidableEq

structure Cfg where
  auto     : Bool
  graceful : Bool
  makefail : Option Nat
  /-- the caller keeps the completed serving future alive instead of dropping it -/
  hold     : Bool := false
deriving Repr, DecidableEq

structure St where
  cfg       : Cfg
  srv       : Srv := .pending
  made      : Nat := 0
  listener  : Bool := true
  signalled : Bool := false
  clients   : List Client := [{}, {}, {}, {}]
deriving Repr, DecidableEq

inductive SendKind | full | half | rest | garbage | prihalf | pri
deriving Repr, DecidableEq

inductive Op
  | conn (i : Nat)
  | connx (i : Nat)
  | send (i : Nat) (k : SendKind)
  | gate (i : Nat)
  | close (i : Nat)
  | signal
  | dropListener
  | sigConn (i : Nat)     -- the signal resolves and a connect request is queued before the server runs again
  | sigDrop               -- the signal resolves and the listener is lost before the server runs again
deriving Repr, DecidableEq

def closeServerSide (c : Client) : Client :=
  { c with srvOpen := false, eof := c.eof || (c.st == .opened), inHandler := false, halfHead := false, queued := 0, sniffing := false }

/-- The handler for a request starts; with a stored permit it answers at once. -/
def startHandler (c : Client) : Client :=
  let c := { c with hc := c.hc + 1, halfHead := false }
  if c.permits > 0 then
    let c := { c with permits := c.permits - 1, resp := if c.st == .opened then c.resp + 1 else c.resp }
    if c.graceful then closeServerSide c else c
  else { c with inHandler := true }

/-- `Connection::graceful_shutdown` on one connection. -/
def gracefulConn (c : Client) : Client :=
  if !c.srvOpen then c
  else if c.h2 then { c with graceful := true }
  else if c.sniffing then closeServerSide c                      -- `ReadVersion::cancel`
  -- an exchange is under way: a handler is running, or the head of the connection's FIRST request is being
  -- read. (Between requests hyper's HTTP/1 connection is in its keep-alive idle state even if part of the
  -- next head has already arrived: it then closes like any idle connection.)
  else if c.inHandler || (c.halfHead && c.hc == 0) then { c with graceful := true }
  else closeServerSide c                                         -- idle keep-alive connection

/-- The serving future has ended. On the shutdown signal `GracefulShutdown::poll` closes the watch
    channel explicitly, which every connection driver sees as "shut down gracefully". When the future
    ends with an error nothing is sent; the channel closes only when the future itself is dropped –
    which an `await` by value does at once, and a caller that keeps the completed future alive does not. -/
def endServer (s : St) (r : Srv) : St :=
  { s with srv := r,
           clients := if s.cfg.graceful && (r == .ok || !s.cfg.hold) then s.clients.map gracefulConn else s.clients }

def modClient (s : St) (i : Nat) (f : Client → Client) : St :=
  { s with clients := s.clients.mapIdx fun j c => if j = i then f c else c }

def getClient (s : St) (i : Nat) : Client := s.clients.getD i {}

def stepBasic (s : St) : Op → St
  | .conn i =>
    if (getClient s i).st != .none then s
    else if s.srv != .pending || !s.listener then modClient s i fun c => { c with st := .refused }
    else
      -- accepted; `make_service` is asked for a service
      let s := { s with made := s.made + 1 }
      if s.cfg.makefail == some (s.made - 1) then
        -- the accepted stream lives in the serving future's state: it is closed when that future is dropped
        endServer (modClient s i fun c => { c with st := .opened, eof := !s.cfg.hold }) .errMake
      else modClient s i fun c => { c with st := .opened, srvOpen := true, sniffing := s.cfg.auto }
  | .connx _ => s            -- a connection request whose client has gone away is skipped
  | .send i k =>
    let c := getClient s i
    if c.st != .opened || !c.srvOpen then s
    else modClient s i fun c =>
      if c.h2 then c
      else match k with
      | .full =>
        if c.sniffing && c.halfHead then closeServerSide c   -- preface prefix then something else: HTTP/1 garbage
        else
          let c := { c with sniffing := false }
          if c.inHandler then { c with queued := c.queued + 1 }
          else if c.halfHead then closeServerSide c
          else startHandler c
      | .half => if c.inHandler || c.halfHead then c else { c with halfHead := true, sniffing := false }
      | .rest => if c.halfHead && !c.sniffing then startHandler c else closeServerSide c
      | .garbage => if c.inHandler then c else closeServerSide c
      -- part of the HTTP/2 preface: while sniffing it is a strict prefix (keep sniffing); after a
      -- different partial head it makes the sniffer decide HTTP/1 with garbage; on a connection already
      -- serving HTTP/1 it is just the beginning of another request line
      | .prihalf =>
        if c.sniffing then (if !c.halfHead then { c with halfHead := true } else closeServerSide c)
        else if c.inHandler || c.halfHead then c else { c with halfHead := true }
      -- the whole preface: HTTP/2 while sniffing from the start; otherwise an invalid HTTP/1 request
      | .pri =>
        if c.sniffing then (if !c.halfHead then { c with sniffing := false, h2 := true } else closeServerSide c)
        else if c.inHandler then c else closeServerSide c
  | .gate i =>
    modClient s i fun c =>
      if c.inHandler then
        let c := { c with inHandler := false, resp := if c.st == .opened then c.resp + 1 else c.resp }
        if c.graceful then closeServerSide c
        else if c.queued > 0 then startHandler { c with queued := c.queued - 1 }
        else c
      else { c with permits := c.permits + 1 }
  | .close i =>
    modClient s i fun c =>
      if c.st == .opened then { c with st := .closed, srvOpen := false, inHandler := false, halfHead := false, queued := 0 } else c
  | .signal =>
    if s.signalled then s
    else
      let s := { s with signalled := true }
      if s.cfg.graceful && s.srv == .pending then endServer s .ok else s
  | .dropListener =>
    let s := { s with listener := false }
    if s.srv == .pending then endServer s .errAccept else s
  | _ => s

/-- `GracefulShutdown::poll` checks the signal *before* every accept: when both become ready between
    two polls the signal is seen first. -/
def step (s : St) : Op → St
  | .sigConn i => stepBasic (stepBasic s .signal) (.conn i)
  | .sigDrop => stepBasic (stepBasic s .signal) .dropListener
  | op => stepBasic s op

def run (s : St) : List Op → List St
  | [] => []
  | op :: ops => let s' := step s op; s' :: run s' ops

def init (cfg : Cfg) : St := { cfg }

/-- One misbehaving client of the `srvk` stream as operations of client `k` in the server model.
    A reset and an immediate close are the same to the accept loop (a connection that is already
    dead when, or shortly after, it is accepted); a stalled client just stays connected. -/
def faultOps (k : Nat) (f : String) : List Op :=
  let f := if f.startsWith "pre:" then (f.drop 4).toString else f
  match f with
  | "rst" | "close" | "bound" | "bound8" | "boundgone" | "zero" => [.conn k, .close k]
  | "garbage" | "tlshalf" => [.conn k, .send k .garbage, .close k]
  | "half" => [.conn k, .send k .half, .close k]
  | "stall" => [.conn k]
  | _ => []

def kernelOps (faults : List String) : List Op :=
  let n := faults.length
  (List.range n |>.zip faults).flatMap (fun p => faultOps p.1 p.2) ++ [.conn n, .send n .full, .gate n]

def kernelInit (auto : Bool) (n : Nat) : St :=
  { cfg := { auto := auto, graceful := false, makefail := none }, clients := List.replicate (n + 1) {} }

/-- final state of the model for a `srvk` case: server result and whether the probe was served -/
def kernelRun (auto : Bool) (faults : List String) : Srv × Bool :=
  let s := (kernelOps faults).foldl step (kernelInit auto faults.length)
  (s.srv, (s.clients.getD faults.length {}).resp == 1)


end Hd.Server
