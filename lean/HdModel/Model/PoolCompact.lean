import Std.Data.HashMap
import HdModel.Spec.Pool
/-! Running the pool model over histories with thousands of origins: the state's function-valued fields
    (`waiting`, `idle`, `chan`) are chains of point updates, and the snapshot reads them for every known token after
    every op. `compact` re-tabulates the two fields over the known tokens in a hash map, falling back to the
    old function elsewhere. `compact_eq` proves that this changes nothing: it is the *same* state. -/
namespace Hd.Pool

def memoTable {β} (f : Nat → β) (ks : List Nat) : Std.HashMap Nat β :=
  ks.foldl (fun m k => m.insert k (f k)) {}

def look {β} (m : Std.HashMap Nat β) (f : Nat → β) (t : Nat) : β :=
  match m[t]? with | some v => v | none => f t

theorem memoTable_sound {β} (f : Nat → β) (ks : List Nat) :
    ∀ (m : Std.HashMap Nat β), (∀ t v, m[t]? = some v → v = f t) →
      ∀ t v, (ks.foldl (fun m k => m.insert k (f k)) m)[t]? = some v → v = f t := by
  induction ks with
  | nil => intro m h; simpa using h
  | cons k ks ih =>
    intro m h
    apply ih
    intro t v hv
    rw [Std.HashMap.getElem?_insert] at hv
    by_cases hk : (k == t) = true
    · simp [hk] at hv
      have : k = t := by simpa using hk
      subst this; exact hv.symm
    · simp [hk] at hv
      exact h t v hv

theorem look_memo {β} (f : Nat → β) (ks : List Nat) : look (memoTable f ks) f = f := by
  funext t
  unfold look
  split
  · next v hv => exact memoTable_sound f ks {} (by intro t v h; simp at h) t v hv
  · rfl

/-- the same state, its `waiting` and `idle` fields tabulated over the known tokens, and `chan` over the requests
    in the waiter queues -/
def compact (s : State) : State :=
  let ks := tokens s
  let mw := memoTable s.waiting ks
  let mi := memoTable s.idle ks
  let mc := memoTable s.chan (ks.flatMap s.waiting)
  { s with waiting := look mw s.waiting, idle := look mi s.idle, chan := look mc s.chan }

theorem compact_eq (s : State) : compact s = s := by
  unfold compact
  simp only [look_memo]

end Hd.Pool
