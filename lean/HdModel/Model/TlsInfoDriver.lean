import HdModel.Model.Util
import HdModel.Model.TlsInfo
namespace Hd.TlsInfo

def parseOp (t : String) : Option Op :=
  let n := natTok (t.drop 1).toString
  if t == "s" then some .send
  else if t.startsWith "n" then some (.new n)
  else if t.startsWith "p" then some (.poll n)
  else if t.startsWith "d" then some (.drop n)
  else none

def showRes (op : Op) : Res → String
  | .pending => "P" | .info => "S" | .none => "N"
  | .finished => match op with | .poll _ => "D" | _ => "-"

/-- `tlsch <t|e> ; <op>* | <obs>*`. A request on a TLS connection that is told "no TLS information" is the property's
    business (C20: it would be forwarded unvalidated); so is one that never gets an answer. -/
def driverLine (inp obs : List String) : Bool × Bool × String × String :=
  match inp with
  | kind :: ";" :: ops =>
    let ops' := ops.filterMap parseOp
    if ops'.length != ops.length then (false, false, "bad-line", "") else
    let s0 := if kind == "e" then initPlain else initTls
    let (rs, _) := run s0 ops'
    let shown := " ".intercalate ((ops'.zip rs).map fun (o, r) => showRes o r)
    let cls : List String :=
      (if kind != "e" && obs.contains "N" then ["C20/tls-request-told-not-tls"] else []) ++
      (if obs.contains "W" then ["C20/tls-info-of-another-connection"] else []) ++
      (if obs.contains "X" then ["C20/tls-info-panic"] else []) ++
      -- the last poll comes after the send and as many rounds of polls as there are requests waiting, plus one: by then the
      -- model has everybody through (a fair lock lets at least one waiter through per round); a request that is still
      -- pending where the model's is not never learns the information
      (if obs.getLast? == some "P" && (rs.getLast?.map fun r => r != Res.pending) == some true then ["C20/tls-request-never-learns-the-info"] else []) ++
      (if obs.length != ops.length then ["C20/unparsable-observation"] else [])
    (" ".intercalate obs == shown, cls.isEmpty, if cls.isEmpty then "-" else ",".intercalate cls, shown)
  | _ => (false, false, "bad-line", "")

end Hd.TlsInfo
