import HdModel.Model.Tls
/-! Model of the client's request path from the service entry points down to the connection, with
    every `panic!` / `expect` / `unreachable!` site of that path kept as an explicit `panic`
    outcome of the helper it lives in:

    * `protocolFrom`     — `impl From<http::Version> for HttpProtocol` (panics on HTTP/0.9, HTTP/3)
    * `tlsStreamNew`     — `TlsStream::new` (`expect("should be valid dns name")`)
    * `authorityForm`    — `authority_form` (`unreachable!("authority_form with relative uri")`)

    The services are modelled as they call these helpers, guards included
    (`ConnectionPoolService::connect_to`, `ConnectorService::call`, `TlsTransportWrapper::call`,
    `check_http1_request`, `check_http2_request`), so "no request makes the client panic" is a
    theorem about the guards, for every request. What the `http` crate, rustls and hyper do with a
    request that reaches them is assumed (they return errors, recorded as outcome classes). -/
namespace Hd.NoPanic

inductive Svc | client | clientnp | pool | nopool | connector
  deriving DecidableEq, Repr

inductive Ver | h09 | h10 | h11 | h2 | h3
  deriving DecidableEq, Repr

inductive Proto | h1 | h2
  deriving DecidableEq, Repr

inductive Err
  | uri | version | hostPort | tlsName | tlsHandshake | connOther | method | protocol
  deriving DecidableEq, Repr

/-- result of a helper or of the whole request -/
inductive Out (α : Type) | val (a : α) | err (e : Err) | panic (site : String)
  deriving Repr, DecidableEq

def Out.bind {α β} (x : Out α) (f : α → Out β) : Out β :=
  match x with
  | .val a => f a
  | .err e => .err e
  | .panic s => .panic s

def Out.isPanic {α} : Out α → Bool
  | .panic _ => true
  | _ => false

structure Req where
  svc : Svc
  /-- a TLS configuration on the client and a TLS acceptor on the test server -/
  tls : Bool
  /-- the transport validates the URI like the TCP transport does -/
  tcpcheck : Bool
  connect : Bool
  scheme : Option String
  host : Option String
  port : Option Nat
  ver : Ver
  /-- rustls accepts the bracket-stripped host as a server name -/
  nameValid : Bool
  /-- the caller set a `content-length` header that disagrees with the body, or `te: trailers`
      followed by another `te` value (hyper only drops a `te` header whose first value is not
      `trailers`): the h2 layer refuses both on HTTP/2 -/
  badLength : Bool := false
  /-- client and server both offer `h2` via ALPN: a TLS connection speaks HTTP/2 whatever version the request names -/
  alpnH2 : Bool := false

/-- `impl From<http::Version> for HttpProtocol` -/
def protocolFrom : Ver → Out Proto
  | .h10 | .h11 => .val .h1
  | .h2 => .val .h2
  | _ => .panic "Unsupported HTTP protocol"

/-- `HttpProtocol::from_version` -/
def fromVersion : Ver → Option Proto
  | .h10 | .h11 => some .h1
  | .h2 => some .h2
  | _ => none

/-- the services' use of it: unsupported versions are answered with an error -/
def requestProtocol (v : Ver) : Out Proto :=
  match fromVersion v with
  | some _ => protocolFrom v
  | none => .err .version

/-- `UriKey::try_from` -/
def poolKey (r : Req) : Out Unit :=
  if r.scheme.isNone || r.host.isNone then .err .uri else .val ()

/-- `get_host_and_port` of the TCP transport -/
def tcpHostPort (r : Req) : Out Unit :=
  if r.host.isNone then .err .hostPort
  else if r.port.isNone && !(r.scheme == some "http" || r.scheme == some "https") then .err .hostPort
  else .val ()

/-- `TlsStream::new` -/
def tlsStreamNew (nameValid : Bool) : Out Unit :=
  if nameValid then .val () else .panic "should be valid dns name"

def usesTls (r : Req) : Bool :=
  r.tls && (match r.scheme with | some s => Tls.schemeUsesTls s | none => false)

def certOk (r : Req) : Bool :=
  match r.host with
  | some h => Tls.certOk { cfg := true, alpnC := [], scheme := "https", host := h, peer := .good, alpnS := [], nameValid := true }
  | none => false

/-- the inner transport: the TCP transport's URI validation when `tcpcheck` -/
def innerConnect (r : Req) : Out Unit := if r.tcpcheck then tcpHostPort r else .val ()

/-- `TlsTransport::call` / `TlsTransportWrapper::call` (server name checked before the inner
    transport is asked to connect) / handshake against the test server -/
def connectStage (r : Req) : Out Unit :=
  if usesTls r then
    if r.host.isNone then .err .connOther                -- `NoDomain`
    else if !r.nameValid then .err .tlsName              -- the guard in `TlsTransportWrapper::call`
    else (innerConnect r).bind fun _ =>
      (tlsStreamNew r.nameValid).bind fun _ =>
        if certOk r then .val () else .err .tlsHandshake
  else innerConnect r

/-- The test server is behind a TLS acceptor exactly when the client has a TLS configuration;
    a request that went out in the clear (non-https/wss scheme) is answered by a hang-up, which
    hyper reports when the request is sent, after the request checks. -/
def sendStage (r : Req) : Out Unit :=
  if r.tls && !usesTls r then .err .connOther else .val ()

/-- `authority_form` -/
def authorityForm (host : Option String) : Out Unit :=
  match host with
  | some _ => .val ()
  | none => .panic "authority_form with relative uri"

/-- `check_http2_request` then `check_http1_request` on the established connection, then hyper -/
def checks (conn : Proto) (r : Req) : Out Unit :=
  match conn with
  | .h2 =>
    if r.connect then .err .method
    else if r.scheme.isNone || r.host.isNone then .err .connOther      -- hyper: h2 needs :scheme and :authority
    else if r.badLength then .err .connOther                            -- hyper: h2 checks content-length against the body
    else .val ()
  | .h1 =>
    if r.connect then
      if r.host.isNone then .err .protocol else authorityForm r.host
    else .val ()

/-- `HttpConnectionBuilder::handshake`: HTTP/2 if asked for, or if TLS negotiated `h2` -/
def connectionProtocol (requested : Proto) (r : Req) : Proto :=
  if requested == .h2 || (usesTls r && r.alpnH2) then .h2 else .h1

def usesPoolKey : Svc → Bool
  | .connector => false
  | _ => true

/-- the whole request -/
def run (r : Req) : Out Unit :=
  (if usesPoolKey r.svc then poolKey r else .val ()).bind fun _ =>
  (requestProtocol r.ver).bind fun proto =>
  (connectStage r).bind fun _ =>
  (checks (connectionProtocol proto r) r).bind fun _ =>
  sendStage r

end Hd.NoPanic
