/-! Model of `ReadVersion::poll` (src/server/conn/auto.rs) and `Rewind::poll_read` (src/rewind.rs).

    The client's side of the connection is a script of read events: what successive
    `poll_read` calls on the underlying io return. -/
namespace Hd.Sniff

abbrev Bytes := List Nat

/-- `b"PRI * HTTP/2.0\r\n\r\nSM\r\n\r\n"` -/
def preface : Bytes :=
  [80, 82, 73, 32, 42, 32, 72, 84, 84, 80, 47, 50, 46, 48, 13, 10, 13, 10, 83, 77, 13, 10, 13, 10]

inductive Ev
  | data (bs : Bytes)   -- bytes available: a read takes `min bs.length capacity` of them
  | pending             -- `Poll::Pending` (the future is polled again later)
  | eof                 -- `Ok(())` with nothing filled
  | err                 -- `Err(io::Error)`
deriving Repr, DecidableEq

inductive Version | h1 | h2
deriving Repr, DecidableEq

inductive SniffResult
  | ok (v : Version) (prefix_ : Bytes) (rest : List Ev)   -- `Ready(Ok((version, Rewind::new(io, filled))))`
  | error                                                  -- `Ready(Err(_))`
deriving Repr, DecidableEq

/-- The `while buf.filled().len() < HTTP2_PREFIX.len()` loop, one read event at a time.
    `filled` is the content of the 24-byte buffer so far. The end of the script is end of stream.
    A read that leaves part of a chunk unread has filled the buffer (`n = 24 - filled.length`), so
    the loop condition fails next and the version stays at its initial `Http2`. -/
def readVersion : List Ev → Bytes → SniffResult
  | [], filled => .ok (if filled.length < preface.length then .h1 else .h2) filled []
  | ev :: rest, filled =>
    if filled.length < preface.length then
      match ev with
      | .pending => readVersion rest filled
      | .err => .error
      | .eof => .ok .h1 filled rest
      | .data bs =>
        let n := min bs.length (preface.length - filled.length)
        let got := bs.take n
        let left := bs.drop n
        if n = 0 then .ok .h1 filled rest                 -- `filled().len() == len`
        else if got ≠ (preface.drop filled.length).take n then
          .ok .h1 (filled ++ got) (if left.isEmpty then rest else .data left :: rest)
        else if left.isEmpty then readVersion rest (filled ++ got)
        else .ok .h2 (filled ++ got) (.data left :: rest)
    else .ok .h2 filled (ev :: rest)

/-- `Rewind::poll_read` + the underlying scripted io, for one read with `cap` bytes of room.
    Returns the bytes delivered (`none` = error) and the new state. Pending results of the inner
    io are skipped (the caller polls again). -/
def rewindRead : Bytes → List Ev → Nat → Option Bytes × Bytes × List Ev
  | p :: ps, evs, cap =>
    let pre := p :: ps
    let n := min pre.length cap
    (some (pre.take n), pre.drop n, evs)
  | [], [], _ => (some [], [], [])
  | [], ev :: rest, cap =>
    match ev with
    | .pending => rewindRead [] rest cap
    | .err => (none, [], .err :: rest)                -- the error is reported; nothing is consumed
    | .eof => (some [], [], rest)
    | .data bs =>
      let n := min bs.length cap
      (some (bs.take n), [], if (bs.drop n).isEmpty then rest else .data (bs.drop n) :: rest)

/-- A sequence of reads with the given capacities; stops at the first error. Returns per-read
    byte counts, all bytes delivered, and the final state. -/
def rewindReads : Bytes → List Ev → List Nat → List Nat × Bytes × Bytes × List Ev
  | pre, evs, [] => ([], [], pre, evs)
  | pre, evs, cap :: caps =>
    match rewindRead pre evs cap with
    | (none, pre', evs') => ([], [], pre', evs')
    | (some bs, pre', evs') =>
      let r := rewindReads pre' evs' caps
      (bs.length :: r.1, bs ++ r.2.1, r.2.2.1, r.2.2.2)

/-- Every byte the script would deliver until end of stream or error, in order. -/
def drain : List Ev → Bytes
  | [] => []
  | .data [] :: _ => []            -- a read that yields nothing is the end of the stream
  | .data bs :: rest => bs ++ drain rest
  | .pending :: rest => drain rest
  | .eof :: _ => []
  | .err :: _ => []

/-- Every data byte of the script, in order (no stop at end markers). On truncated scripts this
    coincides with `drain`. -/
def drainAll : List Ev → Bytes
  | [] => []
  | .data bs :: rest => bs ++ drainAll rest
  | _ :: rest => drainAll rest

/-- Scripts are cut after their first `eof`/`err` (the harness does the same): a stream has one end. -/
def truncate : List Ev → List Ev
  | [] => []
  | .eof :: _ => [.eof]
  | .err :: _ => [.err]
  | .data [] :: _ => [.eof]
  | e :: rest => e :: truncate rest

/-- What the harness does with a script: sniff, then `caps` reads through the `Rewind`, then read
    to the end. Observation: version (or error), per-read counts, every byte delivered. -/
structure Obs where
  version : Option Version      -- `none` = `ReadVersion` returned an error
  counts  : List Nat
  bytes   : Bytes
deriving Repr, DecidableEq

def run (script : List Ev) (caps : List Nat) : Obs :=
  match readVersion (truncate script) [] with
  | .error => { version := none, counts := [], bytes := [] }
  | .ok v pre rest =>
    let r := rewindReads pre rest caps
    { version := some v, counts := r.1, bytes := r.2.1 ++ r.2.2.1 ++ drainAll r.2.2.2 }

end Hd.Sniff
