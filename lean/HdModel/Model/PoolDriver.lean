import HdModel.Model.Util
import HdModel.Spec.Pool
import HdModel.Model.PoolCompact
import HdModel.Model.Builder
namespace Hd.Pool

def splitSemi (l : List String) : List (List String) :=
  l.foldr (fun t acc => if t == ";" then [] :: acc else match acc with | [] => [[t]] | x :: xs => (t :: x) :: xs) [[]]

def parseOp : List String → Option Op
  | ["i", r, k, m] => some (.issue (natTok r) (natTok k) (m == "1"))
  | ["p", r] => some (.poll (natTok r))
  | ["c", r] => some (.cancel (natTok r))
  | ["co", r] => some (.cancelOff (natTok r))
  | ["d", r, o] =>
    let out := match o with | "ok0" => some (DialOutcome.ok .asRequested) | "ok1" => some (.ok .alpnH2) | "okp" => some (.ok .notShared) | "fc" => some .failConnect
                            | "fh" => some .failHandshake | _ => none
    out.map (Op.dialDone (natTok r))
  | ["f", r] => some (.finish (natTok r))
  | ["cr", c] => some (.connReady (natTok c))
  | ["cc", c] => some (.connClose (natTok c))
  | ["ce", c] => some (.connFail (natTok c))
  | ["run"] => some .run
  | ["t", ms] => some (.tick (natTok ms))
  | ["mark"] => some .mark
  -- another thread holds the pool's mutex for a while: whoever needs it waits, nothing else happens
  | ["hold"] => some .mark
  | ["shutdown"] => some .shutdown
  | _ => none

def splitOnChar (s : String) (c : Char) : List String := s.splitOn (String.singleton c)

def parseRes (t : String) : Option (Obs × Bool × Option KeyId × Bool) :=
  let woke := t.endsWith "w"
  let t := if woke then (t.dropEnd 1).toString else t
  if t == "D" then some (.done, woke, none, false)
  else if t == "N" then some (.noop, woke, none, false)
  else if t == "P" then some (.pending, woke, none, false)
  else if t == "X" then some (.panic, woke, none, false)
  else if t.startsWith "E" then some (.err (natTok (t.drop 1).toString), woke, none, false)
  else if t.startsWith "G" then
    match splitOnChar (t.drop 1).toString '.' with
    | [c, re, o, h] => some (.got (natTok c) (re == "1"), woke, some (natTok o), h == "1")
    | _ => none
  else none

def parseNats (t : String) (sep : Char) : List Nat := if t == "-" then [] else (splitOnChar t sep).map natTok

def parseIObs : List String → Option IObs
  | [res, conn, wait, idle, drops, dials] =>
    (parseRes res).map fun (r, w, o, h) =>
      { res := r, woke := w, origin := o, isH2 := h,
        connecting := parseNats conn ',',
        waiting := if wait == "-" then [] else (splitOnChar wait ',').map fun e =>
          match splitOnChar e ':' with | [a, b, c] => (natTok a, natTok b, natTok c) | _ => (0, 0, 0),
        idle := if idle == "-" then [] else (splitOnChar idle ',').map fun e =>
          match splitOnChar e ':' with | [a, b] => (natTok a, parseNats b '.') | _ => (0, []),
        drops := natTok drops, dials := natTok dials }
  | _ => none

def showRes : Obs → String
  | .done => "D" | .noop => "N" | .pending => "P" | .panic => "X"
  | .err k => s!"E{k}" | .got c r => s!"G{c}.{boolTok r}"

def showIObs (o : IObs) : String :=
  let l := fun (xs : List String) (sep : String) => if xs.isEmpty then "-" else sep.intercalate xs
  s!"{showRes o.res} {l (o.connecting.map toString) ","} {l (o.waiting.map fun (a, b, c) => s!"{a}:{b}:{c}") ","} {l (o.idle.map fun (t, cs) => s!"{t}:{l (cs.map toString) "."}") ","} {o.drops} {o.dials}"

def sameRes (m i : Obs) : Bool := m == i

structure Acc where
  s        : State
  reqs     : List ReqId := []
  mon      : Mon := {}
  drain    : Bool := false
  diverged : Bool := false
  agree    : Bool := true
  cls      : List String := []        -- every class of violation seen, in order of first occurrence
  shown    : List String := []
  nops     : Nat := 0

def addCls (l : List String) : Option String → List String
  | none => l
  | some c => if l.contains c then l else l ++ [c]

def stepCase (cfg : Config) (a : Acc) (op : Op) (io : IObs) : Acc :=
  -- implementation-only monitors run over the whole trace
  let (mon, v) := monStep cfg a.mon op io
  let a := { a with mon := mon, cls := addCls a.cls v }
  let a := if op == .mark then { a with drain := true } else a
  let a := match op with | .issue r _ _ => { a with reqs := if a.reqs.contains r then a.reqs else r :: a.reqs } | _ => a
  if a.diverged then a else
  -- quiescent progress, evaluated on the implementation's answer in the model's (so far agreeing) state
  let a := match op with
    | .poll r => if strandedAt a.s r io.res then { a with cls := addCls a.cls (some "C03/stranded") } else a
    | _ => a
  let (s', mres) := step a.s op
  -- long histories: re-tabulate the function-valued fields now and then (`compact_eq`: it is the same state)
  let s' := if a.nops % 32 == 31 then compact s' else s'
  let a := { a with nops := a.nops + 1 }
  let mo := snapshot s' mres
  let same := sameRes mo.res io.res && sameState mo io
  -- bookkeeping-only difference (waiter queue / marker): a disagreement, but keep following the run
  -- so that the first *observable* departure can be classified
  -- … likewise when the same connection is handed out and only its "re-used" label differs
  let sameConn := match mo.res, io.res with | .got c1 _, .got c2 _ => c1 == c2 | _, _ => false
  let observable := !(sameRes mo.res io.res || sameConn) || mo.idle != io.idle || mo.drops != io.drops || mo.dials != io.dials
  if same then { a with s := s', shown := a.shown ++ [showIObs mo] }
  else if !observable then { a with s := s', agree := false, shown := a.shown ++ [showIObs mo ++ " <"] }
  else
    let c := classify a.s a.drain op mo io
    { a with s := s', diverged := true, agree := false, cls := addCls a.cls c, shown := a.shown ++ [showIObs mo ++ " <<"] }

/-- The idle timeout token: `-` none, `<ms>`, or `u<µs>` for a timeout below the model's 1 ms tick: every
    tick then outlasts it, which is what 1 ms (a connection expires once it was idle for longer) says too. -/
def idleTok (t : String) : Option Nat :=
  if t == "-" then none else if t.startsWith "u" then some 1
  -- `Duration::MAX`: longer than any history
  else if t == "max" then some (10 ^ 30) else some (natTok t)

/-- `pool <idleTimeout|-> <maxIdle> <cap> ; <op> ; … | <obs> ; …` -/
def driverLine (inp obs : List String) : Bool × Bool × String × String :=
  -- a timed case during which the machine stalled measures nothing: skipped
  if obs == ["unreliable"] then (true, true, "-", "skipped") else
  match splitSemi inp with
  | (it :: mi :: cap :: laxT) :: opToks =>
    let cfg : Config := { idleTimeout := idleTok it, maxIdle := natTok mi, cap := cap == "1",
                          lax := laxT == ["1"] }
    let ops := opToks.filterMap parseOp
    let iobs := (splitSemi obs).filterMap parseIObs
    if ops.length != opToks.length || iobs.length != ops.length then
      (false, false, "pool/unparsable-observation", s!"ops={ops.length}/{opToks.length} obs={iobs.length}")
    else
      let a := (ops.zip iobs).foldl (fun a (op, io) => stepCase cfg a op io) { s := init cfg }
      (a.agree, a.cls.isEmpty, if a.cls.isEmpty then "-" else ",".intercalate a.cls, " ; ".intercalate a.shown)
  | _ => (false, false, "bad-line", "")

end Hd.Pool

namespace Hd.Pool

/-- `key=value` observation tokens of the `poolmt` stream -/
def kv (obs : List String) (k : String) : Option String :=
  obs.findSome? fun t => match t.splitOn "=" with | [a, b] => if a == k then some b else none | _ => none

/-- `poolmt <seed> <threads> <requests> <cap> <maxIdle> | stranded=… probes=a/b double_use=… cross_origin=… idle_over=… panics=… done=… dropped=…`.
    The run is not deterministic, so there is no model run to compare with: the observation is judged
    against what the reachable-state theorems promise for every interleaving – `C03_pending_waiter_waits_for_running_attempt`
    (with every attempt terminating, nobody hangs), `C02_one_holder`, `C06_request_gets_own_origin`, `C15_idle_bound`. -/
def mtLine (_inp obs : List String) : Bool × Bool × String × String :=
  match kv obs "stranded", kv obs "probes", kv obs "double_use", kv obs "cross_origin", kv obs "idle_over", kv obs "panics" with
  | some st, some pr, some du, some co, some io, some pa =>
    let probesOk := match pr.splitOn "/" with | [a, b] => a == b | _ => false
    let cls : List String :=
      (if st != "0" then ["C03/stranded-under-contention"] else []) ++
      (if !probesOk then ["C03/probe-stranded-under-contention"] else []) ++
      (if du != "0" then ["C02/double-use"] else []) ++
      (if co != "0" then ["C06/cross-origin"] else []) ++
      (if io != "0" then ["C15/idle-over-limit"] else []) ++
      (if pa != "0" then ["C17/pool-panic"] else [])
    (cls.isEmpty, cls.isEmpty, if cls.isEmpty then "-" else ",".intercalate cls, "stranded=0 probes=n/n double_use=0 cross_origin=0 idle_over=0 panics=0")
  | _, _, _, _, _, _ => (false, false, "pool/unparsable-observation", "")

end Hd.Pool

namespace Hd.Pool

/-- `conn <op> … | <is_open><ready R|P|E><can_share> …` – the leaf contract of hyperdriver's own HTTP/1
    `HttpConnection`, which the pool model takes as `isOpenC` with `lax = false`: it reports open exactly
    when it can take a request now, and it cannot be shared. -/
def connLine (inp obs : List String) : Bool × Bool × String × String :=
  let h2 := inp.head? == some "h2"
  let ops := if h2 then inp.drop 1 else inp
  if obs.length != ops.length || obs.isEmpty then (false, false, "C02/unparsable-observation", "") else
  -- HTTP/2: from the step at which the peer goes away the connection must stop calling itself open
  let closedFrom := (ops.findIdx? (· == "close")).getD ops.length
  let bad := (obs.zip (List.range obs.length)).filterMap fun (t, k) =>
    match t.toList with
    | [o, r, sh] =>
      if h2 then
        if sh != '1' then some "C04/http2-connection-not-shareable"
        else if k ≥ closedFrom && o == '1' then some "C05/closed-connection-reported-open"
        else if k < closedFrom && o == '0' then some "C04/open-connection-reported-closed"
        else none
      else if o == '1' && r != 'R' then some "C02/open-but-not-ready"
      else if o == '0' && r == 'R' then some "C04/ready-connection-reported-closed"
      else if sh != '0' then some "C02/http1-connection-shareable"
      else none
    | _ => some "C02/unparsable-observation"
  let cls := bad.foldl (fun acc c => if acc.contains c then acc else acc ++ [c]) ([] : List String)
  (cls.isEmpty, cls.isEmpty, if cls.isEmpty then "-" else ",".intercalate cls,
   if h2 then "can_share = 1, is_open until the peer is gone" else "is_open = (poll_ready = Ready(Ok)), can_share = 0")

end Hd.Pool

namespace Hd.Pool

/-- the builder calls of the harness' sequence `seq` (the table in `harness/src/cfgp.rs`, call for call) -/
def cfgpCalls (seq : Nat) (cfg : Builder.PoolCfg) (reqT : Option Nat) (red : String) (ua : Bool) : Builder.B × List Builder.Call :=
  let redCall : Builder.Call := if red == "n" then .withoutRedirects else if red == "s" then .withStandardRedirectPolicy else .withRedirectPolicy 3
  let uaCall : List Builder.Call := if ua then [.withUserAgent "hdverif-agent/7"] else []
  let finish : List Builder.Call := [.withAutoHttp, .withoutTls, .withOptionalTimeout reqT] ++ uaCall ++ [redCall]
  let first : List Builder.Call := [.withPool cfg, .withOptionalTimeout reqT] ++ uaCall
  let chain := fun (f : List Builder.Call) => first ++ [redCall] ++ f ++ [.withoutTls]
  let other : Builder.PoolCfg := { maxIdle := 17, idleTimeout := some 3000 }
  match seq with
  | 0 => (Builder.new, [.withTransport, .withPool cfg] ++ finish)
  | 1 => (Builder.new, [.withTransport, .withDefaultPool, .withPool cfg] ++ finish)
  | 2 => (Builder.new, [.withTransport, .withoutPool, .withPool cfg] ++ finish)
  | 3 => (Builder.new, [.withPool cfg, .withTransport] ++ finish)
  | 4 => (Builder.new, [.withTransport, .withPool other, .withPool cfg] ++ finish)
  | 5 => (Builder.dflt, [.withTransport, .withPool cfg] ++ finish)
  | 6 => (Builder.new, [.withTransport, .withDefaultPool, .editPool cfg] ++ finish)
  | 7 => (Builder.new, chain [.withTransport, .withAutoHttp])
  | 8 => (Builder.new, chain [.withAutoHttp, .withTransport])
  | 9 => (Builder.new, chain [.withTcp, .withTransport, .withAutoHttp])
  | 10 => (Builder.new, chain [.withTransport, .withProtocol])
  | 11 => (Builder.new, first ++ [.withTransport, .withAutoHttp, .withRedirectPolicy 3, .withoutTls])
  | 12 => (Builder.new, first ++ [.withTransport, .withAutoHttp, .withStandardRedirectPolicy, .withoutTls])
  | 13 => (Builder.new, first ++ [.withTransport, .withAutoHttp, .withoutRedirects, .withoutTls])
  | 14 => (Builder.new, chain [.withTransport, .withAutoHttp, .layer])
  | _ => (Builder.new, chain [.withTransport, .withAutoHttp, .withBody])

/-- Stream `cfgp`: a client assembled by `Client::builder` with a pool configuration given in one of several ways
    (`<seq>` - irrelevant to the model: however the configuration gets there, it is the one the pool enforces),
    a burst of `n` concurrent HTTP/1.1 requests to one origin, all answered and released; then, after `wait` ms,
    one more request. Observed: connections still open once the burst has settled, and connections accepted in all.
    The model runs the same history through the pool model with that configuration.
    `cfgp <seq> <maxIdle> <idleTimeout ms|-> <n> <wait ms> <request timeout|-> <redirects n|s|l> <ua 0|1> | <open> <total> ua=.. slow=.. redir=..` -/
def cfgpLine (inp obs : List String) : Bool × Bool × String × String :=
  if obs == ["unreliable"] then (true, true, "-", "skipped") else
  match inp, obs with
  | [seqT, mi, it, nT, waitT, reqT, red, ua], [openT, totalT, uaO, slowO, redirO] =>
    -- what the builder model says is configured after the calls of this sequence (`Props/Builder.lean`: each setting is what
    -- the last call about it said, whatever calls came in between)
    let asked : Builder.PoolCfg := { maxIdle := natTok mi, idleTimeout := idleTok it }
    let (b0, calls) := cfgpCalls (natTok seqT) asked reqT.toNat? red (ua == "1")
    let b := Builder.run b0 calls
    let n := natTok nT
    -- the pool part: the same history through the pool model with the pool configuration in effect (none: no pool at all)
    let (kept, total) := match b.pool with
      | none => (0, n + 1)
      | some pc =>
        let cfg : Config := { idleTimeout := pc.idleTimeout, maxIdle := pc.maxIdle, cap := true, lax := false }
        let rs := List.range n
        let ops : List Op :=
          (rs.flatMap fun r => [.issue r 0 false, .poll r]) ++ (rs.flatMap fun r => [.dialDone r (.ok .asRequested), .poll r]) ++
          (rs.flatMap fun r => [.finish r, .connReady r, .run])
        let s := ops.foldl (fun s op => (step s op).1) (init cfg)
        let t := (tokenOf s 0).2
        let kept := (s.idle t).length
        let s := (step s (.tick (natTok waitT + 20))).1
        let s := (step s (.issue 100 0 false)).1
        let (_, res) := step s (.poll 100)
        (kept, match res with | .got _ _ => n | _ => n + 1)
    -- the rest: the user agent given (or the crate's own), the request timeout against a handler that takes 400 ms
    -- (`Timeout.pollOnce`'s verdict at the deadline), redirects followed iff a policy is configured
    let uaM := s!"ua={boolTok b.userAgent.isSome}"
    let slowM := match b.timeout with | some d => if d < 400 then "slow=timeout" else "slow=ok" | none => "slow=ok"
    let redirM := if b.redirect.isNone then "redir=302" else "redir=200"
    let shown := s!"{kept} {total} {uaM} {slowM} {redirM}"
    let okOpen := openT == toString kept
    let okTotal := totalT == toString total
    let cls := (if natTok openT > kept then ["C15/configured-idle-limit-not-enforced"] else if !okOpen then ["C04/connection-destroyed"] else []) ++
      (if okOpen && !okTotal then [if natTok totalT > total then "C04/idle-not-reused" else "C05/expired-connection-kept-or-used"] else []) ++
      (if slowO != slowM then [if slowM == "slow=timeout" then "C19/resolved-late" else "C19/inner-result-replaced-by-timeout"] else []) ++
      (if uaO != uaM then ["cfg/user-agent-not-as-configured"] else []) ++
      (if redirO != redirM then ["cfg/redirect-policy-not-as-configured"] else [])
    (cls.isEmpty, cls.isEmpty, if cls.isEmpty then "-" else ",".intercalate cls, shown)
  | _, _ => (false, false, "C15/unparsable-observation", "")

end Hd.Pool
