/-! Model of `SocketAddrs::{set_port, sort_preferred, pop}` (src/client/conn/dns.rs) and of
    `IpVersion::from_binding` + `TcpTransport::connecting` (src/client/conn/transport/tcp.rs).

    An address is (family, identity, port): the identity stands for the IP bits, which
    the code never inspects. -/
namespace Hd.Dns

structure Addr where
  v6   : Bool
  id   : Nat
  port : Nat
deriving DecidableEq, Repr, Inhabited

inductive Fam | v4 | v6
deriving DecidableEq, Repr

/-- The `for (idx, addr) in self.0.iter().enumerate()` loop of `sort_preferred`, with its
    four match arms in order (the third one is the `break`). -/
def scanLoop : List Addr → Nat → Option Nat → Option Nat → Option Nat × Option Nat
  | [], _, i4, i6 => (i4, i6)
  | a :: rest, idx, i4, i6 =>
    match a.v6, i4, i6 with
    | false, none, _ => scanLoop rest (idx + 1) (some idx) i6
    | true, _, none => scanLoop rest (idx + 1) i4 (some idx)
    | _, some _, some _ => (i4, i6)
    | _, _, _ => scanLoop rest (idx + 1) i4 i6

/-- `idx.and_then(|idx| self.0.remove(idx))` : `VecDeque::remove` is `None` out of bounds. -/
def removeIdx (l : List Addr) : Option Nat → Option Addr × List Addr
  | none => (none, l)
  | some i => (l[i]?, l.eraseIdx i)

/-- The two `remove` calls, larger index first so that the smaller one stays valid. -/
def extract (l : List Addr) (i4 i6 : Option Nat) : Option Addr × Option Addr × List Addr :=
  let swapped : Bool := match i4, i6 with
    | some a, some b => decide (a > b)
    | _, _ => false
  if swapped then
    let (a4, l1) := removeIdx l i4
    let (a6, l2) := removeIdx l1 i6
    (a4, a6, l2)
  else
    let (a6, l1) := removeIdx l i6
    let (a4, l2) := removeIdx l1 i4
    (a4, a6, l2)

/-- The final `match (prefer, v4, v6)` with its `push_front`s. -/
def arrange (prefer : Option Fam) (a4 a6 : Option Addr) (rest : List Addr) : List Addr :=
  match prefer, a4, a6 with
  | some .v4, some a4, some a6 => a4 :: a6 :: rest
  | some .v6, some a4, some a6 => a6 :: a4 :: rest
  | _, some a4, some a6 => a6 :: a4 :: rest
  | _, some a4, none => a4 :: rest
  | _, none, some a6 => a6 :: rest
  | _, _, _ => rest

def sortPreferred (prefer : Option Fam) (l : List Addr) : List Addr :=
  let (i4, i6) := scanLoop l 0 none none
  let r := extract l i4 i6
  arrange prefer r.1 r.2.1 r.2.2

def setPort (p : Nat) (l : List Addr) : List Addr := l.map fun a => { a with port := p }

/-- `IpVersion::from_binding(local_v4, local_v6)`. -/
def fromBinding (v4bound v6bound : Bool) : Option Fam :=
  match v4bound, v6bound with
  | true, true => some .v6
  | true, false => some .v4
  | false, true => some .v6
  | false, false => none

/-- `TcpTransport::connecting`: sort only when a happy-eyeballs timeout is configured; the
    resulting deque is popped front to back by `TcpConnecting::connect`. -/
def connectingOrder (heTimeout v4bound v6bound : Bool) (l : List Addr) : List Addr :=
  if heTimeout then sortPreferred (fromBinding v4bound v6bound) l else l

/-- What the hook `verif_hooks::sort_preferred` does: optional `set_port`, optional sort, pop all. -/
def hookOrder (prefer : Option Fam) (sort : Bool) (port : Option Nat) (l : List Addr) : List Addr :=
  let l := match port with | some p => setPort p l | none => l
  if sort then sortPreferred prefer l else l

end Hd.Dns
