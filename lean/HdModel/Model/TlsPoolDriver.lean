import HdModel.Model.Util
import HdModel.Model.TlsPool
import HdModel.Model.TlsDriver
namespace Hd.TlsPool
open Hd.Tls

def splitSemi (l : List String) : List (List String) :=
  l.foldr (fun t acc => if t == ";" then [] :: acc else match acc with | [] => [[t]] | x :: xs => (t :: x) :: xs) [[]]

/-- `tlsp <host> <port> ; <scheme> ; … | <res>.<leak> … ; <wire> …` -/
def driverLine (inp obs : List String) : Bool × Bool × String × String :=
  -- (an optional third token says in which order the client's builder was called: nothing to the model)
  let inp' := match splitSemi inp with | [h, p, _order] :: reqs => [h, p] :: reqs | x => x
  match inp', splitSemi obs with
  | [_host, _port] :: reqs, [results, wires] =>
    let schemes := reqs.filterMap List.head?
    let (cs, idx) := runSeq exact [] schemes
    let mwires := cs.map fun c => showWire (wireOf c)
    let mres := schemes.map fun s => s!"ok.{boolTok (!schemeUsesTls s)}"
    let shown := " ".intercalate mres ++ " ; " ++ (if mwires.isEmpty then "-" else " ".intercalate mwires)
    -- the property on the implementation's own observation
    let pairs := schemes.zip results
    let cls : Option String :=
      if results.length != schemes.length then some "C12/unparsable-observation"
      else if pairs.any (fun (s, r) => schemeUsesTls s && r.endsWith ".1") then some "C12/secure-request-on-cleartext-connection"
      else if pairs.any (fun (_, r) => r.startsWith "panic") then some "C12/panic"
      else if pairs.any (fun (_, r) => !r.startsWith "ok") then some "C12/pooled-request-failed"
      else none
    let wiresOk := (if wires == ["-"] then [] else wires) == mwires
    -- plain requests' heads are readable by their peer as a matter of course: only the result is compared for them
    let resOk := results.length == schemes.length &&
      (pairs.all fun (s, r) => if schemeUsesTls s then r == "ok.0" else r.startsWith "ok.")
    let _ := idx
    (wiresOk && resOk, cls.isNone, cls.getD "-", shown)
  | _, _ => (false, false, "bad-line", "")

/-- `tlsd <scheme> | cfg=<0|1> wire=<tls|ascii|none>`: the default-constructed TLS transport in a process without an installed
    crypto provider - the model's rule is the same as everywhere: a scheme that asks for TLS gets a TLS handshake first. -/
def defaultLine (inp obs : List String) : Bool × Bool × String × String :=
  match inp, obs with
  | [scheme], [cfg, wire] =>
    let tls := schemeUsesTls scheme
    let shown := s!"cfg=1 wire={if tls then "tls" else "ascii"}"
    let cls : Option String :=
      if tls && wire == "wire=ascii" then some "C12/secure-scheme-in-clear"
      else if cfg != "cfg=1" then some "C12/default-transport-without-tls-configuration"
      else if tls && wire != "wire=tls" then some "C12/secure-request-not-sent"
      else none
    (s!"{cfg} {wire}" == shown, cls.isNone, cls.getD "-", shown)
  | _, _ => (false, false, "bad-line", "")

end Hd.TlsPool
