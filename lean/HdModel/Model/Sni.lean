/-! Model of `server::conn::tls::sni::handle` (src/server/conn/tls/sni.rs).

    Host values are given already split into host and port: the split is `http::uri::Authority`'s
    parser (assumed, trusted base); the harness renders `host[:port]` into the real request. -/
namespace Hd.Sni

structure HostVal where
  host : String
  port : Option Nat
deriving Repr, DecidableEq

structure Req where
  h2        : Bool                       -- `req.version() == HTTP_2`
  hostHdr   : Option HostVal             -- parsed Host header, if present and parsable
  authority : Option HostVal             -- URI authority, if present
  tls       : Option (Option HostVal)    -- TLS info present? and its (parsable) server name
deriving Repr

inductive Outcome
  | forward (validated : Bool)           -- passed to the inner service; flag = `validated_server_name`
  | rejectInvalid                        -- `ValidateSNIError::InvalidSNI`
  | rejectMissing                        -- `ValidateSNIError::MissingSNI`
deriving Repr, DecidableEq

/-- The comparison `handle` performs on the two host strings. -/
def hostEq (a b : String) : Bool := a.toLower == b.toLower   -- `eq_ignore_ascii_case`

/-- The host `handle` validates. -/
def namedHost (r : Req) : Option HostVal :=
  if r.h2 then (r.authority <|> r.hostHdr) else r.hostHdr

def handle (r : Req) : Outcome :=
  let host := namedHost r
  match r.tls with
  | none => .forward false
  | some none => .rejectMissing
  | some (some sni) =>
    match host with
    | none => .forward false
    | some h => if hostEq h.host sni.host then .forward true else .rejectInvalid

end Hd.Sni
