/-! Model of `service::timeout::TimeoutFuture::poll` (src/service/timeout.rs): the inner future is
    polled first, then the `Sleep` armed for `timeout` at creation. Times are virtual ms since the
    request was issued. -/
namespace Hd.Timeout

/-- The inner service's future: ready `at` ms after it was created (`none` = never), with a result. -/
structure Inner where
  at_ : Option Nat
  ok  : Bool
deriving Repr, DecidableEq

inductive Outcome
  | inner (ok : Bool)     -- the inner result, returned unchanged
  | timeout               -- `Err((this.error)())`
deriving Repr, DecidableEq

/-- Is the inner future ready when polled at `now`? -/
def innerReady (i : Inner) (now : Nat) : Bool :=
  match i.at_ with | some t => decide (t ≤ now) | none => false

/-- One `poll` at virtual time `now`. -/
def pollOnce (d : Nat) (i : Inner) (now : Nat) : Option Outcome :=
  if innerReady i now then some (.inner i.ok)     -- `this.inner.poll(cx)` is `Ready`
  else if d ≤ now then some .timeout              -- `this.timeout.poll(cx)` is `Ready`
  else none

/-- Poll at the given instants (in the given order) until the first `Ready`. Returns the outcome,
    its instant, and how many times the inner future was polled. -/
def runPolls (d : Nat) (i : Inner) : List Nat → Nat → Option (Outcome × Nat) × Nat
  | [], k => (none, k)
  | p :: ps, k =>
    match pollOnce d i p with
    | some o => (some (o, p), k + 1)
    | none => runPolls d i ps (k + 1)

end Hd.Timeout
