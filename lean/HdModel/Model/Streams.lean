import HdModel.Model.Sniff
/-! Model of the byte-stream adapters (C18): the tokio↔hyper bridge `TokioIo` in both directions
    (src/bridge/io.rs), `Rewind` (src/rewind.rs), the dispatch wrappers `Braid`, `TlsBraid::NoTls`,
    client/server `Stream` (src/stream/core.rs, src/stream/tls.rs, src/client/conn/stream/mod.rs,
    src/server/conn/stream.rs), and the in-process duplex pipe (src/stream/duplex.rs over
    `tokio::io::duplex`, whose semantics are assumed).

    Reads reuse the read-event scripts of `Hd.Sniff`. -/
namespace Hd.Streams
open Hd.Sniff

/-- One adapter of a stack, top first. -/
inductive Layer
  | wrapper                  -- Braid / TlsBraid::NoTls / client Stream / server Stream: pure dispatch,
                             --   does not forward `poll_write_vectored`
  | bridge                   -- TokioIo, either direction: forwards everything incl. vectored writes
  | rewind (pre : Bytes)     -- Rewind with its remaining prefix
deriving Repr, DecidableEq

/-- What the scripted inner writer does with the next write. -/
inductive WEv
  | acc (n : Nat)            -- accept at most `n` bytes
  | pending
  | err
deriving Repr, DecidableEq

structure St where
  layers   : List Layer
  revs     : List Ev          -- remaining read script of the inner io
  wevs     : List WEv         -- remaining write script of the inner io (then: accept everything)
  written  : Bytes := []      -- bytes that reached the inner io, in order
  flushes  : Nat := 0
  shutdowns : Nat := 0
deriving Repr

inductive Res
  | bytes (bs : Bytes)        -- a read delivered these bytes (after the caller's pre-filled ones)
  | count (n : Nat)           -- a write accepted `n` bytes
  | ok
  | pending
  | err
deriving Repr, DecidableEq

/-- Prefix bytes still to be replayed by the topmost `Rewind` that has any, and the stack without them. -/
def takePrefix : List Layer → Nat → Option (Bytes × List Layer)
  | [], _ => none
  | .rewind (p :: ps) :: rest, cap =>
    let pre := p :: ps
    let n := min pre.length cap
    some (pre.take n, .rewind (pre.drop n) :: rest)
  | l :: rest, cap => (takePrefix rest cap).map fun (bs, rest') => (bs, l :: rest')

/-- One `poll_read` at the top of the stack with `cap` bytes of room. Every adapter hands the
    request down unchanged; a `Rewind` with a non-empty prefix answers itself. -/
def read (s : St) (cap : Nat) : Res × St :=
  match takePrefix s.layers cap with
  | some (bs, layers') => (.bytes bs, { s with layers := layers' })
  | none =>
    match s.revs with
    | [] => (.bytes [], s)
    | .pending :: rest => (.pending, { s with revs := rest })
    | .err :: rest => (.err, { s with revs := rest })
    | .eof :: rest => (.bytes [], { s with revs := rest })
    | .data bs :: rest =>
      let n := min bs.length cap
      (.bytes (bs.take n), { s with revs := if (bs.drop n).isEmpty then rest else .data (bs.drop n) :: rest })

/-- What the inner writer does with `bs`. -/
def innerWrite (s : St) (bs : Bytes) : Res × St :=
  match s.wevs with
  | [] => (.count bs.length, { s with written := s.written ++ bs })
  | .acc n :: rest => (.count (min n bs.length), { s with written := s.written ++ bs.take n, wevs := rest })
  | .pending :: rest => (.pending, { s with wevs := rest })
  | .err :: rest => (.err, { s with wevs := rest })

def write (s : St) (bs : Bytes) : Res × St := innerWrite s bs

/-- Does a vectored write survive down to the inner writer? Only if no dispatch wrapper is in the way. -/
def forwardsVectored (layers : List Layer) : Bool := layers.all fun l => l != .wrapper

/-- `poll_write_vectored`: forwarded as such by bridges and `Rewind`; a dispatch wrapper falls back
    to the default implementation, which writes the first non-empty slice only. -/
def writeVectored (s : St) (slices : List Bytes) : Res × St :=
  if forwardsVectored s.layers then innerWrite s slices.flatten
  else innerWrite s ((slices.find? (fun b => !b.isEmpty)).getD [])

def flush (s : St) : Res × St := (.ok, { s with flushes := s.flushes + 1 })
def shutdown (s : St) : Res × St := (.ok, { s with shutdowns := s.shutdowns + 1 })

inductive Op
  | read (cap : Nat)
  | write (bs : Bytes)
  | writev (slices : List Bytes)
  | flush
  | shutdown
deriving Repr, DecidableEq

def step (s : St) : Op → Res × St
  | .read cap => read s cap
  | .write bs => write s bs
  | .writev sl => writeVectored s sl
  | .flush => flush s
  | .shutdown => shutdown s

def run (s : St) : List Op → List Res × St
  | [] => ([], s)
  | op :: ops =>
    let (r, s') := step s op
    let (rs, s'') := run s' ops
    (r :: rs, s'')

/-! ### The in-process pipe (`tokio::io::duplex`, assumed semantics) behind identity wrappers -/

structure Pipe where
  cap    : Nat
  buf    : Bytes := []
  closed : Bool := false        -- the writing end has been shut down (or dropped)
deriving Repr

def Pipe.write (p : Pipe) (bs : Bytes) : Res × Pipe :=
  if p.closed then (.err, p)
  else
    let avail := p.cap - p.buf.length
    if avail = 0 then (.pending, p)
    else (.count (min bs.length avail), { p with buf := p.buf ++ bs.take avail })

def Pipe.read (p : Pipe) (cap : Nat) : Res × Pipe :=
  match p.buf with
  | b :: bs => let n := min (b :: bs).length cap; (.bytes ((b :: bs).take n), { p with buf := (b :: bs).drop n })
  | [] => if p.closed then (.bytes [], p) else (.pending, p)

def Pipe.shutdown (p : Pipe) : Res × Pipe := (.ok, { p with closed := true })

/-- Two directions: `ab` carries what side A writes. -/
structure Duplex where
  ab : Pipe
  ba : Pipe
deriving Repr

inductive POp
  | write (sideA : Bool) (bs : Bytes)
  | read (sideA : Bool) (cap : Nat)
  | flush (sideA : Bool)
  | shutdown (sideA : Bool)
deriving Repr, DecidableEq

def pstep (d : Duplex) : POp → Res × Duplex
  | .write true bs => let (r, p) := d.ab.write bs; (r, { d with ab := p })
  | .write false bs => let (r, p) := d.ba.write bs; (r, { d with ba := p })
  | .read true cap => let (r, p) := d.ba.read cap; (r, { d with ba := p })
  | .read false cap => let (r, p) := d.ab.read cap; (r, { d with ab := p })
  | .flush _ => (.ok, d)
  | .shutdown true => let (r, p) := d.ab.shutdown; (r, { d with ab := p })
  | .shutdown false => let (r, p) := d.ba.shutdown; (r, { d with ba := p })

def prun (d : Duplex) : List POp → List Res × Duplex
  | [] => ([], d)
  | op :: ops =>
    let (r, d') := pstep d op
    let (rs, d'') := prun d' ops
    (r :: rs, d'')

end Hd.Streams
