import HdModel.Model.Util
import HdModel.Model.NoPanic
namespace Hd.NoPanic

def parseSvc : String → Option Svc
  | "client" => some .client | "clientnp" => some .clientnp | "pool" => some .pool
  | "nopool" => some .nopool | "connector" => some .connector | _ => none

def parseVer : String → Ver
  | "09" => .h09 | "10" => .h10 | "11" => .h11 | "2" => .h2 | _ => .h3

def optS (s : String) : Option String := if s == "-" then none else some s

def showOut : Out Unit → String
  | .val _ => "ok-200"
  | .err .uri => "err-connection-uri"
  | .err .version => "err-unsupported-protocol"
  | .err .hostPort => "err-connection-hostport"
  | .err .tlsName => "err-connection-tlsname"
  | .err .tlsHandshake => "err-connection-tlshandshake"
  | .err .connOther => "err-connection-other"
  | .err .method => "err-invalid-method"
  | .err .protocol => "err-protocol-other"
  | .panic _ => "panic"

def coarse (s : String) : String :=
  if s.startsWith "ok-" then "ok" else if s.startsWith "err-" then "err" else s

/-- `np <svc> <tls> <tcpcheck> <method> <scheme|-> <host|-> <port|-> <path|-> <query|-> <ver> <hdr>* | <outcome> <task panics> <namevalid>`
    The comparison with the model is by outcome kind (response / error / panic); the model's exact
    error class is printed for the evidence. -/
def driverLine (inp obs : List String) : Bool × Bool × String × String :=
  match inp, obs with
  | svc :: tls :: tc :: m :: sc :: h :: p :: _path :: _q :: v :: hs, [out, tp, nv] =>
    match parseSvc svc with
    | none => (false, false, "bad-line", "")
    | some svc =>
      let r : Req := { svc := svc, tls := tls != "0", alpnH2 := tls == "2", tcpcheck := tc == "1", connect := m == "CONNECT",
                       -- the host as `Uri::host` sees it (`^` = empty, user information dropped); a port that is no
                       -- port number (`e` = empty, out of range, not a number) is no port (`Uri::port_u16`)
                       scheme := optS sc,
                       host := (optS h).map fun h => ((h.replace "^" "").splitOn "@").getLast!,
                       port := (if p.length ≤ 5 then p.toNat? else none).bind fun n => if n < 65536 then some n else none,
                       ver := parseVer v, nameValid := nv == "1",
                       badLength := ((m == "POST" || m == "PUT") && hs.contains "content-length=0") ||
                                    (let tes := hs.filter (·.startsWith "te="); tes.head? == some "te=trailers" && tes.any (· != "te=trailers")) }
      let mo := showOut (run r)
      let cls : Option String :=
        if out == "panic" then some "C17/panic-in-caller"
        else if tp != "0" then some "C17/panic-in-spawned-task"
        else if !(out.startsWith "ok-" || out.startsWith "err-" || out == "bad-request") then some "C17/unparsable-observation"
        else none
      (out == "bad-request" || coarse out == coarse mo, cls.isNone, cls.getD "-", s!"{mo} fine={boolTok (out == mo)}")
  | _, _ => (false, false, "bad-line", "")

end Hd.NoPanic
