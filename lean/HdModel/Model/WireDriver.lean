import HdModel.Model.Util
import HdModel.Spec.Wire
namespace Hd.Wire

def optS (s : String) : Option String := if s == "-" then none else some s
def optN (s : String) : Option Nat := if s == "-" then none else some (natTok s)
def showS : Option String → String | some s => s | none => "-"
def showN : Option Nat → String | some n => toString n | none => "-"

def parseVer : String → Ver
  | "09" => .h09 | "10" => .h10 | "11" => .h11 | "2" => .h2 | _ => .h3

def parseHeaders (l : List String) : List (String × String) :=
  l.filterMap fun t => match t.splitOn "=" with
    | n :: v => some (n, "=".intercalate v)
    | _ => none

def showHeaders (hs : List (String × String)) : String :=
  if hs.isEmpty then "-" else " ".intercalate (hs.map fun h => h.1 ++ "=" ++ h.2)

def showUri (u : Uri) : String :=
  s!"{showS u.scheme} {showS u.host} {showN u.port} {if u.path == "" then "-" else u.path} {showS u.query}"

def showOutcome : Outcome → String
  | .sent s => s!"sent {s.method} {if s.version == .h2 then "2" else "11"} {showUri s.target} {showHeaders (canon s.headers)}"
  | .errInvalidMethod => "err-invalid-method"
  | .errProtocol => "err-protocol"
  | .panic _ => "panic"

def parseOutcome : List String → Option Outcome
  | ["err-invalid-method"] => some .errInvalidMethod
  | ["err-protocol"] => some .errProtocol
  | ["panic"] => some (.panic "")
  | "sent" :: m :: v :: sc :: h :: p :: path :: q :: hs =>
    some (.sent { method := m, version := if v == "2" then .h2 else .h1,
                  target := { scheme := optS sc, host := optS h, port := optN p, path := if path == "-" then "" else path, query := optS q },
                  headers := parseHeaders (hs.filter (· != "-")) })
  | _ => none

def eqOutcome : Outcome → Outcome → Bool
  | .panic _, .panic _ => true
  | .sent a, .sent b => a.method == b.method && a.target == b.target && a.version == b.version &&
      canon a.headers == canon b.headers
  | a, b => a == b

/-- `wire req <conn 11|2> <method> <scheme|-> <host|-> <port|-> <path|-> <query|-> <ver> <hdr=val>*`
    `wire proto <reqver> <alpn 0|1>` -/
def driverLine (inp obs : List String) : Bool × Bool × String × String :=
  match inp with
  | "req" :: c :: m :: sc :: h :: p :: path :: q :: v :: hs =>
    let r : Req := { connect := m == "CONNECT", method := m,
                     uri := { scheme := optS sc, host := optS h, port := optN p, path := if path == "-" then "" else path, query := optS q },
                     version := parseVer v, headers := parseHeaders hs }
    let conn := if c == "2" then Conn.h2 else Conn.h1
    let mo := send conn r
    match parseOutcome obs with
    | some o => (eqOutcome mo o, (verdict conn r o).isNone, (verdict conn r o).getD "-", showOutcome mo)
    | none =>
      -- the request was accepted by every layer and handed to the connection, yet no request head reached the peer
      (false, false, if obs == ["nothing-on-wire"] then "C13/request-not-written" else "C13/unparsable-observation", showOutcome mo)
  | ["proto", v, alpn] =>
    match protocolOf (parseVer v) with
    -- a version that names neither HTTP/1 nor HTTP/2 has no connection protocol: whatever is chosen for it was not asked for
    | none =>
      let chosen := obs == ["2"] || obs == ["11"]
      (obs == ["panic"], !chosen, if chosen then "C13/protocol-chosen-for-unsupported-version" else "-", "panic")
    | some req =>
      let m := handshakeProtocol req (alpn == "1")
      let ms := if m == .h2 then "2" else "11"
      let got := if obs == ["2"] then some Conn.h2 else if obs == ["11"] then some Conn.h1 else none
      match got with
      | some g => (obs == [ms], (verdictProtocol req (alpn == "1") g).isNone, (verdictProtocol req (alpn == "1") g).getD "-", ms)
      | none => (false, false, "C13/unparsable-observation", ms)
  | _ => (false, false, "bad-line", "")

end Hd.Wire
