import HdModel.Model.Util
/-! Message-level model of client, pool and server end to end (C01).

    Requests and responses are whole messages here (byte-level integrity of the streams they travel
    on is C08 / C18). What this model is about is *matching*: an HTTP/1 connection carries no
    request identifiers, a response is attributed to whichever request currently owns the connection
    (`Pooled` checked out, `execute_request`), so correctness depends on the pool coupling a
    connection to one request at a time and taking it back only when that exchange is over. HTTP/2
    responses carry their stream. The scheduler is arbitrary: any order of issuing, server reads,
    handler completions (in any order on HTTP/2), client reads and cancellations. -/
namespace Hd.E2E

structure Req where
  id : Nat
  h2 : Bool
  origin : Nat
  /-- method, path, query, headers and body, as one value -/
  payload : Nat
  /-- the caller may drop this request at any point -/
  mayCancel : Bool := false
deriving Repr, DecidableEq

structure Resp where
  forId : Nat
  origin : Nat
  payload : Nat
deriving Repr, DecidableEq

/-- what the server's handler answers to a request it is handed -/
def serve (r : Req) : Resp := { forId := r.id, origin := r.origin, payload := r.payload * 2 + 1 }

structure Conn where
  origin : Nat
  h2 : Bool
  alive : Bool := true
  /-- HTTP/1: the request the connection is coupled to (checked out of the pool for) -/
  owner : Option Nat := none
  /-- written by the client, not yet read by the server -/
  toServer : List Req := []
  /-- read by the server, handler not finished -/
  inHandler : List Req := []
  /-- written by the server, not yet read by the client; HTTP/2 frames name their stream -/
  toClient : List (Option Nat × Resp) := []
deriving Repr, DecidableEq

structure St where
  reqs : List Req
  conns : List Conn := []
  issued : List Nat := []
  cancelled : List Nat := []
  delivered : List (Nat × Resp) := []
  serverLog : List Req := []
deriving Repr

inductive Op
  | issue (i : Nat) (c : Nat)     -- request `i` goes out on existing connection `c` (any eligible one: the pool's choice)
  | issueNew (i : Nat)            -- … or on a new connection
  | srvRead (c : Nat)
  | srvReply (c : Nat) (k : Nat)  -- the handler of the `k`-th request being handled on `c` finishes
  | cliRead (c : Nat)
  | cancel (i : Nat)
deriving Repr, DecidableEq

def lookup (reqs : List Req) (i : Nat) : Option Req := reqs.find? (·.id == i)

/-- may request `r` be written to connection `c`? Same origin, connection open, and - on HTTP/1 -
    not coupled to any other request (the pool hands an HTTP/1 connection to one request at a time
    and takes it back only when its exchange is over: C02). -/
def eligible (r : Req) (c : Conn) : Bool :=
  c.alive && c.origin == r.origin && (c.h2 || c.owner.isNone)

def writeReq (r : Req) (c : Conn) : Conn :=
  { c with toServer := c.toServer ++ [r], owner := if c.h2 then c.owner else some r.id }

def newConn (r : Req) : Conn :=
  writeReq r { origin := r.origin, h2 := r.h2 }

def srvReadConn (c : Conn) : Conn × Option Req :=
  match c.toServer with
  | [] => (c, none)
  | q :: rest => ({ c with toServer := rest, inHandler := c.inHandler ++ [q] }, some q)

def removeAt {α} : List α → Nat → List α
  | [], _ => []
  | _ :: xs, 0 => xs
  | x :: xs, k + 1 => x :: removeAt xs k

/-- HTTP/1 answers in order (`k = 0` only); HTTP/2 in any order, naming the stream -/
def srvReplyConn (c : Conn) (k : Nat) : Conn :=
  if !c.h2 && k != 0 then c else
  match c.inHandler[k]? with
  | none => c
  | some q =>
    { c with inHandler := removeAt c.inHandler k,
             toClient := c.toClient ++ [(if c.h2 then some q.id else none, serve q)] }

/-- the client reads one response: (connection afterwards, who gets what) -/
def cliReadConn (c : Conn) : Conn × Option (Nat × Resp) :=
  if !c.alive then (c, none) else
  match c.toClient with
  | [] => (c, none)
  | (tag, r) :: rest =>
    if c.h2 then ({ c with toClient := rest }, tag.map (·, r))
    else ({ c with toClient := rest, owner := none }, c.owner.map (·, r))   -- back to the pool

/-- the caller drops request `i`: an HTTP/1 connection coupled to it is closed, never reused -/
def cancelConn (i : Nat) (c : Conn) : Conn :=
  if !c.h2 && c.owner == some i then { c with alive := false } else c

def updConn (cs : List Conn) (k : Nat) (f : Conn → Conn) : List Conn :=
  cs.mapIdx fun j c => if j = k then f c else c

def step (s : St) : Op → St
  | .issue i k =>
    match lookup s.reqs i, s.conns[k]? with
    | some r, some c =>
      if s.issued.contains i || !eligible r c then s
      else { s with issued := i :: s.issued, conns := updConn s.conns k (writeReq r) }
    | _, _ => s
  | .issueNew i =>
    match lookup s.reqs i with
    | some r => if s.issued.contains i then s else { s with issued := i :: s.issued, conns := s.conns ++ [newConn r] }
    | none => s
  | .srvRead k =>
    match s.conns[k]? with
    | some c =>
      match (srvReadConn c).2 with
      | some q => { s with conns := updConn s.conns k (fun c => (srvReadConn c).1), serverLog := s.serverLog ++ [q] }
      | none => s
    | none => s
  | .srvReply k j => { s with conns := updConn s.conns k (fun c => srvReplyConn c j) }
  | .cliRead k =>
    match s.conns[k]? with
    | some c =>
      let s' := { s with conns := updConn s.conns k (fun c => (cliReadConn c).1) }
      match (cliReadConn c).2 with
      | some (i, r) => if s.cancelled.contains i then s' else { s' with delivered := s'.delivered ++ [(i, r)] }
      | none => s'
    | none => s
  | .cancel i =>
    match lookup s.reqs i with
    | some r =>
      if !r.mayCancel || !s.issued.contains i || s.cancelled.contains i || s.delivered.any (·.1 == i) then s
      else { s with cancelled := i :: s.cancelled, conns := s.conns.map (cancelConn i) }
    | none => s

def init (reqs : List Req) : St := { reqs }

def run (reqs : List Req) (ops : List Op) : St := ops.foldl step (init reqs)

/-- A canonical schedule: every request on a connection of its own, served at once. The outcome
    it yields is, by `C01_no_crosstalk`, the outcome of every other schedule too. -/
def canonical (reqs : List Req) : List Op :=
  (List.range reqs.length |>.zip reqs).flatMap fun p => [.issueNew p.2.id, .srvRead p.1, .srvReply p.1 0, .cliRead p.1]

/-! A broken variant for contrast: the pool hands out an HTTP/1 connection that is still coupled
    to another request (what C02 forbids). -/
def eligibleBusyToo (r : Req) (c : Conn) : Bool := c.alive && c.origin == r.origin

def stepBad (s : St) : Op → St
  | .issue i k =>
    match lookup s.reqs i, s.conns[k]? with
    | some r, some c =>
      if s.issued.contains i || !eligibleBusyToo r c then s
      else { s with issued := i :: s.issued, conns := updConn s.conns k (writeReq r) }
    | _, _ => s
  | op => step s op

end Hd.E2E
