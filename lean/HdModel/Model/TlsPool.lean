import HdModel.Model.Tls
/-! The pooled client on one authority (stream `tlsp`, C12): which connection a request is sent on, and
    whether that connection is TLS. The pool files connections under (scheme, authority); `sameKey` is
    the scheme comparison of the key type (for `http::uri::Scheme`: equal standard schemes, or other
    schemes equal up to ASCII case). TLS is decided once, when a connection is made, from the scheme of
    the request that made it (`Hd.Tls.schemeUsesTls`). -/
namespace Hd.TlsPool
open Hd.Tls

/-- the connections made so far on this authority: the scheme of the request each was made for -/
abbrev Conns := List String

/-- send a request with `scheme`: the index of the connection it goes out on, and the table afterwards -/
def send (sameKey : String → String → Bool) (cs : Conns) (scheme : String) : Conns × Nat :=
  match cs.findIdx? (sameKey · scheme) with
  | some i => (cs, i)
  | none => (cs ++ [scheme], cs.length)

def runSeq (sameKey : String → String → Bool) : Conns → List String → Conns × List Nat
  | cs, [] => (cs, [])
  | cs, s :: rest =>
    let (cs1, i) := send sameKey cs s
    let (cs2, is) := runSeq sameKey cs1 rest
    (cs2, i :: is)

/-- what the peer of a connection sees first (TLS configured) -/
def wireOf (scheme : String) : Wire := if schemeUsesTls scheme then .tls else .ascii

/-- the harness' schemes are lower-case: the key comparison is plain equality there -/
def exact (a b : String) : Bool := a == b

end Hd.TlsPool
