/-! Model of the channel that carries a TLS connection's `TlsConnectionInfo` from the acceptor to the connection's
    service (`src/info/tls.rs`, `mod channel`): a oneshot receiver behind a `tokio::sync::RwLock`, shared by every
    request on the connection (`TlsConnectionInfoReciever::recv`, called from `server/conn/tls/info.rs`).

    `recv`: take the lock for reading; `Received` → the info, `Empty` (a connection without TLS) → `None`,
    `Pending` → drop the read guard, take the lock for writing, look again, and with the write guard **held** await
    the oneshot receiver, store the info and return it. A `recv` future is polled one poll at a time and may be
    dropped at any point (the request was cancelled).

    The lock is tokio's: a fair semaphore of `maxP` permits (a reader needs one, a writer all), waiters served in
    FIFO order, permits released to the queue first (assumed semantics of `tokio::sync::batch_semaphore`). -/
namespace Hd.TlsInfo

inductive Ch
  | pending (sent : Bool)     -- `State::Pending(rx)`; `sent`: the acceptor has sent the info into the oneshot
  | received                  -- `State::Received(info)`
  | empty                     -- `State::Empty`
deriving Repr, DecidableEq

inductive Phase
  | fresh | waitRead | grantedRead | waitWrite | grantedWrite | holding | done
deriving Repr, DecidableEq

def maxP : Nat := 1000

structure St where
  ch : Ch
  free : Nat := maxP
  /-- waiters, oldest first: future, permits wanted in all, permits still missing -/
  queue : List (Nat × Nat × Nat) := []
  phase : Nat → Phase := fun _ => .fresh

inductive Res | pending | info | none | finished
deriving Repr, DecidableEq

def setPhase (s : St) (i : Nat) (p : Phase) : St := { s with phase := fun j => if j = i then p else s.phase j }

/-- `add_permits_locked`: released permits go to the waiters in order; what is left becomes free. -/
def release : Nat → St → St
  | fuel + 1, s =>
    match s.queue with
    | [] => s
    | (j, want, missing) :: rest =>
      if s.free = 0 then s
      else if s.free ≥ missing then
        let s := { s with free := s.free - missing, queue := rest }
        release fuel (setPhase s j (if want = 1 then .grantedRead else .grantedWrite))
      else { s with free := 0, queue := (j, want, missing - s.free) :: rest }
  | 0, s => s

def giveBack (s : St) (n : Nat) : St := release (s.queue.length + 1) { s with free := s.free + n }

/-- `poll_acquire` of a future that is not queued yet: take what is free; if that is not enough, queue for the rest. -/
def acquire (s : St) (i want : Nat) : Bool × St :=
  if s.free ≥ want then (true, { s with free := s.free - want })
  else (false, { s with free := 0, queue := s.queue ++ [(i, want, want - s.free)] })

/-- with the write guard: look at the state, await the oneshot -/
def writePhase (s : St) (i : Nat) : Res × St :=
  match s.ch with
  | .pending true => (.info, giveBack (setPhase { s with ch := .received } i .done) maxP)
  | .pending false => (.pending, setPhase s i .holding)
  | .received => (.info, giveBack (setPhase s i .done) maxP)
  | .empty => (.none, giveBack (setPhase s i .done) maxP)

/-- with the read guard -/
def readPhase (s : St) (i : Nat) : Res × St :=
  match s.ch with
  | .received => (.info, giveBack (setPhase s i .done) 1)
  | .empty => (.none, giveBack (setPhase s i .done) 1)
  | .pending _ =>
    let s := giveBack s 1                      -- the read guard is dropped …
    let (ok, s) := acquire s i maxP            -- … and the lock is asked for again, for writing
    if ok then writePhase s i else (.pending, setPhase s i .waitWrite)

inductive Op | new (i : Nat) | poll (i : Nat) | drop (i : Nat) | send
deriving Repr, DecidableEq

def step (s : St) : Op → Res × St
  | .new _ => (.finished, s)
  | .send => (.finished, match s.ch with | .pending false => { s with ch := .pending true } | _ => s)
  | .poll i =>
    match s.phase i with
    | .fresh =>
      let (ok, s) := acquire s i 1
      if ok then readPhase s i else (.pending, setPhase s i .waitRead)
    | .waitRead | .waitWrite => (.pending, s)
    | .grantedRead => readPhase s i
    | .grantedWrite | .holding => writePhase s i
    | .done => (.finished, s)
  | .drop i =>
    match s.phase i with
    | .fresh | .done => (.finished, setPhase s i .done)
    | .waitRead | .waitWrite =>
      -- `Acquire::drop`: leave the queue and give back what had been collected so far
      let had := match s.queue.find? (·.1 == i) with | some (_, want, missing) => want - missing | none => 0
      (.finished, giveBack (setPhase { s with queue := s.queue.filter (·.1 != i) } i .done) had)
    | .grantedRead => (.finished, giveBack (setPhase s i .done) 1)
    | .grantedWrite | .holding => (.finished, giveBack (setPhase s i .done) maxP)

def run (s : St) : List Op → List Res × St
  | [] => ([], s)
  | op :: ops => let (r, s') := step s op; let (rs, s'') := run s' ops; (r :: rs, s'')

/-- `channel()` -/
def initTls : St := { ch := .pending false }
/-- `TlsConnectionInfoReciever::empty()` -/
def initPlain : St := { ch := .empty }

end Hd.TlsInfo
