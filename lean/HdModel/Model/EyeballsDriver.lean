import HdModel.Model.Util
import HdModel.Spec.Eyeballs
namespace Hd.Eyeballs

def optTok (s : String) : Option Nat := if s == "-" then none else some (natTok s)

def parseAtts : List String → List Attempt
  | l :: o :: rest => { lat := optTok l, out := if o == "o" then .ok else .err } :: parseAtts rest
  | _ => []

def showRes : Result → String
  | .ok i t => s!"ok {i} {t}"
  | .firstErr i t => s!"err {i} {t}"
  | .timeout t => s!"timeout 0 {t}"
  | .noProgress t => s!"noprogress 0 {t}"
  | .hang => "hang 0 0"

def parsePairs : List String → List (Nat × Nat)
  | a :: b :: rest => (natTok a, natTok b) :: parsePairs rest
  | _ => []

def showPairs (l : List (Nat × Nat)) : String := " ".intercalate (l.map fun p => s!"{p.1} {p.2}")

def parseObs : List String → Option Obs
  | k :: i :: t :: rest =>
    let r : Option Result := match k with
      | "ok" => some (.ok (natTok i) (natTok t))
      | "err" => some (.firstErr (natTok i) (natTok t))
      | "timeout" => some (.timeout (natTok t))
      | "noprogress" => some (.noProgress (natTok t))
      | "hang" => some .hang
      | _ => none
    r.map fun r => { res := r, starts := parsePairs rest }
  | _ => none

/-- `eb <delay|-> <timeout|-> <conc|-> (<lat|-> <o|e>)*`, or
    `ebtcp <heTimeout|-> <conc|-> (<lat|-> <o|e>)*` (delay derived as in `TcpConnecting::connect`). -/
def driverLine (inp obs : List String) : Bool × Bool × String × String :=
  match inp with
  | ["tcpdelay", t, n] =>
    -- `TcpConnecting::connect`: delay = timeout / n (the timeout itself for n = 0), in nanoseconds
    let c := tcpCfg ((optTok t).map (· * 1000000)) none (natTok n)
    let sh := fun (o : Option Nat) => match o with | some v => toString v | none => "-"
    let m := s!"{sh c.delay} {sh c.timeout}"
    let ok := m == " ".intercalate obs
    (ok, ok, "C11/tcp-delay-glue", m)
  | _ =>
  let parsed : Option (Cfg × List Attempt) := match inp with
    | "set" :: d :: t :: c :: rest => some ({ delay := optTok d, timeout := optTok t, conc := optTok c }, parseAtts rest)
    | _ => none
  match parsed with
  | none => (false, false, "bad-line", "")
  | some (c, atts) =>
    let m := run c atts
    let shown := s!"{showRes m.1} {showPairs m.2.starts}"
    match parseObs obs with
    | none => (false, false, "C10/unparsable-observation", shown)
    | some o =>
      let v := verdict c atts o
      let agree := if m.2.tie then v.isNone else decide (m.1 = o.res) && decide (m.2.starts = o.starts)
      (agree, v.isNone, v.getD "-", shown)

end Hd.Eyeballs
