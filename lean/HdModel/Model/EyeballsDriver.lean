import HdModel.Model.Util
import HdModel.Spec.Eyeballs
import HdModel.Model.Dns
import HdModel.Model.TcpConnect
namespace Hd.Eyeballs

def optTok (s : String) : Option Nat := if s == "-" then none else some (natTok s)

def parseAtts : List String → List Attempt
  | l :: o :: rest => { lat := optTok l, out := if o == "o" then .ok else .err } :: parseAtts rest
  | _ => []

def showRes : Result → String
  | .ok i t => s!"ok {i} {t}"
  | .firstErr i t => s!"err {i} {t}"
  | .timeout t => s!"timeout 0 {t}"
  | .noProgress t => s!"noprogress 0 {t}"
  | .hang => "hang 0 0"

def parsePairs : List String → List (Nat × Nat)
  | a :: b :: rest => (natTok a, natTok b) :: parsePairs rest
  | _ => []

def showPairs (l : List (Nat × Nat)) : String := " ".intercalate (l.map fun p => s!"{p.1} {p.2}")

def parseObs : List String → Option Obs
  | k :: i :: t :: rest =>
    let r : Option Result := match k with
      | "ok" => some (.ok (natTok i) (natTok t))
      | "err" => some (.firstErr (natTok i) (natTok t))
      | "timeout" => some (.timeout (natTok t))
      | "noprogress" => some (.noProgress (natTok t))
      | "hang" => some .hang
      | _ => none
    r.map fun r => { res := r, starts := parsePairs rest }
  | _ => none

/-- `eb <delay|-> <timeout|-> <conc|-> (<lat|-> <o|e>)*`, or
    `ebtcp <heTimeout|-> <conc|-> (<lat|-> <o|e>)*` (delay derived as in `TcpConnecting::connect`). -/
def driverLine (inp obs : List String) : Bool × Bool × String × String :=
  match inp with
  | ["tcpdelay", t, n] =>
    -- `TcpConnecting::connect`: delay = timeout / n (the timeout itself for n = 0), in nanoseconds
    let c := tcpCfg ((optTok t).map (· * 1000000)) none (natTok n)
    let sh := fun (o : Option Nat) => match o with | some v => toString v | none => "-"
    let m := s!"{sh c.delay} {sh c.timeout}"
    let ok := m == " ".intercalate obs
    (ok, ok, "C11/tcp-delay-glue", m)
  | _ =>
  let parsed : Option (Cfg × List Attempt) := match inp with
    | "set" :: d :: t :: c :: rest => some ({ delay := optTok d, timeout := optTok t, conc := optTok c }, parseAtts rest)
    | _ => none
  match parsed with
  | none => (false, false, "bad-line", "")
  | some (c, atts) =>
    let m := run c atts
    let shown := s!"{showRes m.1} {showPairs m.2.starts}"
    match parseObs obs with
    | none => (false, false, "C10/unparsable-observation", shown)
    | some o =>
      let v := verdict c atts o
      let agree := if m.2.tie then v.isNone else decide (m.1 = o.res) && decide (m.2.starts = o.starts)
      (agree, v.isNone, v.getD "-", shown)

/-- `tcpc <T|-> <conc|-> <connect_timeout|-> <bind6> ; <cand> ; … | <ok|timeout|err> <winner|kind|-> <elapsed> ; <accepted|->…`
    The real `TcpTransport::connect_to_addrs` on loopback sockets, in real time. The model composes what the code
    composes: `TcpTransport::connecting` (address order, `Dns.connectingOrder`), `TcpConnecting::connect`
    (`tcpCfg`: stagger delay = deadline / number of candidates) and the happy-eyeballs set (`run`), with each kind of
    candidate as an attempt: accepts at once, fails at once, never answers (fails at the per-attempt connect timeout if
    one is set). Times are compared within 70 ms. -/
def tcpcLine (inp obs : List String) : Bool × Bool × String × String :=
  if obs == ["unreliable"] then (true, true, "-", "skipped") else
  let splitSemi := fun (l : List String) =>
    l.foldr (fun t acc => if t == ";" then [] :: acc else match acc with | [] => [[t]] | x :: xs => (t :: x) :: xs) ([[]] : List (List String))
  -- (an optional fifth token says whether the candidates were handed over directly or came from the resolver: the same to the model)
  let inp' := match splitSemi inp with | (t :: conc :: ct :: b6 :: _via :: []) :: cands => [t, conc, ct, b6] :: cands | x => x
  match inp', splitSemi obs with
  | [t, conc, ct, b6] :: cands, [[k, w, el], accepted] =>
    let kinds := cands.filterMap List.head?
    let n := kinds.length
    let loc := if b6 == "0" then "--" else if b6 == "1" then "-x" else b6
    let bind6 := loc.endsWith "x"
    let v4bound := !loc.startsWith "-"
    let v6bound := !loc.endsWith "-"
    let addrs : List Dns.Addr := (List.range n).map fun i => { v6 := (kinds.getD i "").endsWith "6", id := i, port := 0 }
    let attOf := fun (kind : String) => (match kind with
      | "ok" => ({ lat := some 0, out := .ok } : Attempt)
      | "ok6" => { lat := some 0, out := if bind6 then .err else .ok }
      | "hang" => { lat := optTok ct, out := .err }
      | _ => { lat := some 0, out := .err })
    let errKind := fun (kind : String) =>
      if kind.endsWith "6" && bind6 then "bind" else if kind == "hang" then "ctimeout" else "refused"
    let out := TcpConnect.connect (optTok t) (optTok conc) v4bound v6bound addrs (fun a => attOf (kinds.getD a.id ""))
    let order := out.order
    let m := (out.res, out.st)
    let idOf := fun (j : Nat) => (order.getD j { v6 := false, id := 999, port := 0 }).id
    let shown := match m.1 with
      | .ok j tm => s!"ok {idOf j} {tm}"
      | .firstErr j tm => s!"err {errKind (kinds.getD (idOf j) "")} {tm}"
      | .timeout tm => s!"timeout - {tm}"
      | .noProgress tm => s!"noprogress - {tm}"
      | .hang => "hang - -"
    if m.2.tie then (true, true, "-", shown ++ " (tie)") else
    let near := fun (a b : Nat) => a ≤ b + 70 && b ≤ a + 70
    let e := natTok el
    let outcomeOk := match m.1 with
      | .ok j _ => k == "ok" && w == toString (idOf j)
      | .firstErr j _ => k == "err" && w == errKind (kinds.getD (idOf j) "")
      | .timeout _ => k == "timeout"
      | .noProgress _ => k == "err"
      | .hang => k == "hang"
    let timeOk := match m.1 with
      | .ok _ tm => near e tm | .firstErr _ tm => near e tm | .timeout tm => near e tm | .noProgress tm => near e tm | .hang => true
    -- a listener that accepted a connection belongs to a candidate the model starts
    let started := m.2.starts.map fun p => idOf p.1
    let extra := (accepted.zip (List.range n)).any fun (a, i) => a != "-" && a != "0" && !started.contains i
    -- when every candidate answers at once (nobody hangs) and attempts run one at a time, who wins - or which
    -- error is reported - is decided by nothing but the order in which the candidates are taken
    let orderOnly := optTok conc == some 1 && !kinds.contains "hang"
    let cls : List String :=
      (if !outcomeOk then ["C10/tcp-wrong-outcome"] else []) ++
      -- the overall deadline is due and the run is not over (or ends later, some other way)
      (match m.1 with | .timeout tm => if k != "timeout" && !(natTok el ≤ tm + 70 && k != "hang") then ["C11/tcp-deadline-not-enforced"] else [] | _ => []) ++
      (if !outcomeOk && orderOnly then ["C16/tcp-attempts-not-in-sorted-order"] else []) ++
      (if outcomeOk && !timeOk then ["C11/tcp-pacing-or-deadline"] else []) ++
      (if extra then ["C11/tcp-candidate-started-out-of-turn"] else [])
    (cls.isEmpty, cls.isEmpty, if cls.isEmpty then "-" else ",".intercalate cls, shown)
  | _, _ => (false, false, "C10/unparsable-observation,C16/unparsable-observation", "")

end Hd.Eyeballs

