import HdModel.Model.Util
import HdModel.Spec.Dns
namespace Hd.Dns

def parseAddrs : List String → List Addr
  -- family token 2 = an IPv4-mapped IPv6 address: an IPv6 socket address (kept apart from the others by its id)
  | v :: i :: p :: rest => { v6 := v != "0", id := natTok i + (if v == "2" then 100000000 else 0), port := natTok p } :: parseAddrs rest
  | _ => []

def showAddrs (l : List Addr) : String :=
  " ".intercalate (l.map fun a => if a.id ≥ 100000000 then s!"2 {a.id - 100000000} {a.port}" else s!"{boolTok a.v6} {a.id} {a.port}")

def parsePref : String → Option Fam
  | "4" => some .v4
  | "6" => some .v6
  | _ => none

/-- Returns (agree, specOk, class, model output). -/
def driverLine (inp obs : List String) : Bool × Bool × String × String :=
  match inp with
  | "hook" :: pref :: sort :: port :: rest =>
    let l := parseAddrs rest
    let port := if port == "-" then none else some (natTok port)
    let m := hookOrder (parsePref pref) (sort == "1") port l
    let o := parseAddrs obs
    (m == o, specHolds (parsePref pref) (sort == "1") port l o, "C16/order", showAddrs m)
  | "glue" :: he :: b4 :: b6 :: rest =>
    let l := parseAddrs rest
    -- a local address of any kind (loopback `1`, wildcard `w`, some other host address `p`) counts as bound
    let m := connectingOrder (he == "1") (b4 != "0") (b6 != "0") l
    let o := parseAddrs obs
    let pref := fromBinding (b4 != "0") (b6 != "0")
    (m == o, specHolds pref (he == "1") none l o, "C16/glue-order", showAddrs m)
  | _ => (false, false, "C16/bad-line", "")

end Hd.Dns
