/-! Model of the client builder (`src/client/builder.rs`): a record of what has been configured so far and one function per
    builder method. Several methods change a type parameter of `Builder<T, P, RP, S, BIn, BOut>` and therefore rebuild the
    value field by field (`with_transport`, `with_tcp`, `with_auto_http`, `with_protocol`, the three redirect methods,
    `layer`, `with_body`); the others assign one field. `build_service` installs a pool iff `pool` is `some`, a timeout
    layer iff `timeout` is `some`, a redirect layer iff `redirect` is `some`, TLS iff `tls`, and the user agent given or
    the crate's own. -/
namespace Hd.Builder

structure PoolCfg where
  maxIdle : Nat
  idleTimeout : Option Nat
deriving Repr, DecidableEq

/-- `pool::Config::default()` -/
def PoolCfg.default : PoolCfg := { maxIdle := 32, idleTimeout := some 90000 }

inductive Redirect | standard | limited (n : Nat)
deriving Repr, DecidableEq

structure B where
  transport : Bool := false          -- a transport has been chosen
  protocol : Bool := false           -- a protocol has been chosen
  layers : Nat := 0
  userAgent : Option String := none
  redirect : Option Redirect := none
  timeout : Option Nat := none       -- ms
  tls : Bool := false
  pool : Option PoolCfg := none
deriving Repr, DecidableEq

/-- `Builder::new()` (what `Client::builder()` returns) -/
def new : B := {}
/-- `Builder::default()` (what `Client::build_tcp_http()` starts from) -/
def dflt : B := { transport := true, protocol := true, redirect := some .standard, timeout := some 30000, tls := true, pool := some .default }

inductive Call
  | withTransport | withTcp | withAutoHttp | withProtocol | layer | withBody
  | withRedirectPolicy (n : Nat) | withStandardRedirectPolicy | withoutRedirects
  | withTimeout (ms : Nat) | withoutTimeout | withOptionalTimeout (o : Option Nat)
  | withUserAgent (ua : String)
  | withTls | withDefaultTls | withoutTls
  | withPool (c : PoolCfg) | withDefaultPool | withoutPool | editPool (c : PoolCfg)
deriving Repr, DecidableEq

def apply (b : B) : Call → B
  | .withTransport | .withTcp => { b with transport := true }
  | .withAutoHttp | .withProtocol => { b with protocol := true }
  | .layer => { b with layers := b.layers + 1 }
  | .withBody => b
  | .withRedirectPolicy n => { b with redirect := some (.limited n) }
  | .withStandardRedirectPolicy => { b with redirect := some .standard }
  | .withoutRedirects => { b with redirect := none }
  | .withTimeout ms => { b with timeout := some ms }
  | .withoutTimeout => { b with timeout := none }
  | .withOptionalTimeout o => { b with timeout := o }
  | .withUserAgent ua => { b with userAgent := some ua }
  | .withTls | .withDefaultTls => { b with tls := true }
  | .withoutTls => { b with tls := false }
  | .withPool c => { b with pool := some c }
  | .withDefaultPool => { b with pool := some .default }
  | .withoutPool => { b with pool := none }
  -- `if let Some(p) = builder.pool() { *p = c }`
  | .editPool c => { b with pool := b.pool.map fun _ => c }

def run (b : B) (cs : List Call) : B := cs.foldl apply b

/-- what a call says about the pool, if it says anything -/
def poolSays (cur : Option PoolCfg) : Call → Option (Option PoolCfg)
  | .withPool c => some (some c)
  | .withDefaultPool => some (some .default)
  | .withoutPool => some none
  | .editPool c => some (cur.map fun _ => c)
  | _ => none

def timeoutSays : Call → Option (Option Nat)
  | .withTimeout ms => some (some ms)
  | .withoutTimeout => some none
  | .withOptionalTimeout o => some o
  | _ => none

def redirectSays : Call → Option (Option Redirect)
  | .withRedirectPolicy n => some (some (.limited n))
  | .withStandardRedirectPolicy => some (some .standard)
  | .withoutRedirects => some none
  | _ => none

def tlsSays : Call → Option Bool
  | .withTls | .withDefaultTls => some true
  | .withoutTls => some false
  | _ => none

def uaSays : Call → Option String
  | .withUserAgent ua => some ua
  | _ => none

end Hd.Builder
