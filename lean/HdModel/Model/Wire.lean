/-! Model of the client's request rewriting below the connection pool, in builder order
    (src/client/builder.rs `build_service`):
    `SetHostHeader` (src/service/host.rs) → `Http2Checks` → `Http1Checks` (src/service/http.rs) →
    `RequestExecutor` → `HttpConnection::send_request` (src/client/conn/connection.rs),
    and of the protocol choice `HttpProtocol::from` + `HttpConnectionBuilder::handshake`
    (src/client/conn/protocol/{mod,auto}.rs).

    The request is structured (the `http` crate's parsers/printers are trusted, not modelled). -/
namespace Hd.Wire

inductive Ver | h09 | h10 | h11 | h2 | h3
deriving Repr, DecidableEq

structure Uri where
  scheme : Option String
  host   : Option String        -- as `Uri::host()` reports it (IPv6 literals keep their brackets)
  port   : Option Nat
  path   : String               -- raw path component, possibly empty
  query  : Option String
deriving Repr, DecidableEq

structure Req where
  connect : Bool                -- method is CONNECT
  method  : String
  uri     : Uri
  version : Ver
  headers : List (String × String)   -- lower-case names, in insertion order
deriving Repr, DecidableEq

/-- The connection's protocol as reported by `Connection::version()`. -/
inductive Conn | h1 | h2
deriving Repr, DecidableEq

structure Sent where
  method  : String
  target  : Uri                         -- the request target as hyper will print it
  version : Conn                        -- `send_request` stamps the connection's version
  headers : List (String × String)
deriving Repr, DecidableEq

inductive Outcome
  | sent (s : Sent)
  | errInvalidMethod                    -- `Error::InvalidMethod(CONNECT)`
  | errProtocol                         -- `Error::Protocol`: CONNECT without an authority on HTTP/1
  | panic (site : String)               -- an `unreachable!` / `debug_assert!` fired
deriving Repr, DecidableEq

def isSecure (u : Uri) : Bool := u.scheme == some "wss" || u.scheme == some "https"

/-- `get_non_default_port` -/
def nonDefaultPort (u : Uri) : Option Nat :=
  match u.port, isSecure u with
  | some 443, true => none
  | some 80, false => none
  | p, _ => p

def authorityStr (u : Uri) : String :=
  match u.host, u.port with
  | some h, some p => h ++ ":" ++ toString p
  | some h, none => h
  | none, _ => ""

def hostHeaderValue (u : Uri) (h : String) : String :=
  match nonDefaultPort u with
  | some p => h ++ ":" ++ toString p
  | none => h

def hasHeader (hs : List (String × String)) (n : String) : Bool := hs.any (·.1 == n)

/-- `set_host_header`: `entry(HOST).or_insert_with(..)`, only if the URI has a host. -/
def setHostHeader (r : Req) : Req :=
  match r.uri.host with
  | none => r
  | some h =>
    if hasHeader r.headers "host" then r
    else { r with headers := r.headers ++ [("host", hostHeaderValue r.uri h)] }

def connectionHeaders : List String :=
  ["connection", "proxy-connection", "keep-alive", "transfer-encoding", "upgrade"]

def removeHeaders (hs : List (String × String)) (names : List String) : List (String × String) :=
  hs.filter (fun h => !names.contains h.1)

/-- `origin_form`: only path and query survive; an empty path becomes `/`. -/
def originForm (u : Uri) : Uri :=
  { scheme := none, host := none, port := none, path := if u.path == "" then "/" else u.path, query := u.query }

/-- `authority_form`: only the authority survives. -/
def authorityForm (u : Uri) : Uri :=
  { scheme := none, host := u.host, port := u.port, path := "", query := none }

/-- An untouched URI as `Uri::path()` reports it: `/` for an empty path after an authority with scheme. -/
def untouched (u : Uri) : Uri :=
  { u with path := if u.path == "" && u.scheme.isSome then "/" else u.path }

/-- `check_http1_request` on an HTTP/1 connection; `none` = rejected (CONNECT without an authority).
    A URI without scheme or authority is already origin-form (or `*`) and is sent as it is. -/
def http1Target (r : Req) : Option Uri :=
  if r.connect then
    match r.uri.host with
    | some _ => some (authorityForm r.uri)     -- `authority_form`; the later https test sees no scheme
    | none => none
  else if r.uri.scheme.isNone || r.uri.host.isNone then some (untouched r.uri)
  else some (originForm r.uri)

/-- The whole stack for a request executed on connection `c`. -/
def send (c : Conn) (r : Req) : Outcome :=
  match c with
  | .h1 =>
    let r := setHostHeader r                       -- `conn.version() < HTTP_2`
    match http1Target r with                       -- Http2Checks is the identity on an h1 connection
    | none => .errProtocol
    | some t => .sent { method := r.method, target := t, version := .h1, headers := r.headers }
  | .h2 =>
    if r.connect then .errInvalidMethod
    else
      let hs := removeHeaders r.headers (connectionHeaders ++ ["host"])
      .sent { method := r.method, target := untouched r.uri, version := .h2, headers := hs }

/-- `impl From<http::Version> for HttpProtocol` (`none` = the `panic!` arm). -/
def protocolOf : Ver → Option Conn
  | .h11 | .h10 => some .h1
  | .h2 => some .h2
  | _ => none

/-- `HttpConnectionBuilder::handshake`: HTTP/2 if asked for, or if TLS negotiated `h2` via ALPN. -/
def handshakeProtocol (requested : Conn) (alpnH2 : Bool) : Conn :=
  match requested with
  | .h2 => .h2
  | .h1 => if alpnH2 then .h2 else .h1

end Hd.Wire
