import HdModel.Model.Eyeballs
import HdModel.Model.Dns
/-! `TcpTransport::connect_to_addrs`: the composition the `tcpc` stream observes on real sockets –
    `TcpTransport::connecting` orders the candidates (`Dns.connectingOrder`, sorting only when a
    happy-eyeballs timeout is configured), `TcpConnecting::connect` derives the stagger delay from the overall
    deadline and the number of candidates (`Eyeballs.tcpCfg`) and hands one attempt per candidate, in that
    order, to the happy-eyeballs set (`Eyeballs.run`). -/
namespace Hd.TcpConnect
open Hd.Eyeballs

structure Out where
  res : Result
  st : St
  order : List Dns.Addr

def connect (heTimeout conc : Option Nat) (v4bound v6bound : Bool) (cands : List Dns.Addr) (attOf : Dns.Addr → Attempt) : Out :=
  let order := Dns.connectingOrder heTimeout.isSome v4bound v6bound cands
  let r := run (tcpCfg heTimeout conc cands.length) (order.map attOf)
  { res := r.1, st := r.2, order := order }

end Hd.TcpConnect
