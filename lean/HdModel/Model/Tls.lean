import HdModel.Model.Util
/-! Model of the client's TLS decision (`TlsTransport::call`, `TlsTransportWrapper::call`,
    `TlsConnectionFuture::poll`, `TlsStream::new`) against one peer.

    What is hyperdriver's own logic is modelled step by step: the scheme test, the choice between
    the plain and the TLS braid, the server name derived from the URI host, the
    connect -> handshake -> stream/error state machine.  What rustls does is a *parameter* with an
    assumed behaviour recorded in the trusted base: whether it accepts a string as a server name
    (`nameValid`, reported by the harness from rustls itself) and that a handshake succeeds exactly
    when the peer presents a chain to a trusted root whose names cover the server name and ALPN can
    be agreed (`handshakeOk`, below, over the fixed certificates of harness/certs). -/
namespace Hd.Tls

inductive Peer | good | othername | untrusted | plain | close0 | close1 | trunc | alert | silent
  deriving DecidableEq, Repr

inductive Res | okTls | okPlain | errConn | errHs | errNoDomain | errName | errOther | timeout | panic | badUri
  deriving DecidableEq, Repr

inductive Wire | none | tls | ascii | other
  deriving DecidableEq, Repr

structure Case where
  cfg : Bool
  alpnC : List String
  scheme : String
  host : String
  peer : Peer
  alpnS : List String
  /-- rustls accepts the (bracket-stripped) host as a `ServerName` -/
  nameValid : Bool
  /-- a `Host` header the caller put on the request: it plays no part in the TLS decision, the
      server name or the certificate check -/
  hostHeader : Option String := none
  /-- the URI was assembled from parts (`Uri::builder`) rather than parsed: the scheme keeps its spelling -/
  fromParts : Bool := false

structure Obs where
  res : Res
  wire : Wire
  leak : Bool
  sni : Option String
  alpn : Option String
  app : Bool
  deriving DecidableEq, Repr

def lowerAscii (s : String) : String := String.ofList (s.toList.map Char.toLower)

/-- `str::eq_ignore_ascii_case` -/
def eqIgnoreCase (a b : String) : Bool := a.toList.map Char.toLower == b.toList.map Char.toLower

/-- `TlsTransport::call`: `use_tls` -/
def schemeUsesTls (scheme : String) : Bool := eqIgnoreCase scheme "https" || eqIgnoreCase scheme "wss"

/-- `TlsTransportWrapper::call`: brackets of an IPv6 literal are not part of the server name -/
def stripBrackets (h : String) : String :=
  let cs := h.toList
  match cs with
  | '[' :: rest => if rest.getLast? == some ']' then String.ofList rest.dropLast else h
  | _ => h

def isBracketed (h : String) : Bool := stripBrackets h != h

/-- split at every `'.'` (structural, so that closed cases evaluate in the kernel) -/
def splitDots : List Char → List (List Char)
  | [] => [[]]
  | c :: rest =>
    if c == '.' then [] :: splitDots rest
    else match splitDots rest with
      | first :: more => (c :: first) :: more
      | [] => [[c]]

def digitsVal (cs : List Char) : Nat := cs.foldl (fun n c => n * 10 + (c.toNat - '0'.toNat)) 0

def isOctet (cs : List Char) : Bool := !cs.isEmpty && cs.all Char.isDigit && cs.length ≤ 3 && digitsVal cs ≤ 255

def isIPv4 (s : String) : Bool :=
  let parts := splitDots s.toList
  parts.length == 4 && parts.all isOctet

inductive HostKind | dns | ip4 | ip6 deriving DecidableEq, Repr

def hostKind (h : String) : HostKind :=
  if isBracketed h then .ip6 else if isIPv4 h then .ip4 else .dns

/-- the name as it travels in SNI: rustls drops one trailing dot, keeps the spelling -/
def dropDot (s : String) : String :=
  if s.toList.getLast? == some '.' then String.ofList s.toList.dropLast else s

/-- names in the certificates under harness/certs -/
inductive CertName | dns (n : String) | wild (base : String) | ip (text : String)

def certNames : Peer → List CertName
  | .good | .untrusted => [.dns "example.com", .wild "example.com", .dns "localhost", .ip "127.0.0.1", .ip "::1"]
  | .othername => [.dns "other.test"]
  | _ => []

def trusted : Peer → Bool
  | .good | .othername => true
  | _ => false

/-- the textual IPv6 spellings of the harness' host table that denote `::1` -/
def canonIp (s : String) : String :=
  if s == "0:0:0:0:0:0:0:1" || s == "0::1" then "::1" else s

def nameCovers (kind : HostKind) (name : String) : CertName → Bool
  | .dns n => kind == .dns && lowerAscii (dropDot name) == n
  | .wild base =>
    kind == .dns &&
      match splitDots (dropDot name).toList |>.map (·.map Char.toLower) with
      | first :: rest => !first.isEmpty && !rest.isEmpty && rest == splitDots base.toList
      | [] => false
  | .ip t => kind != .dns && canonIp name == t

def certOk (c : Case) : Bool :=
  trusted c.peer && (certNames c.peer).any (nameCovers (hostKind c.host) (stripBrackets c.host))

/-- rustls server: first protocol of its own list that the client offers; no overlap is fatal -/
def alpnPick (client server : List String) : Option (Option String) :=
  if client.isEmpty || server.isEmpty then some none
  else match server.find? (client.contains ·) with
    | some p => some (some p)
    | none => none

def isTlsServer : Peer → Bool
  | .good | .othername | .untrusted => true
  | _ => false

/-- assumed behaviour of rustls + peer for one handshake -/
def handshakeOk (c : Case) : Bool := isTlsServer c.peer && certOk c && (alpnPick c.alpnC c.alpnS).isSome

def firstFlightSeen : Peer → Bool
  | .close0 => false
  | _ => true

/-- SNI in the ClientHello: DNS names only -/
def sniOf (c : Case) : Option String :=
  if hostKind c.host == .dns then some (dropDot c.host) else none

/-- the plain braid: the inner transport's stream is returned unwrapped, the caller writes to it -/
def runPlain (c : Case) : Obs :=
  { res := .okPlain, wire := if firstFlightSeen c.peer then .ascii else .none, leak := firstFlightSeen c.peer,
    sni := none, alpn := none, app := false }

/-- the TLS braid: name check, connect, handshake driven to completion, then the stream -/
def runTls (c : Case) : Obs :=
  if !c.nameValid then
    { res := .errName, wire := .none, leak := false, sni := none, alpn := none, app := false }
  else
    let wire := if firstFlightSeen c.peer then Wire.tls else Wire.none
    let sni := if firstFlightSeen c.peer then sniOf c else none
    if handshakeOk c then
      { res := .okTls, wire := wire, leak := false, sni := sni, alpn := (alpnPick c.alpnC c.alpnS).getD none, app := true }
    else if c.peer == .silent then
      { res := .timeout, wire := wire, leak := false, sni := sni, alpn := none, app := false }
    else
      { res := .errHs, wire := wire, leak := false, sni := sni, alpn := none, app := false }

/-- `TlsTransport::call` -/
def usesTls (c : Case) : Bool := c.cfg && schemeUsesTls c.scheme

def run (c : Case) : Obs := if usesTls c then runTls c else runPlain c

end Hd.Tls
