import HdModel.Model.Util
import HdModel.Model.E2E
namespace Hd.E2E

def splitSemi (l : List String) : List (List String) :=
  l.foldr (fun t acc => if t == ";" then [] :: acc else match acc with | [] => [[t]] | x :: xs => (t :: x) :: xs) [[]]

/-- one request of the `e2e` stream; everything that makes up the message is folded into `payload` -/
def parseReq : List String → Option Req
  | [id, ver, origin, m, pl, ql, bl, bc, be, d, rl, rc, re, st, cancel] =>
    let nums := [pl, ql, bl, bc, be, d, rl, rc, re, st].map natTok
    let mcode := (m.toList.headD 'G').toNat
    some { id := natTok id, h2 := ver == "2", origin := natTok origin,
           payload := nums.foldl (fun a n => a * 1000003 + n) mcode, mayCancel := cancel != "-" }
  | _ => none

structure IObs where
  id : Nat
  outcome : String
  calls : Nat
  flag : String
  /-- virtual ms at which the handler was entered (scenarios with a shutdown signal) -/
  started : Option Nat := none

def parseObs (t : String) : Option IObs :=
  match t.splitOn "=" with
  | [id, rest] =>
    match rest.splitOn "/" with
    | [o, n, f] => some { id := natTok id, outcome := o, calls := natTok n, flag := f }
    | [o, n, f, st] => some { id := natTok id, outcome := o, calls := natTok n, flag := f, started := st.toNat? }
    | _ => none
  | _ => none

/-- what the server's handler found wrong with the request it received; the Host header and the request target are
    also the business of C13 (what is written on the wire for a request) -/
def alteredClass (flag : String) : String :=
  let fields := (flag.drop 4).toString.splitOn ","
  "C01/request-altered" ++
    (if fields.contains "host" then ",C13/host-header-on-the-wire" else "") ++
    (if fields.contains "path" || fields.contains "query" then ",C13/request-target-on-the-wire" else "")

/-- the property on one request's observation -/
def verdictOne (r : Req) (o : IObs) : Option String :=
  if o.outcome.startsWith "mismatch:" then some "C01/response-mismatch"
  else if o.flag.startsWith "bad:" then some (alteredClass o.flag)
  else if o.calls > 1 then some "C01/request-duplicated"
  else if o.outcome == "ok" && o.calls == 0 then some "C01/response-without-request"
  else if o.outcome == "timeout" then some "C01/request-never-completed"
  else if o.outcome == "panic" then some "C01/request-failed"
  else if o.outcome.startsWith "err:" then some "C01/request-failed"
  else if !r.mayCancel && o.flag == "aborted" then some "C01/request-truncated"
  else if o.outcome == "cancelled" && !r.mayCancel then some "C01/unparsable-observation"
  else if o.outcome == "ok" || o.outcome == "cancelled" then none
  else some "C01/unparsable-observation"

/-- C07 on one request of a scenario with a graceful-shutdown signal at `sig` ms: a request whose
    handler had been entered before the signal gets its complete, correct response; one that the
    server never started to handle may be refused. -/
def verdictSignal (sig : Nat) (o : IObs) : Option String :=
  if o.outcome.startsWith "mismatch:" then some "C01/response-mismatch"
  else if o.flag.startsWith "bad:" then some (alteredClass o.flag)
  else if o.calls > 1 then some "C01/request-duplicated"
  else match o.started with
    | some st =>
      if st < sig && o.outcome != "ok" then some "C07/inflight-response-lost"
      else if o.outcome == "ok" || o.outcome.startsWith "err:" then none
      else some "C07/unparsable-observation"
    | none =>
      -- a request the server never started to handle: refused, or (the listener being kept alive by a caller
      -- who holds on to the completed future) never connected
      if o.outcome == "ok" then some "C01/response-without-request"
      else if o.outcome.startsWith "err:" || o.outcome == "timeout" then none
      else some "C07/unparsable-observation"

/-- scenarios with a signal: `e2e <buf> <pool> <tls> <sig> ; <req> ; … | <id>=<outcome>/<calls>/<flag>/<started> … srv=<ok>/<n>` -/
def signalLine (sig : Nat) (rs : List (List String)) (obs : List String) : Bool × Bool × String × String :=
  let reqs := rs.filterMap parseReq
  let iobs := obs.filterMap parseObs
  let srvTok := obs.find? (·.startsWith "srv=")
  if reqs.length != rs.length || iobs.length != reqs.length || srvTok.isNone then
    (false, false, "C07/unparsable-observation", s!"reqs={reqs.length}/{rs.length} obs={iobs.length}")
  else
    let srvOk := match srvTok with
      | some t => (match ((t.drop 4).toString.splitOn "/") with | [a, b] => a == b | _ => false)
      | none => false
    -- the model (`Server.lean`, C07_inflight_completes / C07_completed_for_good): every exchange the server
    -- has started is finished, nothing else is promised, the serving futures complete
    let shown := " ".intercalate (reqs.map fun r => s!"{r.id}=ok-if-started-before-{sig}") ++ " srv=all"
    let cls := (iobs.foldl (fun acc o => acc <|> verdictSignal sig o) none) <|>
      (if srvOk then none else some "C07/server-not-stopped")
    let agree := (reqs.zip iobs).all (fun (r, o) => o.id == r.id) && srvOk &&
      iobs.all (fun o => match o.started with | some st => st >= sig || o.outcome == "ok" | none => true)
    (agree, cls.isNone, cls.getD "-", shown)

/-- `e2e <buf> <pool> <tls> ; <req> ; … | <id>=<outcome>/<calls>/<flag> …` -/
def driverLine (inp obs : List String) : Bool × Bool × String × String :=
  match splitSemi inp with
  | [_buf, _pool, _tls, sig] :: rs => signalLine (natTok sig) rs obs
  | [_buf, _pool, _tls] :: rs =>
    let reqs := rs.filterMap parseReq
    let iobs := obs.filterMap parseObs
    if reqs.length != rs.length || iobs.length != reqs.length then
      (false, false, "C01/unparsable-observation", s!"reqs={reqs.length}/{rs.length} obs={iobs.length}")
    else
      -- the model under its canonical schedule; by `C01_no_crosstalk` any schedule gives the same answers
      let s := run reqs (canonical reqs)
      let expect := reqs.map fun r =>
        let got := s.delivered.find? (·.1 == r.id)
        let ok := got.map (·.2) == some (serve r)
        (r, ok)
      let shown := " ".intercalate (expect.map fun (r, ok) =>
        s!"{r.id}={if ok then "ok" else "undelivered"}{if r.mayCancel then "|cancelled" else ""}")
      let pairs := expect.zip iobs
      let agree := pairs.all fun ((r, ok), o) =>
        o.id == r.id && ok && (o.outcome == "ok" || (r.mayCancel && o.outcome == "cancelled"))
      let cls := pairs.foldl (fun acc ((r, _), o) => acc <|> verdictOne r o) none
      -- every reason any request of the scenario gives (the first one leads)
      let all := (pairs.filterMap fun ((r, _), o) => verdictOne r o) ++
        (iobs.filterMap fun o => if o.flag.startsWith "bad:" then some (alteredClass o.flag) else none)
      let all := (all.flatMap (·.splitOn ",")).eraseDups
      (agree, cls.isNone, if cls.isNone then "-" else ",".intercalate all, shown)
  | _ => (false, false, "bad-line", "")

end Hd.E2E
