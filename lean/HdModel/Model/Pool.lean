/-! Executable model of hyperdriver's client connection pool:
    `client/pool/{mod,checkout,idle,key}.rs`, `pool/service.rs` (`connect_to`, `ResponseFuture::poll`)
    and `conn/connector.rs` (`poll_connector`; `shareable` is the constant `false`, so the
    `connected_in_handshake` notification is unreachable and not modelled).

    One op = one `poll` / drop / environment event, executed atomically (every access to `PoolInner`
    is under its mutex). Spawned tasks (`WhenReady`, delayed-drop checkouts) sit in an explicit run
    queue and only run at `Op.run`, in tokio's FIFO notification order. tokio's oneshot channel is a
    five-state value. A connection handle is a `ConnId`; an HTTP/2 handle may be duplicated
    (`reuse()`), an HTTP/1 handle is unique. -/
namespace Hd.Pool

abbrev Token := Nat      -- 0 = `Token::zero()`
abbrev ReqId := Nat
abbrev ConnId := Nat
abbrev KeyId := Nat      -- canonical id of a (scheme, authority) pair

inductive Kind | h1 | h2
deriving DecidableEq, Repr, Inhabited

structure Conn where
  origin : KeyId
  kind   : Kind
  isOpen : Bool := true      -- the peer has not closed it
  busy   : Bool := false     -- HTTP/1: a response is still outstanding (`poll_ready` is pending)
deriving Repr, Inhabited, DecidableEq

/-- `Pooled<C>`: connection handle, the token it returns to (0 = never), and whether it has a pool. -/
structure Pooled where
  conn    : ConnId
  token   : Token
  hasPool : Bool
deriving Repr, DecidableEq, Inhabited

/-- tokio oneshot channel between the pool's waiter queue (sender) and a checkout (receiver). -/
inductive Chan
  | none                 -- not created
  | empty                -- both ends alive, nothing sent
  | full (p : Pooled)    -- a value was sent and not yet received
  | rxGone               -- receiver closed, dropped, or value taken
  | txGone               -- sender dropped without sending
deriving Repr, DecidableEq, Inhabited

inductive WaitKind | idle | connecting | noPool
deriving DecidableEq, Repr, Inhabited

/-- `InnerCheckoutConnecting` -/
inductive Inner | waiting | connected | connecting | delayDrop | delayed
deriving DecidableEq, Repr, Inhabited

/-- What the protocol handshake produced for a successful attempt: the protocol the request asked for,
    HTTP/2 chosen by ALPN, or a connection that cannot be shared whatever the request asked for. -/
inductive Negotiated | asRequested | alpnH2 | notShared
deriving DecidableEq, Repr

inductive DialOutcome | ok (n : Negotiated) | failConnect | failHandshake
deriving DecidableEq, Repr

structure Dial where
  started : Bool := false
  outcome : Option DialOutcome := none
deriving Repr, Inhabited, DecidableEq

structure Checkout where
  key    : KeyId
  token  : Token
  mux    : Bool                 -- the request asked for HTTP/2
  waiter : WaitKind
  inner  : Inner
  conn   : Option ConnId := none   -- connection popped from the pool at creation
  marker : Bool := false           -- placed a connection-in-progress marker (`marker: Option<AttemptId>` is some)
  attempt : Nat := 0               -- … and this is the attempt id it was placed under
  alive  : Bool := true
deriving Repr, Inhabited, DecidableEq

inductive Task
  | whenReady (c : ConnId) (token : Token) (hasPool : Bool)
  | delayed (r : ReqId)
deriving Repr, DecidableEq

structure Config where
  idleTimeout : Option Nat := none     -- ms
  maxIdle     : Nat := 32
  cap         : Bool := true           -- `continue_after_preemption`
  lax         : Bool := false          -- the connection type's `is_open()` ignores readiness (still busy = open)
deriving Repr, DecidableEq

structure State where
  cfg        : Config
  now        : Nat := 0
  keys       : List (KeyId × Token) := []          -- `TokenMap`
  counter    : Nat := 1
  connecting : List Token := []                    -- `PoolInner::connecting` (the keys)
  owner      : Token → Nat := fun _ => 0           -- … and the attempt id stored with the key when it was last placed
  attempts   : Nat := 0                            -- `PoolInner::attempts`
  waiting    : Token → List ReqId := fun _ => []   -- `PoolInner::waiting` (senders, by owning request)
  idle       : Token → List (ConnId × Nat) := fun _ => []   -- head = most recently pushed (Vec back)
  chan       : ReqId → Chan := fun _ => .none
  co         : ReqId → Option Checkout := fun _ => none
  dial       : ReqId → Dial := fun _ => {}
  tasks      : List (Nat × Task) := []             -- parked tasks (id, task)
  runq       : List Nat := []                      -- notified task ids, FIFO
  nextTask   : Nat := 0
  held       : ReqId → Option Pooled := fun _ => none   -- connection inside the inner service
  conns      : ConnId → Option Conn := fun _ => none
  nextConn   : Nat := 0
  dialCount  : Nat := 0
  dropped    : List ConnId := []                   -- HTTP/1 handles dropped by the pool (closed)

def upd {α β} [DecidableEq α] (f : α → β) (a : α) (b : β) : α → β :=
  fun x => if x = a then b else f x

/-- What a single op lets the outside world observe. -/
inductive Obs
  | pending
  | got (c : ConnId) (reused : Bool)    -- checkout resolved and the inner service was called with `c`
  | err (kind : Nat)                     -- 0 unavailable, 1 connecting, 2 handshaking
  | panic
  | noop
  | done
deriving Repr, DecidableEq

/-! ### helpers -/

def canShare (s : State) (c : ConnId) : Bool :=
  match s.conns c with | some k => k.kind == .h2 | none => false

/-- `PoolableConnection::is_open`: for hyperdriver's own `HttpConnection` this is hyper's `is_ready`
    (open and not busy); a connection type may also report just "not closed" (`lax`). -/
def isOpenC (s : State) (c : ConnId) : Bool :=
  match s.conns c with | some k => k.isOpen && (s.cfg.lax || !k.busy) | none => false

/-- `TokenMap::insert` -/
def tokenOf (s : State) (k : KeyId) : State × Token :=
  match s.keys.lookup k with
  | some t => (s, t)
  | none => ({ s with keys := (k, s.counter) :: s.keys, counter := s.counter + 1 }, s.counter)

def spawn (s : State) (t : Task) : State :=
  { s with tasks := s.tasks ++ [(s.nextTask, t)], runq := s.runq ++ [s.nextTask], nextTask := s.nextTask + 1 }

/-- `Pooled::drop` -/
def dropPooled (s : State) (p : Pooled) : State :=
  if canShare s p.conn then s
  else spawn s (.whenReady p.conn p.token p.hasPool)

/-- the `while let Some(waiter) = waiters.pop_front()` loop of `PoolInner::push` -/
def pushLoop (s : State) (token : Token) (c : ConnId) : List ReqId → State × Bool
  | [] => ({ s with waiting := upd s.waiting token [] }, false)
  | r :: rest =>
    match s.chan r with
    | .empty =>
      if canShare s c then
        pushLoop { s with chan := upd s.chan r (.full ⟨c, 0, true⟩) } token c rest
      else
        ({ s with chan := upd s.chan r (.full ⟨c, token, true⟩), waiting := upd s.waiting token rest }, true)
    | _ => pushLoop s token c rest

/-- `PoolInner::push` (with the `max_idle_per_host` bound) -/
def clearMarker (s : State) (token : Token) (c : ConnId) : State :=
  -- only a shareable connection completes the attempt other checkouts are waiting for
  if canShare s c then { s with connecting := s.connecting.erase token } else s

def push (s : State) (token : Token) (c : ConnId) : State :=
  let s := clearMarker s token c
  let (s, delivered) := pushLoop s token c (s.waiting token)
  if delivered then s
  else if (s.idle token).length < s.cfg.maxIdle then
    { s with idle := upd s.idle token ((c, s.now) :: s.idle token) }
  else if canShare s c then s
  else { s with dropped := c :: s.dropped }

def expired (s : State) (at_ : Nat) : Bool :=
  match s.cfg.idleTimeout with
  | some d => decide (0 < d) && decide (d ≤ s.now) && decide (at_ < s.now - d)
  | none => false

/-- `IdleConnections::pop` on a most-recent-first list: (result, remaining, handles dropped) -/
def idlePop (s : State) : List (ConnId × Nat) → Option ConnId × List (ConnId × Nat) × List ConnId
  | [] => (none, [], [])
  | (c, at_) :: rest =>
    if expired s at_ then (none, [], (c :: rest.map (·.1)))
    else if isOpenC s c then (some c, rest, [])
    else
      let (r, l, d) := idlePop s rest
      (r, l, c :: d)

def noteDropped (s : State) (cs : List ConnId) : State :=
  { s with dropped := (cs.filter (fun c => !canShare s c)) ++ s.dropped }

/-- `Pool::checkout` when `PoolInner::pop` produced connection `c` (a clone of a shareable connection
    stays in the idle list). -/
def issueFound (s : State) (r : ReqId) (k : KeyId) (mux : Bool) (t : Token) (c : ConnId) : State :=
  let s := if canShare s c then { s with idle := upd s.idle t ((c, s.now) :: s.idle t) } else s
  { s with chan := upd s.chan r .txGone,
           co := upd s.co r (some { key := k, token := t, mux, waiter := .idle, inner := .connected, conn := some c }) }

/-- `Pool::checkout` when nothing usable is idle: queue a waiter; wait for the attempt in progress,
    or start one (placing the marker for a multiplexed request). -/
def issueMissing (s : State) (r : ReqId) (k : KeyId) (mux : Bool) (t : Token) : State :=
  let s := { s with waiting := upd s.waiting t (s.waiting t ++ [r]), chan := upd s.chan r .empty }
  if s.connecting.contains t then
    { s with co := upd s.co r (some { key := k, token := t, mux, waiter := .connecting, inner := .waiting }) }
  else
    let s := if mux then { s with connecting := t :: s.connecting, attempts := s.attempts + 1,
                                  owner := upd s.owner t (s.attempts + 1) } else s
    { s with co := upd s.co r (some { key := k, token := t, mux, waiter := .idle, marker := mux,
                                       attempt := if mux then s.attempts else 0,
                                       inner := if s.cfg.cap then .delayDrop else .connecting }) }

/-- `Pool::checkout` -/
def issue (s : State) (r : ReqId) (k : KeyId) (mux : Bool) : State :=
  let tk := tokenOf s k
  let pr := idlePop tk.1 (tk.1.idle tk.2)
  let s1 := noteDropped { tk.1 with idle := upd tk.1.idle tk.2 pr.2.1 } pr.2.2
  match pr.1 with
  | some c => issueFound s1 r k mux tk.2 c
  | none => issueMissing s1 r k mux tk.2

/-- receiver closed and dropped (`Waiting::close`, or the field drop of a dying checkout) -/
def dropRx (s : State) (r : ReqId) : State :=
  match s.chan r with
  | .full p => dropPooled { s with chan := upd s.chan r .rxGone } p
  | .empty => { s with chan := upd s.chan r .rxGone }
  | _ => s

/-- dropping the queued senders of a token: each receiver that is still waiting sees `Closed` -/
def dropSenders (s : State) : List ReqId → State
  | [] => s
  | r :: rest =>
    let s := match s.chan r with
      | .empty => { s with chan := upd s.chan r .txGone }
      | _ => s
    dropSenders s rest

/-- `PoolInner::cancel_connection` -/
def cancelConnection (s : State) (t : Token) : State :=
  if s.connecting.contains t then
    let s := { s with connecting := s.connecting.erase t }
    let s := dropSenders s (s.waiting t)
    { s with waiting := upd s.waiting t [] }
  else s

/-- `PinnedDrop`, first part: a connection taken from the pool that was never handed out goes back
    (unless it can be shared: then it never left the pool). -/
def returnUnused (s : State) (c : Checkout) : State :=
  match c.conn with
  | some cid =>
    if isOpenC s cid && !canShare s cid then push s c.token cid
    else if canShare s cid then s else { s with dropped := cid :: s.dropped }
  | none => s

/-- The checkout that placed a marker going away without a delayed drop cancels it – if it is still the
    one in place: `cancel_connection(token, attempt)` compares the attempt id. (The marker of an attempt
    is also removed when somebody else provides a shareable connection; a later attempt may then have
    placed a marker of its own for the same token, which is not this checkout's to cancel.) -/
def cancelIfOwner (s : State) (c : Checkout) : State :=
  if c.marker && s.owner c.token == c.attempt then cancelConnection s c.token else s

/-- `self.connection.take()`: the checkout no longer holds the connection it was given -/
def takeConn (s : State) (r : ReqId) (c : Checkout) : State :=
  { s with co := upd s.co r (some { c with conn := none }) }

/-- `PinnedDrop for Checkout` followed by the field drops -/
def dropCheckout (s : State) (r : ReqId) : State :=
  match s.co r with
  | none => s
  | some c =>
    if !c.alive then s else
    let s := returnUnused (takeConn s r c) c
    if c.inner = .delayDrop then
      let s := spawn s (.delayed r)
      let s := dropRx s r
      { s with co := upd s.co r (some { c with alive := false, waiter := .noPool, inner := .delayed, conn := none }) }
    else
      let s := cancelIfOwner s c
      let s := dropRx s r
      { s with co := upd s.co r (some { c with alive := false, waiter := .noPool, conn := none, marker := false }) }

/-- `register_connected` for a freshly established connection -/
def registerConnected (s : State) (c : Checkout) (cid : ConnId) : State × Pooled :=
  if canShare s cid then (push s c.token cid, ⟨cid, 0, false⟩)
  else (s, ⟨cid, c.token, true⟩)

/-- The kind of the connection a handshake produced: HTTP/2 if the request asked for it or ALPN chose
    it, unless the protocol came back with a connection that cannot be shared. -/
def connKind (mux : Bool) : Negotiated → Kind
  | .asRequested => if mux then .h2 else .h1
  | .alpnH2 => .h2
  | .notShared => .h1

def newConn (s : State) (c : Checkout) (alpn : Negotiated) : State × ConnId :=
  ({ s with nextConn := s.nextConn + 1,
            conns := upd s.conns s.nextConn (some { origin := c.key, kind := connKind c.mux alpn }) },
   s.nextConn)

/-- `checked_out` for a connection that came out of the pool -/
def checkedOut (s : State) (c : Checkout) (cid : ConnId) : Pooled :=
  if canShare s cid then ⟨cid, 0, false⟩ else ⟨cid, c.token, true⟩

/-- `Connector::poll_connector`, first state: the transport is asked to connect exactly once. -/
def startDial (s : State) (r : ReqId) : State :=
  if (s.dial r).started then s
  else { s with dial := upd s.dial r { s.dial r with started := true }, dialCount := s.dialCount + 1 }

inductive PollRes | pending | got (p : Pooled) | err (k : Nat) | panic
deriving Repr, DecidableEq

/-- `Waiting::poll`: `none` = `Pending`; `some none` = fall through to the connector;
    `some (some p)` = `Connected(p)`. -/
def pollWaiter (s : State) (r : ReqId) (c : Checkout) : State × Checkout × Option (Option Pooled) :=
  match c.waiter with
  | .idle =>
    match s.chan r with
    | .full p => ({ s with chan := upd s.chan r .rxGone }, { c with waiter := .noPool }, some (some p))
    | .txGone => (s, { c with waiter := .noPool }, some none)
    | _ => (s, c, some none)                      -- `NotReady`: the receiver stays registered
  | .connecting =>
    match s.chan r with
    | .full p => ({ s with chan := upd s.chan r .rxGone }, { c with waiter := .noPool }, some (some p))
    | .txGone => (s, { c with waiter := .noPool }, some none)
    | _ => (s, c, none)
  | .noPool => (s, c, some none)

/-- `Checkout::poll` (one call) -/
def pollCheckout (s : State) (r : ReqId) (c : Checkout) : State × Checkout × PollRes :=
  let (s, c, w) := pollWaiter s r c
  match w with
  | none => (s, c, .pending)
  | some (some p) => (s, c, .got p)
  | some none =>
    match c.inner with
    | .waiting => (s, c, .err 0)
    | .connected =>
      match c.conn with
      | none => (s, c, .panic)
      | some cid =>
        let s := dropRx s r
        let c := { c with conn := none, waiter := .noPool }
        (s, c, .got (checkedOut s c cid))
    | _ =>
      let d := s.dial r
      let s := startDial s r
      match d.outcome with
      | none => (s, c, .pending)
      | some out =>
        let s := dropRx s r
        let c := { c with inner := .connected, waiter := .noPool }
        match out with
        | .ok alpn =>
          let (s, cid) := newConn s c alpn
          let (s, p) := registerConnected s c cid
          (s, c, .got p)
        | .failConnect => (s, c, .err 1)
        | .failHandshake => (s, c, .err 2)

inductive Op
  | issue (r : ReqId) (k : KeyId) (mux : Bool)
  | poll (r : ReqId)
  | cancel (r : ReqId)
  | cancelOff (r : ReqId)     -- a request that holds a connection is dropped on a thread that has no tokio runtime
  | dialDone (r : ReqId) (o : DialOutcome)
  | finish (r : ReqId)
  | connReady (c : ConnId)
  | connClose (c : ConnId)
  | connFail (c : ConnId)     -- a released connection's `poll_ready` answers with an error while it still reports "open"
  | run                       -- run spawned tasks until none is runnable
  | tick (ms : Nat)
  | mark                      -- start of the drain phase (no effect on the state)
  | shutdown                  -- the runtime hosting the spawned tasks is shut down: every task is dropped
deriving Repr, DecidableEq

def setConn (s : State) (c : ConnId) (f : Conn → Conn) : State :=
  match s.conns c with
  | some k => { s with conns := upd s.conns c (some (f k)) }
  | none => s

/-- Wake the parked tasks that wait for readiness of connection `c`. -/
def wakeConn (s : State) (c : ConnId) : State :=
  let ids := (s.tasks.filter fun (_, t) => match t with | .whenReady c' _ _ => c' == c | _ => false).map (·.1)
  { s with runq := s.runq ++ ids.filter (fun i => !s.runq.contains i) }

/-- Wake the parked delayed checkout of request `r`. -/
def wakeDial (s : State) (r : ReqId) : State :=
  let ids := (s.tasks.filter fun (_, t) => t == .delayed r).map (·.1)
  { s with runq := s.runq ++ ids.filter (fun i => !s.runq.contains i) }

def removeTask (s : State) (i : Nat) : State := { s with tasks := s.tasks.filter (·.1 != i) }

/-- Poll task `i` once. -/
def taskOf (s : State) (i : Nat) : Option Task := (s.tasks.find? (·.1 == i)).map (·.2)

/-- One poll of a `WhenReady` task. -/
def runWhenReady (s : State) (i : Nat) (c : ConnId) (t : Token) (hp : Bool) : State :=
  match s.conns c with
  | none => removeTask s i
  | some k =>
    if !k.isOpen then
      -- `poll_ready` errs; the handle is dropped
      { (removeTask s i) with dropped := c :: s.dropped }
    else if k.busy then s                          -- pending, stays parked
    else
      let s := removeTask s i
      if t != 0 && hp then push s t c else { s with dropped := c :: s.dropped }

/-- One poll of a delayed-drop checkout task. -/
def runDelayed (s : State) (i : Nat) (r : ReqId) : State :=
  match s.co r with
  | none => removeTask s i
  | some c =>
    let res := pollCheckout s r c
    let s := { res.1 with co := upd res.1.co r (some res.2.1) }
    match res.2.2 with
    | .pending => s
    | .got p =>
      -- the delayed checkout is dropped, then the connection it produced
      let s := cancelIfOwner (removeTask s i) res.2.1
      let s := { s with co := upd s.co r (some { res.2.1 with marker := false }) }
      dropPooled s p
    | _ =>
      let s := cancelIfOwner (removeTask s i) res.2.1
      { s with co := upd s.co r (some { res.2.1 with marker := false }) }

def runTask (s : State) (i : Nat) : State :=
  match taskOf s i with
  | none => s
  | some (.whenReady c t hp) => runWhenReady s i c t hp
  | some (.delayed r) => runDelayed s i r

/-- Run notified tasks in FIFO order until the queue is empty (`fuel` bounds the work). -/
def runAll : Nat → State → State
  | 0, s => s
  | fuel + 1, s =>
    match s.runq with
    | [] => s
    | i :: q => runAll fuel (runTask { s with runq := q } i)

/-- A spawned task is dropped before it finished (its runtime is shut down). A `WhenReady` whose
    connection never reported ready drops the handle (`WhenReady::drop` returns only a connection that
    became ready); a delayed-drop checkout is dropped like any dialing checkout: it cancels the marker
    if it is still the owner. -/
def abortTask (s : State) (i : Nat) : State :=
  match taskOf s i with
  | none => s
  | some (.whenReady c _ _) => { (removeTask s i) with dropped := c :: s.dropped }
  | some (.delayed r) =>
    match s.co r with
    | none => removeTask s i
    | some c =>
      let s := cancelIfOwner (removeTask s i) c
      { s with co := upd s.co r (some { c with marker := false }) }

def abortAll : Nat → State → State
  | 0, s => s
  | fuel + 1, s =>
    match s.tasks with
    | [] => { s with runq := [] }
    | (i, _) :: _ => abortAll fuel (abortTask s i)

def step (s : State) : Op → State × Obs
  | .issue r k mux =>
    match s.co r with
    | some _ => (s, .noop)
    | none => (issue s r k mux, .done)
  | .poll r =>
    match s.co r with
    | none => (s, .noop)
    | some c =>
      if !c.alive then (s, .noop) else
      let (s, c, res) := pollCheckout s r c
      let s := { s with co := upd s.co r (some c) }
      match res with
      | .pending => (s, .pending)
      | .got p =>
        -- `ResponseFuture`: the inner service is called with the connection, then the checkout is dropped
        let s := { s with held := upd s.held r (some p) }
        let s := if canShare s p.conn then s else setConn s p.conn (fun k => { k with busy := true })
        let s := dropCheckout s r
        (s, .got p.conn (p.token == 0))
      | .err k => (dropCheckout s r, .err k)
      | .panic => (dropCheckout s r, .panic)
  | .cancel r =>
    match s.held r with
    | some p => (dropPooled { s with held := upd s.held r none } p, .done)
    | none =>
      match s.co r with
      | none => (s, .noop)
      | some c => if c.alive then (dropCheckout s r, .done) else (s, .noop)
  -- `Pooled::drop` cannot spawn the hand-back task there (`tokio::spawn` panics and the task value is dropped while the
  -- panic unwinds): the connection is lost and nothing goes back to the pool - the hand-back task is aborted at birth
  | .cancelOff r =>
    match s.held r with
    | some p => (abortTask (dropPooled { s with held := upd s.held r none } p) s.nextTask, .done)
    | none => (s, .noop)
  | .dialDone r o =>
    let d := s.dial r
    if d.started && d.outcome.isNone then
      (wakeDial { s with dial := upd s.dial r { d with outcome := some o } } r, .done)
    else (s, .noop)
  | .finish r =>
    match s.held r with
    | some p => (dropPooled { s with held := upd s.held r none } p, .done)
    | none => (s, .noop)
  | .connReady c =>
    match s.conns c with
    | some _ => (wakeConn (setConn s c (fun k => { k with busy := false })) c, .done)
    | none => (s, .noop)
  | .connClose c =>
    match s.conns c with
    | some _ => (wakeConn (setConn s c (fun k => { k with isOpen := false })) c, .done)
    | none => (s, .noop)
  -- a connection that has been released while still busy (it sits in a hand-back task) reports an error from
  -- `poll_ready` - taken over by an upgrade, say - although its transport is open. For the pool this is the same event
  -- as the peer closing it: the hand-back task ends without a connection that ever reported ready (`runWhenReady`).
  | .connFail c =>
    match s.conns c with
    | some k =>
      if k.isOpen && k.busy && (s.tasks.any fun (_, t) => match t with | .whenReady c' _ _ => c' == c | _ => false)
      then (wakeConn (setConn s c (fun k => { k with isOpen := false })) c, .done)
      else (s, .noop)
    | none => (s, .noop)
  | .tick ms => ({ s with now := s.now + ms }, .done)
  | .run => (runAll (2 * (s.tasks.length + s.runq.length) + 8) s, .done)
  | .mark => (s, .done)
  | .shutdown => (abortAll (s.tasks.length + 1) s, .done)

def run (s : State) : List Op → State × List Obs
  | [] => (s, [])
  | op :: ops =>
    let (s, o) := step s op
    let (s, os) := run s ops
    (s, o :: os)

def init (cfg : Config) : State := { cfg }

end Hd.Pool
