import HdModel.Model.Util
import HdModel.Spec.Timeout
namespace Hd.Timeout

def showOut : Option (Outcome × Nat) → String
  | none => "pending 0"
  | some (.inner true, t) => s!"inner-ok {t}"
  | some (.inner false, t) => s!"inner-err {t}"
  | some (.timeout, t) => s!"timeout {t}"

def parseOut : String → String → Option (Option (Outcome × Nat))
  | "pending", _ => some none
  | "inner-ok", t => some (some (.inner true, natTok t))
  | "inner-err", t => some (some (.inner false, natTok t))
  | "timeout", t => some (some (.timeout, natTok t))
  | _, _ => none

/-- `to <d> <t|-> <ok> ; <p>*`   obs: `<res> <time> <innerPolls> <innerDropped>` -/
def driverLine (inp obs : List String) : Bool × Bool × String × String :=
  match inp with
  | d :: t :: ok :: ";" :: ps =>
    let d := natTok d
    let i : Inner := { at_ := if t == "-" then none else some (natTok t), ok := ok == "1" }
    let ps := ps.map natTok
    let m := runPolls d i ps 0
    let shown := s!"{showOut m.1} {m.2} 1"
    match obs with
    | [r, tm, polls, dropped] =>
      match parseOut r tm with
      | some o =>
        let v := verdict d i ps o
        let v := v <|> (if dropped != "1" then some "C19/inner-not-dropped" else none)
        (decide (m.1 = o) && natTok polls == m.2 && dropped == "1", v.isNone, v.getD "-", shown)
      | none => (false, false, "C19/unparsable-observation", shown)
    | _ => (false, false, "C19/unparsable-observation", shown)
  | _ => (false, false, "bad-line", "")

end Hd.Timeout
