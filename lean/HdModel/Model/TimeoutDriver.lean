import HdModel.Model.Util
import HdModel.Spec.Timeout
import HdModel.Model.Builder
namespace Hd.Timeout

def showOut : Option (Outcome × Nat) → String
  | none => "pending 0"
  | some (.inner true, t) => s!"inner-ok {t}"
  | some (.inner false, t) => s!"inner-err {t}"
  | some (.timeout, t) => s!"timeout {t}"

def parseOut : String → String → Option (Option (Outcome × Nat))
  | "pending", _ => some none
  | "inner-ok", t => some (some (.inner true, natTok t))
  | "inner-err", t => some (some (.inner false, natTok t))
  | "timeout", t => some (some (.timeout, natTok t))
  | _, _ => none

/-- `to <d> <t|-> <ok> ; <p>*`   obs: `<res> <time> <innerPolls> <innerDropped>` -/
def driverLine (inp obs : List String) : Bool × Bool × String × String :=
  match inp with
  | d :: t :: ok :: ";" :: ps =>
    if obs.head? == some "panic" then (false, false, "C19/panic", "") else
    -- (`max` = `Duration::MAX`: later than every instant of the run)
    let d := if d == "max" then 10 ^ 30 else natTok d
    let i : Inner := { at_ := if t == "-" then none else some (natTok t), ok := ok == "1" }
    let ps := ps.map natTok
    let m := runPolls d i ps 0
    let shown := s!"{showOut m.1} {m.2} 1"
    match obs with
    | [r, tm, polls, dropped] =>
      match parseOut r tm with
      | some o =>
        let v := verdict d i ps o
        let v := v <|> (if dropped != "1" then some "C19/inner-not-dropped" else none)
        (decide (m.1 = o) && natTok polls == m.2 && dropped == "1", v.isNone, v.getD "-", shown)
      | none => (false, false, "C19/unparsable-observation", shown)
    | _ => (false, false, "C19/unparsable-observation", shown)
  | _ => (false, false, "bad-line", "")

/-- Stream `toc`: the timeout as the client builder installs it. However the duration was handed to the builder, the
    request as a whole - every redirect hop included - is one inner future for `TimeoutFuture`: ready once the last
    response is there, i.e. after the sum of the hops' delays (the first hop's alone when redirects are not followed).
    `toc <timeout|-> <via> <redirects> <pool> ; <delay>*`   obs: `<ok-STATUS|timeout|err|hang> <ms> <probe>` -/
def tocLine (inp obs : List String) : Bool × Bool × String × String :=
  match inp with
  | tmoT :: via :: redirects :: pool :: ";" :: ds =>
    let delays := ds.map natTok
    -- what the builder model says is configured after the harness' calls (`harness/src/toc.rs`, call for call)
    let tcalls : List Builder.Call := match via, tmoT.toNat? with
      | "0", some d => [.withTimeout d]
      | "0", none => [.withoutTimeout]
      | "1", t => [.withOptionalTimeout t]
      | _, some d => [.withTimeout 77000, .withTimeout d]
      | _, none => [.withTimeout 77000, .withoutTimeout]
    let fin : List Builder.Call := [.withAutoHttp, .withoutTls, if pool == "1" then .withDefaultPool else .withoutPool] ++ tcalls
    let b := match redirects with
      | "0" => Builder.run Builder.new ([Builder.Call.withTransport, Builder.Call.withoutRedirects] ++ fin)
      | "1" => Builder.run Builder.new ([Builder.Call.withTransport, Builder.Call.withStandardRedirectPolicy] ++ fin)
      | _ => Builder.run Builder.dflt ([Builder.Call.withTransport] ++ fin)
    let tmo := match b.timeout with | some d => toString d | none => "-"
    let follow := b.redirect.isSome
    let total := if follow then delays.sum else delays.headD 0
    let status := if follow || delays.length ≤ 1 then 200 else 302
    let i : Inner := { at_ := some total, ok := true }
    -- the executor polls when something it waits for is ready: when the response is there, or at the deadline
    let m : Option (Outcome × Nat) := match tmo.toNat? with
      | some d => (runPolls d i [min total d] 0).1
      | none => some (.inner true, total)
    let probe := if tmo == "0" then "timeout" else "ok"
    let shown := match m with
      | some (.inner _, t) => s!"ok-{status} {t} {probe}"
      | some (.timeout, t) => s!"timeout {t} {probe}"
      | none => "pending"
    match obs, m with
    | [o, el, pr], some (mo, mt) =>
      let e := natTok el
      let near := e ≤ mt + 2 && mt ≤ e + 2
      let cls : List String :=
        (if o == "hang" then ["C19/never-resolved"] else []) ++
        (match tmo.toNat? with | some d => if o != "hang" && e > d + 2 then ["C19/resolved-late"] else [] | none => []) ++
        (if o == "timeout" && mo != .timeout && !(decide (e > mt + 2)) then ["C19/inner-result-replaced-by-timeout"] else []) ++
        (if o == "timeout" && mo == .timeout && e + 2 < mt then ["C19/timeout-before-deadline"] else []) ++
        (if o.startsWith "ok-" && o != s!"ok-{status}" then ["C19/inner-result-altered"] else []) ++
        (if o == "err" then ["C19/inner-result-altered"] else []) ++
        (if pr != probe && (pr == "hang" || pr == "err" || (pr == "timeout" && probe == "ok")) then ["C19/origin-not-served-after-timeout"] else [])
      let agree := (match mo with | .inner _ => o == s!"ok-{status}" | .timeout => o == "timeout") && near && pr == probe
      (agree, cls.isEmpty, if cls.isEmpty then "-" else ",".intercalate cls, shown)
    | _, _ => (false, false, "C19/unparsable-observation", shown)
  | _ => (false, false, "bad-line", "")

end Hd.Timeout
