import HdModel.Model.Util
import HdModel.Spec.Sniff
namespace Hd.Sniff

def parseEv (t : String) : Option Ev :=
  if t == "p" then some .pending
  else if t == "e" then some .eof
  else if t == "x" then some .err
  else if t.startsWith "d" then some (.data (parseHex (t.drop 1).toString))
  else none

def showObs (o : Obs) : String :=
  let v := match o.version with | none => "err" | some .h1 => "h1" | some .h2 => "h2"
  let c := if o.counts.isEmpty then "-" else ",".intercalate (o.counts.map toString)
  s!"{v} {c} {showHex o.bytes}"

def parseObs : List String → Option Obs
  | [v, c, b] =>
    let ver : Option (Option Version) := match v with
      | "err" => some none | "h1" => some (some .h1) | "h2" => some (some .h2) | _ => none
    ver.map fun ver => { version := ver, counts := if c == "-" then [] else (c.splitOn ",").map natTok,
                         bytes := parseHex b }
  | _ => none

/-- `sniff <ev>* ; <cap>*` -/
def driverLine (inp obs : List String) : Bool × Bool × String × String :=
  let evToks := inp.takeWhile (· != ";")
  let capToks := (inp.dropWhile (· != ";")).drop 1
  let script := evToks.filterMap parseEv
  let caps := capToks.map natTok
  let m := run script caps
  -- the detection future went to sleep without a wake-up: the connection is never served
  if obs.head? == some "stall" then (false, false, "C08/pending-without-wakeup", showObs m) else
  match parseObs obs with
  | some o => (decide (m = o), spec script o, (verdict script o).getD "-", showObs m)
  | none => (false, false, "C08/unparsable-observation", showObs m)

end Hd.Sniff
