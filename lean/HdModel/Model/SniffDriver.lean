import HdModel.Model.Util
import HdModel.Spec.Sniff
namespace Hd.Sniff

def parseEv (t : String) : Option Ev :=
  if t == "p" then some .pending
  else if t == "e" then some .eof
  else if t == "x" then some .err
  else if t.startsWith "d" then some (.data (parseHex (t.drop 1).toString))
  else none

def showObs (o : Obs) : String :=
  let v := match o.version with | none => "err" | some .h1 => "h1" | some .h2 => "h2"
  let c := if o.counts.isEmpty then "-" else ",".intercalate (o.counts.map toString)
  s!"{v} {c} {showHex o.bytes}"

def parseObs : List String → Option Obs
  | [v, c, b] =>
    let ver : Option (Option Version) := match v with
      | "err" => some none | "h1" => some (some .h1) | "h2" => some (some .h2) | _ => none
    ver.map fun ver => { version := ver, counts := if c == "-" then [] else (c.splitOn ",").map natTok,
                         bytes := parseHex b }
  | _ => none

/-- `sniff <ev>* ; <cap>*` -/
def driverLine (inp obs : List String) : Bool × Bool × String × String :=
  let evToks := inp.takeWhile (· != ";")
  let capToks := (inp.dropWhile (· != ";")).drop 1
  let script := evToks.filterMap parseEv
  let caps := capToks.map natTok
  let m := run script caps
  -- the detection future went to sleep without a wake-up: the connection is never served
  if obs.head? == some "stall" then (false, false, "C08/pending-without-wakeup", showObs m) else
  match parseObs obs with
  | some o => (decide (m = o), spec script o, (verdict script o).getD "-", showObs m)
  | none => (false, false, "C08/unparsable-observation", showObs m)

/-- the client's bytes cut into chunks of the given sizes (the list of sizes is cycled), each a data event -/
def cutInto (fuel : Nat) (bs : Bytes) (sizes : List Nat) (k : Nat) : List Ev :=
  match fuel, bs with
  | 0, _ => []
  | _, [] => []
  | fuel + 1, bs =>
    let n := max 1 (sizes.getD (k % max 1 sizes.length) 1)
    .data (bs.take n) :: cutInto fuel (bs.drop n) sizes (k + 1)

/-- `autocmp <write-buffering> <upgrade> <client bytes hex> ; <chunk size>*   |   ref=<h1|h2> same=<0|1> auto=<digest> single=<digest>`
    The model's part is the detection on the script as it was cut (`readVersion`): it says which single-protocol server
    the auto-detecting one has to behave like; that it does behave like it is the specification (`same=1`). -/
def autocmpLine (inp obs : List String) : Bool × Bool × String × String :=
  match inp with
  | _bufw :: _upg :: hexs :: ";" :: sizes =>
    let bs := parseHex hexs
    let script := cutInto (bs.length + 1) bs (sizes.map natTok) 0
    let v := match readVersion script [] with
      | .ok .h2 _ _ => "h2"
      | .ok .h1 _ _ => "h1"
      | _ => "error"
    let shown := s!"ref={v} same=1"
    match obs with
    | [r, same, _, _] =>
      let cls : List String :=
        (if r != s!"ref={v}" then ["C08/detected-protocol"] else []) ++
        (if same != "same=1" then ["C08/auto-server-answers-differently-from-single-protocol-server"] else [])
      (cls.isEmpty, cls.isEmpty, if cls.isEmpty then "-" else ",".intercalate cls, shown)
    | _ => (false, false, "C08/unparsable-observation", shown)
  | _ => (false, false, "bad-line", "")

end Hd.Sniff
