import HdModel.Model.Util
import HdModel.Model.SniffDriver
import HdModel.Spec.Streams
namespace Hd.Streams
open Hd.Sniff

def parseLayer (t : String) : Option Layer :=
  if t == "W" then some .wrapper
  else if t == "B" then some .bridge
  else if t.startsWith "R" then some (.rewind (parseHex (t.drop 1).toString))
  else none

def parseWEv (t : String) : Option WEv :=
  if t == "p" then some .pending
  else if t == "x" then some .err
  else if t.startsWith "a" then some (.acc (natTok (t.drop 1).toString))
  else none

def parseOp (t : String) : Option Op :=
  if t == "f" then some .flush
  else if t == "s" then some .shutdown
  else if t.startsWith "r" then some (.read (natTok (t.drop 1).toString))
  else if t.startsWith "w" then some (.write (parseHex (t.drop 1).toString))
  else if t.startsWith "v" then some (.writev (((t.drop 1).toString.splitOn ",").map parseHex))
  else none

def showRes : Res → String
  | .bytes bs => "b" ++ showHex bs
  | .count n => "n" ++ toString n
  | .ok => "ok"
  | .pending => "P"
  | .err => "E"

def parseRes (t : String) : Option Res :=
  if t == "ok" then some .ok
  else if t == "P" then some .pending
  else if t == "E" then some .err
  else if t.startsWith "b" then some (.bytes (parseHex (t.drop 1).toString))
  else if t.startsWith "n" then some (.count (natTok (t.drop 1).toString))
  else none

/-- split a token list at `;` -/
def splitSemi (l : List String) : List (List String) :=
  l.foldr (fun t acc => if t == ";" then [] :: acc else match acc with | [] => [[t]] | x :: xs => (t :: x) :: xs) [[]]

def parsePOp (t : String) : Option POp :=
  let side := t.startsWith "a"
  let rest := (t.drop 1).toString
  if rest == "f" then some (.flush side)
  else if rest == "s" then some (.shutdown side)
  else if rest.startsWith "r" then some (.read side (natTok (rest.drop 1).toString))
  else if rest.startsWith "w" then some (.write side (parseHex (rest.drop 1).toString))
  -- a vectored write: the slices one after the other
  else if rest.startsWith "v" then some (.write side (((rest.drop 1).toString.splitOn ",").flatMap parseHex))
  else none


/-! ### `st prog`: two programs, one per side, over the pipe model -/

structure Transfer where
  fromA : Bool
  len : Nat
  wchunk : Nat
  rbuf : Nat
deriving Repr

def pat (i j : Nat) : Nat := (i * 31 + j * 7 + j / 251) % 256

def patSlice (i off n : Nat) : Bytes := (List.range n).map fun x => pat i (off + x)

/-- where one side is in its program -/
structure Side where
  idx : Nat := 0
  off : Nat := 0
  shut : Bool := false
  extra : Nat := 0
  done : Bool := false
deriving Repr

structure ProgSt where
  d : Duplex
  a : Side := {}
  b : Side := {}
  res : List (Nat × String) := []       -- verdict per transfer
  eofA : Option String := none           -- what B saw at the end of A's stream
  eofB : Option String := none

/-- One step of one side: the next pipe operation its program asks for, applied with `pstep`. -/
def sideStep (ts : List Transfer) (close : String) (isA : Bool) (st : ProgSt) : ProgSt :=
  let me := if isA then st.a else st.b
  let put := fun (st : ProgSt) (m : Side) => if isA then { st with a := m } else { st with b := m }
  if me.done then st else
  match ts[me.idx]? with
  | some t =>
    if t.fromA == isA then
      let n := min (max t.wchunk 1) (t.len - me.off)
      -- (only as much of the chunk as can be accepted is materialised: `Pipe.write` looks at no more - a full pipe
      -- answers `Pending` to any non-empty write, otherwise `min (length) (room)` bytes are taken)
      let room := (if isA then st.d.ab else st.d.ba).cap - (if isA then st.d.ab else st.d.ba).buf.length
      let op := POp.write isA (patSlice me.idx me.off (min n (max room 1)))
      let (r, d) := pstep st.d op
      let st := { st with d := d }
      match r with
      | .count k =>
        let off := me.off + k
        put st (if off ≥ t.len then { me with idx := me.idx + 1, off := 0 } else { me with off := off })
      | .pending => st
      | _ => put st { me with done := true }
    else
      let want := min (max t.rbuf 1) (t.len - me.off)
      let op := POp.read isA want
      let (r, d) := pstep st.d op
      let st := { st with d := d }
      match r with
      | .bytes [] => put { st with res := (me.idx, s!"short{me.off}") :: st.res } { me with done := true }
      | .bytes bs =>
        if bs != patSlice me.idx me.off bs.length then
          put { st with res := (me.idx, s!"bad{me.off}") :: st.res } { me with done := true }
        else
          let off := me.off + bs.length
          if off ≥ t.len then put { st with res := (me.idx, "ok") :: st.res } { me with idx := me.idx + 1, off := 0 }
          else put st { me with off := off }
      | .pending => st
      | _ => put { st with res := (me.idx, "E") :: st.res } { me with done := true }
  | none =>
    -- the transfers are over: A shuts down (if asked to) and then reads to the end of B's stream (if that closes);
    -- B first reads to the end of A's stream and then shuts down - one after the other, because a TLS shutdown writes
    -- an alert, and two sides that both write and neither reads can block each other on a small pipe
    let closes := fun (c : String) => (close.splitOn c).length > 1
    let mine := if isA then "a" else "b"
    let other := if isA then "b" else "a"
    let sawEnd := if isA then st.eofB.isSome else st.eofA.isSome
    let mustRead := closes other && !sawEnd
    let mustShut := closes mine && !me.shut
    if mustShut && (isA || !mustRead) then
      let op := POp.shutdown isA
      let (_, d) := pstep st.d op
      put { st with d := d } { me with shut := true }
    else if mustRead then
      let op := POp.read isA 16
      let (r, d) := pstep st.d op
      let st := { st with d := d }
      match r with
      | .bytes [] =>
        let v := if me.extra == 0 then "ok" else s!"extra{me.extra}"
        put (if isA then { st with eofB := some v } else { st with eofA := some v }) me
      | .bytes bs => put st { me with extra := me.extra + bs.length }
      | .pending => st
      | _ => put (if isA then { st with eofB := some "E" } else { st with eofA := some "E" }) { me with done := true }
    else put st { me with done := true }

def progRun (ts : List Transfer) (close : String) : Nat → ProgSt → ProgSt
  | 0, st => st
  | fuel + 1, st =>
    if st.a.done && st.b.done then st
    else progRun ts close fuel (sideStep ts close false (sideStep ts close true st))

def parseTransfer (t : String) : Option Transfer :=
  let side := t.take 1
  match ((t.drop 1).toString.splitOn ".").map natTok with
  | [len, w, r, _] => if side.toString == "a" || side.toString == "b" then some { fromA := side.toString == "a", len := len, wchunk := w, rbuf := r } else none
  | _ => none

/-- `st prog <kind> <cap> ; <transfer>* ; <close>`   obs: `<verdict>* ; eof=<..> eof=<..>` -/
def progLine (kind cap : Nat) (tts : List String) (closeT : String) (obs : List String) : Bool × Bool × String × String :=
  -- an upper-case letter: that side goes away without shutting down. To the pipe model that is the same end of the stream;
  -- over TLS (kinds 6, 7) the session has then not been closed, and what the peer must be told is an error
  let close := closeT.toLower
  let cut := fun (c : String) => kind ≥ 6 && (closeT.splitOn c.toUpper).length > 1
  let ts := tts.filterMap parseTransfer
  if ts.length != tts.length then (false, false, "bad-line", "") else
  let fuel := 4 * (ts.map (·.len)).sum + 64 * ts.length + 100
  let st := progRun ts close fuel { d := { ab := { cap := cap }, ba := { cap := cap } } }
  let verdicts := (List.range ts.length).map fun i => (st.res.lookup i).getD "stuck"
  let has := fun (c : String) => (close.splitOn c).length > 1
  let ea := if has "a" then (if cut "a" && st.eofA == some "ok" then "E" else st.eofA.getD "stuck") else "-"
  let eb := if has "b" then (if cut "b" && st.eofB == some "ok" then "E" else st.eofB.getD "stuck") else "-"
  let shown := " ".intercalate verdicts ++ s!" ; eof={ea} eof={eb}"
  match splitSemi obs with
  | [ors, [oa, ob]] =>
    let cls : List String :=
      (if ors.any (·.startsWith "bad") then ["C18/bytes-altered-in-transit"] else []) ++
      (if ors.any (fun o => o.startsWith "short" || o == "stuck" || o == "E") then ["C18/bytes-written-and-flushed-not-delivered"] else []) ++
      (if [oa, ob].any (fun o => o.startsWith "eof=extra") then ["C18/bytes-invented"] else []) ++
      (if (oa == "eof=ok" && cut "a") || (ob == "eof=ok" && cut "b") then ["C18/truncated-stream-reported-as-ended"] else []) ++
      (if (oa == "eof=stuck" || (oa == "eof=E" && !cut "a")) || (ob == "eof=stuck" || (ob == "eof=E" && !cut "b")) then ["C18/eof-not-propagated"] else []) ++
      (if ors.length != ts.length then ["C18/unparsable-observation"] else [])
    (" ".intercalate obs == shown, cls.isEmpty, if cls.isEmpty then "-" else ",".intercalate cls, shown)
  | _ => (false, false, "C18/unparsable-observation", shown)

/-- `st script <layer>* ; <rev>* ; <wev>* ; <op>*`   obs: `<res>* ; <written hex> <flushes> <shutdowns>`
    `st pipe <kind> <cap> ; <pop>*`                   obs: `<res>*` -/
def driverLine (inp obs : List String) : Bool × Bool × String × String :=
  match inp with
  | "script" :: rest =>
    match splitSemi rest, splitSemi obs with
    | [ls, revs, wevs, ops], [ors, tail] =>
      let s0 : St := { layers := ls.filterMap parseLayer, revs := truncate (revs.filterMap Sniff.parseEv), wevs := wevs.filterMap parseWEv }
      let ops := ops.filterMap parseOp
      let (mrs, ms) := run s0 ops
      let shown := " ".intercalate (mrs.map showRes) ++ s!" ; {showHex ms.written} {ms.flushes} {ms.shutdowns}"
      -- an adapter answered `Pending` although nothing below it had been handed the caller's waker
      if ors.contains "Pl" then (false, false, "C18/pending-without-wakeup", shown) else
      match tail with
      | [w, f, sh] =>
        let ors' := ors.filterMap parseRes
        let v := if ors'.length != ops.length then some "C18/unparsable-observation"
                 else verdict s0 ops ors' (parseHex w) (natTok f) (natTok sh)
        (decide (ors' = mrs) && parseHex w == ms.written && natTok f == ms.flushes && natTok sh == ms.shutdowns,
         v.isNone, v.getD "-", shown)
      | _ => (false, false, "C18/unparsable-observation", shown)
    | _, _ => (false, false, "bad-line", "")
  | "prog" :: kind :: cap :: ";" :: rest =>
    (match splitSemi rest with
     | [tts, [close]] => progLine (natTok kind) (natTok cap) tts close obs
     | _ => (false, false, "bad-line", ""))
  | "pipe" :: kind :: cap :: ";" :: ops =>
    if natTok kind ≥ 4 then
      -- kernel sockets: what the operating system does when a side goes away with data unread, how much one read returns, is
      -- not the model's to say; the wrapper is the identity (`C18_read_fifo`, `C18_write_forward`: every layer forwards what
      -- the layer below reports), so the bare sockets under the same operations are the reference: result for result the
      -- same kind of answer, and the same bytes in all
      match splitSemi obs with
      | [wrapped, "ref" :: bare] =>
        let kindOf := fun (t : String) => if t == "b-" then "eof" else (t.take 1).toString
        let bytesOf := fun (l : List String) => (l.filter (fun t => t.startsWith "b" && t != "b-")).map fun t => (t.drop 1).toString
        let same := wrapped.map kindOf == bare.map kindOf && String.join (bytesOf wrapped) == String.join (bytesOf bare)
        -- the FIFO specification on the operations the model knows (a side that went away has shut down, among other things)
        let known := (ops.zip wrapped).filterMap fun (o, r) =>
          let o := if o.endsWith "x" then (o.take 1).toString ++ "s" else o
          match parsePOp o, parseRes r with | some o, some r => some (o, r) | _, _ => none
        let fifo := !((pDelivered false (known.map (·.1)) (known.map (·.2))).isPrefixOf (pAccepted true (known.map (·.1)) (known.map (·.2)))) ||
                    !((pDelivered true (known.map (·.1)) (known.map (·.2))).isPrefixOf (pAccepted false (known.map (·.1)) (known.map (·.2))))
        let cls : List String := (if !same then ["C18/wrapper-answers-differently-from-the-socket-it-wraps"] else []) ++
          (if fifo then ["C18/pipe-not-fifo"] else []) ++ (if wrapped.length != ops.length then ["C18/unparsable-observation"] else [])
        (cls.isEmpty, cls.isEmpty, if cls.isEmpty then "-" else ",".intercalate cls, " ".intercalate bare)
      | _ => (false, false, "C18/unparsable-observation", "")
    else
    let ops := ops.filterMap parsePOp
    let d0 : Duplex := { ab := { cap := natTok cap }, ba := { cap := natTok cap } }
    let (mrs, _) := prun d0 ops
    let ors := obs.filterMap parseRes
    let v := if ors.length != ops.length then some "C18/unparsable-observation" else pverdict ops ors
    (decide (ors = mrs), v.isNone, v.getD "-", " ".intercalate (mrs.map showRes))
  | _ => (false, false, "bad-line", "")

end Hd.Streams
