import HdModel.Model.Util
import HdModel.Model.SniffDriver
import HdModel.Spec.Streams
namespace Hd.Streams
open Hd.Sniff

def parseLayer (t : String) : Option Layer :=
  if t == "W" then some .wrapper
  else if t == "B" then some .bridge
  else if t.startsWith "R" then some (.rewind (parseHex (t.drop 1).toString))
  else none

def parseWEv (t : String) : Option WEv :=
  if t == "p" then some .pending
  else if t == "x" then some .err
  else if t.startsWith "a" then some (.acc (natTok (t.drop 1).toString))
  else none

def parseOp (t : String) : Option Op :=
  if t == "f" then some .flush
  else if t == "s" then some .shutdown
  else if t.startsWith "r" then some (.read (natTok (t.drop 1).toString))
  else if t.startsWith "w" then some (.write (parseHex (t.drop 1).toString))
  else if t.startsWith "v" then some (.writev (((t.drop 1).toString.splitOn ",").map parseHex))
  else none

def showRes : Res → String
  | .bytes bs => "b" ++ showHex bs
  | .count n => "n" ++ toString n
  | .ok => "ok"
  | .pending => "P"
  | .err => "E"

def parseRes (t : String) : Option Res :=
  if t == "ok" then some .ok
  else if t == "P" then some .pending
  else if t == "E" then some .err
  else if t.startsWith "b" then some (.bytes (parseHex (t.drop 1).toString))
  else if t.startsWith "n" then some (.count (natTok (t.drop 1).toString))
  else none

/-- split a token list at `;` -/
def splitSemi (l : List String) : List (List String) :=
  l.foldr (fun t acc => if t == ";" then [] :: acc else match acc with | [] => [[t]] | x :: xs => (t :: x) :: xs) [[]]

def parsePOp (t : String) : Option POp :=
  let side := t.startsWith "a"
  let rest := (t.drop 1).toString
  if rest == "f" then some (.flush side)
  else if rest == "s" then some (.shutdown side)
  else if rest.startsWith "r" then some (.read side (natTok (rest.drop 1).toString))
  else if rest.startsWith "w" then some (.write side (parseHex (rest.drop 1).toString))
  else none

/-- `st script <layer>* ; <rev>* ; <wev>* ; <op>*`   obs: `<res>* ; <written hex> <flushes> <shutdowns>`
    `st pipe <kind> <cap> ; <pop>*`                   obs: `<res>*` -/
def driverLine (inp obs : List String) : Bool × Bool × String × String :=
  match inp with
  | "script" :: rest =>
    match splitSemi rest, splitSemi obs with
    | [ls, revs, wevs, ops], [ors, tail] =>
      let s0 : St := { layers := ls.filterMap parseLayer, revs := truncate (revs.filterMap Sniff.parseEv), wevs := wevs.filterMap parseWEv }
      let ops := ops.filterMap parseOp
      let (mrs, ms) := run s0 ops
      let shown := " ".intercalate (mrs.map showRes) ++ s!" ; {showHex ms.written} {ms.flushes} {ms.shutdowns}"
      -- an adapter answered `Pending` although nothing below it had been handed the caller's waker
      if ors.contains "Pl" then (false, false, "C18/pending-without-wakeup", shown) else
      match tail with
      | [w, f, sh] =>
        let ors' := ors.filterMap parseRes
        let v := if ors'.length != ops.length then some "C18/unparsable-observation"
                 else verdict s0 ops ors' (parseHex w) (natTok f) (natTok sh)
        (decide (ors' = mrs) && parseHex w == ms.written && natTok f == ms.flushes && natTok sh == ms.shutdowns,
         v.isNone, v.getD "-", shown)
      | _ => (false, false, "C18/unparsable-observation", shown)
    | _, _ => (false, false, "bad-line", "")
  | "pipe" :: kind :: cap :: ";" :: ops =>
    let ops := ops.filterMap parsePOp
    let d0 : Duplex := { ab := { cap := natTok cap }, ba := { cap := natTok cap } }
    let (mrs, _) := prun d0 ops
    let ors := obs.filterMap parseRes
    let v := if ors.length != ops.length then some "C18/unparsable-observation" else pverdict ops ors
    -- kernel sockets (kinds 4, 5) may deliver short reads: compared against the FIFO specification only
    let agree := if natTok kind ≥ 4 then v.isNone else decide (ors = mrs)
    (agree, v.isNone, v.getD "-", " ".intercalate (mrs.map showRes))
  | _ => (false, false, "bad-line", "")

end Hd.Streams
