import HdModel.Model.Util
import HdModel.Spec.Server
namespace Hd.Server

def splitSemi (l : List String) : List (List String) :=
  l.foldr (fun t acc => if t == ";" then [] :: acc else match acc with | [] => [[t]] | x :: xs => (t :: x) :: xs) [[]]

def parseKind : String → Option SendKind
  | "full" => some .full | "half" => some .half | "rest" => some .rest | "garbage" => some .garbage
  | "prihalf" => some .prihalf | "pri" => some .pri | _ => none

def parseOp : List String → Option Op
  | ["conn", i] => some (.conn (natTok i))
  | ["connx", i] => some (.connx (natTok i))
  | ["send", i, k] => (parseKind k).map (Op.send (natTok i))
  | ["gate", i] => some (.gate (natTok i))
  | ["close", i] => some (.close (natTok i))
  | ["signal"] => some .signal
  | ["droplistener"] => some .dropListener
  | ["sigconn", i] => some (.sigConn (natTok i))
  | ["sigdrop"] => some .sigDrop
  | _ => none

def showSrv : Srv → String | .pending => "P" | .ok => "OK" | .errAccept => "EA" | .errMake => "EM"
def parseSrv : String → Option Srv | "P" => some .pending | "OK" => some .ok | "EA" => some .errAccept | "EM" => some .errMake | _ => none
def showSt : CSt → String | .none => "n" | .opened => "o" | .closed => "x" | .refused => "r"
def parseSt : String → Option CSt | "n" => some .none | "o" => some .opened | "x" => some .closed | "r" => some .refused | _ => none

def showObs (o : IObs) : String :=
  showSrv o.srv ++ " " ++ " ".intercalate (o.clients.map fun c => s!"{showSt c.st}.{c.resp}.{boolTok c.eof}.{c.hc}")

def parseClient (t : String) : Option CObs :=
  match t.splitOn "." with
  -- eof 2 = a TLS client saw the transport end without the session having been closed; on a connection that never got as
  -- far as a request being handled (still being sniffed when the shutdown cancelled it) that is an ordinary close
  | [st, r, e, h] => (parseSt st).map fun st => { st := st, resp := natTok r, eof := e == "1" || e == "2", hc := natTok h }
  | _ => none

def parseObs : List String → Option IObs
  | srv :: cs => (parseSrv srv).map fun s => { srv := s, clients := cs.filterMap parseClient }
  | _ => none

structure Acc where
  s : St
  agree : Bool := true
  diverged : Bool := false
  cls : Option String := none
  shown : List String := []

/-- `srv <h1|auto> <graceful> <raw|wrapped> <makefail|-> ; <op> ; … | <obs> ; …` -/
def driverLine (inp obs : List String) : Bool × Bool × String × String :=
  match splitSemi inp with
  | [proto, gr, _acc, mf] :: opToks =>
    let cfg : Cfg := { auto := proto == "auto", graceful := gr != "0", makefail := if mf == "-" then none else some (natTok mf), hold := gr == "2" }
    let ops := opToks.filterMap parseOp
    let iobs := (splitSemi obs).filterMap parseObs
    if ops.length != opToks.length || iobs.length != ops.length then
      (false, false, "srv/unparsable-observation", s!"ops={ops.length}/{opToks.length} obs={iobs.length}")
    -- the make-service was called without having been asked whether it is ready (a make-service that limits the number of
    -- connections relies on being asked: one stalled connection at the limit and the next client's call hits it unprepared)
    else if obs.any (fun t => t.startsWith "mk=" && t != "mk=0") then
      (false, false, "C09/make-service-called-without-being-ready", "")
    -- a TLS client found the transport ended without the server having closed the session (no close_notify): the connection
    -- was cut, not closed - the client cannot tell the end of the last response from a truncation
    else if obs.any (fun t => match t.splitOn "." with | [_, r, "2", h] => r != "0" || h != "0" | _ => false) then
      (false, false, "C07/connection-cut-not-closed", "")
    else
      let a := (ops.zip iobs).foldl (fun (a : Acc) (op, io) =>
        if a.diverged then a else
        let post := step a.s op
        let mo := observe post
        if mo == io then { a with s := post, shown := a.shown ++ [showObs mo] }
        else { a with s := post, agree := false, diverged := true, cls := verdict a.s post op io, shown := a.shown ++ [showObs mo ++ " <<"] })
        { s := init cfg }
      (a.agree, a.cls.isNone, a.cls.getD "-", " ; ".intercalate a.shown)
  | _ => (false, false, "bad-line", "")

end Hd.Server

namespace Hd.Server

/-- `srvk <h1|auto> <kind> ; <fault> ; … | <srv> <probe>` -/
def kernelLine (inp obs : List String) : Bool × Bool × String × String :=
  match splitSemi inp, obs with
  | [proto, _kind] :: fs, [srv, probe] =>
    let faults := fs.filterMap List.head?
    let (ms, mp) := kernelRun (proto == "auto") faults
    let shown := s!"{showSrv ms} {boolTok mp}"
    -- no shutdown signal, listener kept, make-service never fails: nothing may end the server
    let cls : Option String :=
      if srv != "P" then some "C09/server-died"
      else if probe != "1" then some "C09/fault-leaked-to-other-connection"
      else none
    (srv == showSrv ms && probe == boolTok mp, cls.isNone, cls.getD "-", shown)
  | _, _ => (false, false, "bad-line", "")

end Hd.Server
