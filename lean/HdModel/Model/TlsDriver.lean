import HdModel.Model.Util
import HdModel.Spec.Tls
namespace Hd.Tls

def parsePeer : String → Option Peer
  | "good" => some .good | "othername" => some .othername | "untrusted" => some .untrusted
  | "plain" => some .plain | "close0" => some .close0 | "close1" => some .close1
  | "trunc" => some .trunc | "alert" => some .alert | "silent" => some .silent
  | _ => none

def parseAlpn : String → List String
  | "h2" => ["h2"] | "h11" => ["h11"] | "both" => ["h2", "h11"] | _ => []

def parseRes : String → Option Res
  | "ok-tls" => some .okTls | "ok-plain" => some .okPlain | "err-conn" => some .errConn
  | "err-hs" => some .errHs | "err-nodomain" => some .errNoDomain | "err-name" => some .errName
  | "err-other" => some .errOther | "timeout" => some .timeout | "panic" => some .panic
  | "bad-uri" => some .badUri | _ => none

def showRes : Res → String
  | .okTls => "ok-tls" | .okPlain => "ok-plain" | .errConn => "err-conn" | .errHs => "err-hs"
  | .errNoDomain => "err-nodomain" | .errName => "err-name" | .errOther => "err-other"
  | .timeout => "timeout" | .panic => "panic" | .badUri => "bad-uri"

def parseWire : String → Option Wire
  | "none" => some .none | "tls" => some .tls | "ascii" => some .ascii | "other" => some .other | _ => none

def showWire : Wire → String
  | .none => "none" | .tls => "tls" | .ascii => "ascii" | .other => "other"

def optS (s : String) : Option String := if s == "-" then none else some s
def showS : Option String → String | some s => s | none => "-"

def showObs (o : Obs) : String :=
  s!"{showRes o.res} {showWire o.wire} {boolTok o.leak} {showS o.sni} {showS o.alpn} {boolTok o.app}"

/-- On the plain braid how much of the marker the peer chose to read is the peer's business: the
    `leak` flag is compared only where the property speaks about it (TLS in use). -/
def eqObs (tlsUsed : Bool) (m o : Obs) : Bool :=
  m.res == o.res && m.wire == o.wire && m.sni == o.sni && m.alpn == o.alpn && m.app == o.app &&
    (!tlsUsed || m.leak == o.leak)

def driverLine (inp obs : List String) : Bool × Bool × String × String :=
  let (inp, extra) := (inp.take 7, inp.drop 7)
  let (fromParts, hostHdr) := match extra with
    | [b, hh] => (b == "p", optS hh)
    | _ => (false, none)
  match inp, obs with
  | [cfg, ac, scheme, host, _port, peer, asv], [res, wire, leak, sni, alpn, app, nv] =>
    match parsePeer peer, parseRes res, parseWire wire with
    | some p, some r, some w =>
      -- cfg 2: `with_tls` called twice, the intended configuration last: the same case as 1
      let c : Case := { cfg := cfg == "1" || cfg == "2", alpnC := parseAlpn ac, scheme := scheme, host := ((host.splitOn "@").getLast?).getD host, peer := p,
                        alpnS := parseAlpn asv, nameValid := nv == "1", hostHeader := hostHdr, fromParts := fromParts }
      let o : Obs := { res := r, wire := w, leak := leak == "1", sni := optS sni, alpn := optS alpn, app := app == "1" }
      let m := run c
      (eqObs (usesTls c) m o, specOk c o, (verdict c o).getD "-", showObs m)
    | _, _, _ => (false, false, "C12/unparsable-observation", "")
  | _, _ => (false, false, "bad-line", "")

end Hd.Tls
