import HdModel.Model.Util
import HdModel.Spec.Sni
namespace Hd.Sni

def parseHost (h p : String) : Option HostVal :=
  if h == "-" then none else some { host := h, port := if p == "-" then none else some (natTok p) }

def showOutcome : Outcome → String
  | .forward v => s!"fwd {boolTok v}"
  | .rejectInvalid => "rej invalid"
  | .rejectMissing => "rej missing"

def parseOutcome : List String → Option Outcome
  | ["fwd", v] => some (.forward (v == "1"))
  | ["rej", "invalid"] => some .rejectInvalid
  | ["rej", "missing"] => some .rejectMissing
  | _ => none

/-- `sni <h2> <hostHdr> <hostHdrPort> <auth> <authPort> <tls> <sni>` -/
def driverLine (inp obs : List String) : Bool × Bool × String × String :=
  match inp with
  | [h2, hh, hp, ah, ap, tls, sni] =>
    let r : Req := { h2 := h2 == "1", hostHdr := parseHost hh hp, authority := parseHost ah ap,
                     tls := if tls == "1" then some (parseHost sni "-") else none }
    let m := handle r
    match parseOutcome obs with
    | some o => (decide (m = o), spec r o, (verdict r o).getD "-", showOutcome m)
    | none => (false, false, "C20/unparsable-observation", showOutcome m)
  | _ => (false, false, "bad-line", "")

/-- `snie` (the same request, end to end through a real TLS server): the client sees a response (with the handler's view
    of `validated_server_name`) or a failed request; which of the two rejections it was is not visible from outside. -/
def e2eLine (inp obs : List String) : Bool × Bool × String × String :=
  -- (an optional eighth token says whether the client offered ALPN: nothing to the model)
  match inp.take 7 with
  | [h2, hh, hp, ah, ap, tls, sni] =>
    let r : Req := { h2 := h2 == "1", hostHdr := parseHost hh hp, authority := parseHost ah ap,
                     tls := if tls == "1" then some (parseHost sni "-") else none }
    let m := handle r
    let o : Option Outcome := match obs with
      | ["rej"] => some (match m with | .forward _ => .rejectInvalid | x => x)
      | _ => parseOutcome obs
    match o with
    | some o => (decide (m = o), spec r o, (verdict r o).getD "-", showOutcome m)
    | none => (false, false, "C20/unparsable-observation", showOutcome m)
  | _ => (false, false, "bad-line", "")

end Hd.Sni
